# Per-property configuration of the checks. Each bin/props/cXX.py fragment adds PROPS['Cxx'] = dict(...):
#   technique, level_text, level_note, rule, floor, assumptions, stages=[dict(name, variant, harness, quick, thorough, ...)]
# Stage keys: name, variant (asan|asan-nd|tsan|plain|plain-d), harness (file in harness/), quick/thorough (case counts),
#   optional: budget (CPU s per case), jobs (parallel workers), opts (dict passed as --opt k=v), wall (s), max_restarts, cxxflags.
# Case counts are sized for <= 1-2 min (quick) / <= 10-15 min (thorough) on 16 cores.
import os, glob

PROPS = {}
NOT_APPLICABLE = {}
HOOK_COMMITS = ['e131362']

_here = os.path.dirname(os.path.abspath(__file__))
for _f in sorted(glob.glob(os.path.join(_here, 'props', 'c*.py'))):
    exec(compile(open(_f).read(), _f, 'exec'))
