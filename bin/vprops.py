# Per-property configuration of the checks: stages (build variant, harness, case counts per tier).
# Case counts are sized for <= 1-2 min (quick) / <= 10-15 min (thorough) on 16 cores.

PROPS = {}
NOT_APPLICABLE = {}
HOOK_COMMITS = ['e131362']

PROPS['C01'] = dict(
    technique='sanitizer-instrumented fuzzing (ASan + UBSan bounds/div0, asserts on) with CPU-time and allocation oracles',
    level_text=('generated, mutated and exhaustively truncated/byte-flipped music files are loaded and then driven through random '
                'play/seek/tick/song-switch/meta sequences in an ASan+UBSan build; exceptions through the C API, return-value contracts, '
                'CPU-time budget per case and single-allocation size are monitored. Holds only on the executions produced.'),
    level_note=('trusted: clang 14 ASan/UBSan, the harness generators; not covered: inputs the generators do not reach, intra-object '
                'overflows, files > 64 KiB; endless looping is only combined with files <= 256 bytes (see DESIGN.md C01)'),
    rule=('cases are (file bytes <= 64 KiB, preselected song, <= 40 follow-up calls) from mutated well-formed '
          'SMF/RMI/GMF/MUS/XMI/CMF/IMF/RSXX files, grammar-aware hostile files, random bytes behind each magic, and '
          'exhaustive truncation / single-byte substitution sweeps of small files; a case is non-trivial when the '
          'input got past a format detector; distinct = distinct (format, load outcome, error class, follow-up kinds, end reached)'),
    floor=50,
    assumptions=['ASan+UBSan(bounds,null,div0) report = memory error; CPU budget 20 s/case stands in for "time proportional to input"',
                 'single allocation request > 256 MiB for an input <= 64 KiB counts as disproportionate memory'],
    stages=[
        dict(name='fuzz', variant='asan', harness='c01_music.cpp', quick=16000, thorough=250000),
        dict(name='sweep', variant='asan', harness='c01_music.cpp', quick=8000, thorough=8000, opts=dict(files=4)),
        dict(name='sweep-all', variant='asan', harness='c01_music.cpp', quick=0, thorough=24000, opts=dict(files=12)),
        dict(name='fuzz-nd', variant='asan-nd', harness='c01_music.cpp', quick=0, thorough=100000),
    ],
)

PROPS['C03'] = dict(
    technique='sanitizer-instrumented random API-sequence exploration with return-contract monitor',
    level_text=('random call sequences (<= 400 calls) over the whole exported API with boundary-biased arguments, NULL devices, exactly sized '
                'heap out-buffers, every emulator id and chip counts 1..100 run in an ASan+UBSan build with asserts on; a table of calls '
                'documented to fail is checked on every return; exceptions, CPU budget and sanitizer reports are refuting events.'),
    level_note=('trusted: clang 14 ASan/UBSan; bank handles used after removeBank/bank load are caller misuse and not generated; looping stays '
                'disabled (C01/C09 cover it); audio volume per case is capped by emulator cost'),
    rule=('one case = fresh instance (rate, emulator, chips) + 20..400 API calls; distinct = distinct (function, argument class, return class, '
          'device NULL?) triples plus distinct call bigrams observed over the whole run; a case is non-trivial when >= 8 different functions ran'),
    floor=300,
    assumptions=['documented failure values are those of include/opnmidi.h; setTrackOptions(solo) of an absent track is three-valued'],
    stages=[
        dict(name='seq', variant='asan', harness='c03_api.cpp', quick=2500, thorough=40000, budget=60),
        dict(name='seq-nd', variant='asan-nd', harness='c03_api.cpp', quick=0, thorough=15000, budget=60),
    ],
)
