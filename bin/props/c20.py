# C20 check configuration (loaded by bin/vprops.py)
PROPS['C20'] = dict(
    technique='PCM-level runtime monitoring of every emulator core (pitch, onset, level, silence) plus an ASan pass over the cores and their register front-ends',
    level_text=('a pure-tone instrument written through the bank API is played on each of the 8 bundled cores over the matrix chip family x 9 output rates x '
                'run-at-PCM-rate x 1..3 chips x keys 24..108; the int16 PCM of opn2_generate is analysed: idle level, onset (hook H3 gives the note-on frame), '
                'fundamental from interpolated zero crossings cross-checked by autocorrelation, RMS per 20 ms window, and the residual after note-off / panic / '
                'reset / chords of 6 x chips notes / bursts of 50-200 events without audio in between. Holds only on the cells and keys executed.'),
    level_note=('trusted: the harness analysis code; tolerances are the ones of the statement (0.5 % / 1 %, 10 ms, 1 % of full scale); "stays silent" is restated as '
                '"for the next 300 ms after ending + 150 ms"; Nuked cores use shorter held parts (>= 100 ms or 30 periods) and keys >= 48'),
    rule=('one case = fresh instance for one matrix cell + one scenario (noteoff|panic|reset|chord|burst) with a sampled key; distinct = distinct '
          '(core, effective family, rate, requested PCM-rate mode, clause evaluated) tuples; the case index enumerates (core, rate) pairs in rounds of 72 and walks '
          'the 60 (scenario, pcm, family, chips) combinations with a stride coprime to 60, so 4320 consecutive cases visit every cell x scenario once'),
    floor=1000,
    assumptions=['pitch/onset/audible clauses are evaluated when the core reports that it runs at its native rate (YMFM and Nuked ignore run-at-PCM-rate), and pitch only '
                 'when the nominal frequency is below 0.4 x output rate',
                 'the expected pitch is the key\'s equal-tempered frequency whatever family the instance reports; a core overriding the requested family is accepted as '
                 'long as opn2_getChipType agrees with the core'],
    stages=[
        dict(name='matrix', variant='plain', harness='c20_cores.cpp', quick=4320, thorough=43200, budget=120, cxxflags=['-O2']),
        dict(name='voices', variant='plain', harness='c20_cores.cpp', quick=960, thorough=9600, budget=120, cxxflags=['-O2']),
        dict(name='asan', variant='asan', harness='c20_cores.cpp', quick=432, thorough=2160, budget=300),
        dict(name='memcheck', variant='plain-d', harness='c20_cores.cpp', quick=48, thorough=240, budget=300, wall=3000,
             wrapper=['valgrind', '-q', '--error-exitcode=79', '--exit-on-first-error=yes', '--track-origins=no', '--leak-check=no']),
    ],
)
