# C12 check configuration (loaded by bin/vprops.py)
PROPS['C12'] = dict(
    technique='runtime monitor: reference instrument resolver followed online, compared with the patch registers written inside every opn2_rt_noteOn (H1)',
    level_text=('generated bank layouts (bank API on even cases, generated WOPN v2 image on odd cases: random subsets of melodic banks and percussion '
                'kits incl. XG SFX kits 128..255, random blank entries, every slot with unique operator bytes) are driven with random histories of CC0 / '
                'CC32 / program change / opn2_rt_bankChange* / GM-GS-XG mode SysEx / GS drum-part SysEx / note-on / note-off on all 16 channels, with '
                'instrument replacement and bank creation through the bank API while no note sounds; for every note-on a resolver written from the '
                'statement predicts the slot (exact, LSB cleared, bank 0, silence; percussion: kit = program (+128 for XG SFX), entry = key, pitch = drum '
                'key) and the monitor compares it with the registers 0x50..0x9F/0xB0, the block/F-number and the key-on written inside the call and with '
                'the return value. ASan+UBSan build.'),
    level_note=('trusted: the resolver (Appendix A.4 of DESIGN.md), the register tap; mode/drum-part SysEx acceptance is judged by C19 (a history whose '
                'canonical SysEx is not accepted is inconclusive here); not covered: pseudo-4-op voices, note offsets and pitch bend (C10), more than 3 '
                'simultaneous notes'),
    rule=('one case = one instance + one generated layout + 120..320 events; distinct = distinct (mode, channel role flavour, resolving step, '
          'absent/blank/playable pattern of the candidate slots, layout route) tuples at a judged note-on, plus replacement and pitch classes; '
          'a case is non-trivial when at least one note-on was judged'),
    floor=150,
    assumptions=['percussion fall-backs the statement does not order (kit absent or entry blank): any playable entry `key` of kit (k & 128) or kit 0 is accepted, '
                 'never a blank slot while one of them is playable, never a melodic slot',
                 'three-valued channel role: MSB 126/127 in GM mode; MSB 126/127 carried over a mode switch until the next bank select; a GS drum-part '
                 'assignment carried into GM/XG mode or followed by CC0/CC32/opn2_rt_bankChange* outside GS mode; power-on mode and what a mode switch does to bank/program/drum '
                 'parts are adopted from the observed state',
                 'kit numbers 128..255 cannot be created through OPN2_BankId (lsb <= 127): they are only installed through the WOPN route',
                 'drum keys >= 128 and melodic slots with a drum key are not generated (the statement does not define them)'],
    stages=[
        dict(name='hist', variant='asan', harness='c12_banksel.cpp', quick=30000, thorough=300000, budget=60),
        dict(name='multidev', variant='asan', harness='c12_banksel.cpp', quick=3000, thorough=40000, budget=60),
        dict(name='memcheck', variant='plain-d', harness='c12_banksel.cpp', quick=1000, thorough=20000, budget=150, wall=2400, **{'as': 'hist'},
             wrapper=['valgrind', '-q', '--error-exitcode=79', '--exit-on-first-error=yes', '--track-origins=no', '--leak-check=no']),
    ],
)
