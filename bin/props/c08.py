PROPS['C08'] = dict(
    technique='differential monitor: linear playback to t vs seek to t on twin instances (state walker + raw event hook)',
    level_text=('for generated songs and targets strictly between event times, an instance that seeks to t (after optional playing / other seeks, '
                'forward and backward) is compared with a twin that played linearly to t: reported position, no active note and no keyed-on chip '
                'channel, the channel state fields the statement names, and the complete event stream after t (kinds, data, song times); '
                'beyond-the-end targets must rewind and replay like a fresh instance, negative targets must change nothing.'),
    level_note='tick-driven with the returned delays; tolerance one output frame on song times; looping off or on without markers (target before loop end)',
    rule='distinct = distinct (target class, pre-history kind, forward/backward, loop flag, track count class) with >= 3 events compared after the seek',
    floor=12,
    assumptions=['channel state compared: program, bank MSB/LSB, volume, expression, pan, bend, bend range, sustain/soft pedal, RPN/NRPN selection'],
    stages=[dict(name='seek', variant='asan', harness='c08_seek.cpp', quick=8000, thorough=160000),
            dict(name='audio', variant='asan', harness='c08_seek.cpp', quick=3000, thorough=40000, budget=60),
            dict(name='memcheck', variant='plain-d', harness='c08_seek.cpp', quick=1000, thorough=20000, budget=150, wall=2400, **{'as': 'seek'},
                 wrapper=['valgrind', '-q', '--error-exitcode=79', '--exit-on-first-error=yes', '--track-origins=no', '--leak-check=no'])],
)
