PROPS['C17'] = dict(
    technique='differential (RMI/GMF vs bare SMF on twin instances) and reference-interpreter (MUS, XMI) monitors over the raw-event-hook stream',
    level_text=('RMI: generated SMFs wrapped in RIFF/RMID (odd sizes, padding, trailing chunks) must deliver the identical stream, times and length as '
                'the bare file; GMF: the embedded track vs a format-0 SMF of division 192; MUS: generated scores (all event types, up to 15 channels '
                '+ percussion, multi-byte delays, volume-carrying and volume-less key-ons) against an interpreter written from the DMX format text '
                '(channel map, controller table, remembered volumes, system events) with times proportional to MUS ticks at 140 Hz +- 2.5 %; XMI: '
                '1..4-song files with durations turned into note-offs, selected song (before load / switched after load), 120 Hz +- 1 %.'),
    level_note=('converter additions (tempo at 0, CC7=100 at a channel\'s first use, End-of-Track) are filtered; pitch-wheel LSB, release velocity and '
                'system-event values are three-valued; XMI bank/loop controllers are not generated'),
    rule='distinct = distinct (format, channel/song count class, size class, odd/even, selection path, tempo) among cases with >= 5 compared events',
    floor=40,
    assumptions=['XMI tempo values 300000..1000000 us so that the integer PPQN keeps the tick rate within 1 %'],
    stages=[
        dict(name='rmi', variant='asan', harness='c17_conv.cpp', quick=6000, thorough=60000),
        dict(name='gmf', variant='asan', harness='c17_conv.cpp', quick=3000, thorough=30000),
        dict(name='mus', variant='asan', harness='c17_conv.cpp', quick=12000, thorough=120000),
        dict(name='xmi', variant='asan', harness='c17_conv.cpp', quick=10000, thorough=100000),
        dict(name='memcheck-mus', variant='plain-d', harness='c17_conv.cpp', quick=800, thorough=16000, budget=150, wall=2400, **{'as': 'mus'},
             wrapper=['valgrind', '-q', '--error-exitcode=79', '--exit-on-first-error=yes', '--track-origins=no', '--leak-check=no']),
        dict(name='memcheck-xmi', variant='plain-d', harness='c17_conv.cpp', quick=800, thorough=16000, budget=150, wall=2400, **{'as': 'xmi'},
             wrapper=['valgrind', '-q', '--error-exitcode=79', '--exit-on-first-error=yes', '--track-origins=no', '--leak-check=no']),
    ],
)
