# C01 check configuration (loaded by bin/vprops.py)
PROPS['C01'] = dict(
    technique='sanitizer-instrumented fuzzing (ASan + UBSan bounds/div0, asserts on) with CPU-time and allocation oracles',
    level_text=('generated, mutated and exhaustively truncated/byte-flipped music files are loaded and then driven through random '
                'play/seek/tick/song-switch/meta sequences in an ASan+UBSan build; exceptions through the C API, return-value contracts, '
                'CPU-time budget per case and single-allocation size are monitored. Holds only on the executions produced.'),
    level_note=('trusted: clang 14 ASan/UBSan, the harness generators; not covered: inputs the generators do not reach, intra-object '
                'overflows, files > 64 KiB; endless looping is only combined with files <= 256 bytes (see DESIGN.md C01)'),
    rule=('cases are (file bytes <= 64 KiB, preselected song, <= 40 follow-up calls) from mutated well-formed '
          'SMF/RMI/GMF/MUS/XMI/CMF/IMF/RSXX files, grammar-aware hostile files, random bytes behind each magic, and '
          'exhaustive truncation / single-byte substitution sweeps of small files; a case is non-trivial when the '
          'input got past a format detector; distinct = distinct (format, load outcome, error class, follow-up kinds, end reached)'),
    floor=50,
    assumptions=['ASan+UBSan(bounds,null,div0) report = memory error; CPU budget 20 s/case stands in for "time proportional to input"',
                 'single allocation request > 256 MiB for an input <= 64 KiB counts as disproportionate memory'],
    stages=[
        dict(name='fuzz', variant='asan', harness='c01_music.cpp', quick=16000, thorough=120000),
        dict(name='sweep', variant='asan', harness='c01_music.cpp', quick=8000, thorough=8000, opts=dict(files=4)),
        dict(name='sweep-all', variant='asan', harness='c01_music.cpp', quick=0, thorough=24000, opts=dict(files=12)),
        dict(name='fuzz-nd', variant='asan-nd', harness='c01_music.cpp', quick=0, thorough=40000),
        dict(name='memcheck', variant='plain-d', harness='c01_music.cpp', quick=800, thorough=12000, budget=150, wall=2400,
             wrapper=['valgrind', '-q', '--error-exitcode=79', '--exit-on-first-error=yes', '--track-origins=no', '--leak-check=no']),
    ],
)

