PROPS['C07'] = dict(
    technique='reference-interpreter monitor: generated SMF + independent SMF timing model vs the raw-event-hook stream (tick- and audio-driven)',
    level_text=('every generated format 0/1 file (1..8 tracks, divisions 1..32767, running status, tempo changes in track 0, all event kinds, '
                'lone End-of-Track rows) is played tick-driven with the returned delays, tick-driven with a fixed step and audio-driven with '
                'arbitrary request sizes; the delivered per-track streams must equal the file (multiset per tick, same-class file order, '
                'controllers before note-ons, note-offs of sounding notes before note-ons) at the reference times through the tempo map and '
                'multiplier (|dt| <= g/2; first call at/after T; at most 512+1 frames early, never late through hook H3), gated tracks/channels '
                'start no note, and the reported length is the last event time + 1 s.'),
    level_note=('cross-class order inside one tick other than the two relations the statement names (e.g. SysEx/meta hoisting, note-offs before '
                'controllers) is accepted; tolerance 1e-9 s per call plus 1e-12 relative for floating-point accumulation'),
    rule=('distinct = distinct (tracks, division class, #tempo changes, gating class, drive mode, multiplier != 1) among cases with >= 20 expected events'),
    floor=60,
    assumptions=['tempo events only in track 0 (statement: tempo map of track 0)', 'every track uses its own channels so events are attributable'],
    stages=[
        dict(name='tick-exact', variant='asan', harness='c07_seq.cpp', quick=8000, thorough=120000),
        dict(name='tick-fixed', variant='asan', harness='c07_seq.cpp', quick=4000, thorough=60000),
        dict(name='audio', variant='asan', harness='c07_seq.cpp', quick=1500, thorough=20000, budget=60),
        dict(name='memcheck', variant='plain-d', harness='c07_seq.cpp', quick=1000, thorough=20000, budget=150, wall=2400, **{'as': 'tick-exact'},
             wrapper=['valgrind', '-q', '--error-exitcode=79', '--exit-on-first-error=yes', '--track-origins=no', '--leak-check=no']),
    ],
)
