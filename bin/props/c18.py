# C18 check configuration (loaded by bin/vprops.py)
PROPS['C18'] = dict(
    technique=('model-based runtime monitor over random setter / reset / switch / load histories in an ASan build: getter vector against a '
               'reference model after every call, SysEx and callback probes, differential rendering against a freshly configured instance '
               '(register tap H1 + PCM)'),
    level_text=('one instance per case is driven through 15..60 calls drawn from every configuration setter (in-range, boundary and invalid '
                'arguments: chip counts 0/-1/101/INT_MIN/INT_MAX, emulator ids -1/9/31/32/33/64/INT_MAX, device ids 16..2^32-1, track and channel '
                'numbers past the end, out-of-enum values for the functions that return nothing), the five hook setters, opn2_reset, valid and '
                'rejected WOPN images (garbage, truncated, wrong magic, version 3, empty) and valid and rejected music files (unknown format, cut '
                'header, cut track, event running past its track, empty). A model of the documented semantics (value kept; -1/AUTO = the value of '
                'the loaded bank image, four images with different LFO / chip-type headers; a bank load returns volume model, LFO and chip type '
                'to the bank\'s values) predicts, after EVERY call, the return-value class and the vector of all getters + obtained chip count + '
                'emulator name + loop enable/count/hooks-only + track count; after a failed call the vector is also compared with the one taken '
                'before it, and every second failed call is followed by a reset, a reload of the same bank, a switch to the same emulator or a '
                'valid music load before the next comparison. After every call a master-volume SysEx addressed to the configured device id must '
                'be accepted and one addressed to another id refused. After resets, switches, loads, hook setters and failures the registered note '
                'and debug hooks are triggered (note on a missing bank) and the loaded looped one-bar song is played tick-driven to its end: '
                'passes = loop settings of the model, per-track note counts = track/channel switches, driver time = tempo multiplier, raw-event / '
                'loop-start / loop-end hooks must fire on the registered user data only. After every failing call, every follow-up, every '
                're-initialising call (reset, switch, loads, chip count, chip type, run-at-PCM-rate), every setter without getter and 8 % of the '
                'others a fresh instance is configured only with what the model holds and plays the same phrase (programs, 6 notes on 3 channels '
                'incl. percussion, CC7/10/11/74/1, pitch bend, 3 x 512 frames): the canonical register-write logs and the LFO register must be '
                'equal and, when the chips under test were re-created by the last call (cores 0, 2, 4, 5), the PCM bit-identical; a mismatch is '
                'attributed by re-rendering with single settings changed, a PCM-only mismatch also against a reference whose last configuration '
                'step was a full set-up instead of a partial reset. Rejected bank: lookups of the loaded image\'s bank ids and '
                'the phrase unchanged; rejected music: error text non-empty, settings unchanged, the surviving song still obeys the loop count, a '
                'valid file loads and plays to its end.'),
    level_note=('exploration, not exhaustive; trusted: clang 14 ASan, the reference model, determinism of identically configured instances (C14) with '
                'constant-filled fresh heap memory (GENS reads state before writing it). PCM is compared only when the chips under test are fresh '
                '(envelope / LFO phase of earlier notes is state, not a setting); otherwise release times are drained and only register logs are '
                'compared. A register write that is overwritten by the very next write to the same register is dropped from both logs (the pan '
                'register is written twice per note, first with the previous pan bits). PCM differing with equal logs and no explaining setting '
                'is counted (pcm_differs_but_registers_equal), not reported. Emulators 0,2,4,5 (3,6 rarely and without PCM comparison: the YMFM cores '
                'apply writes through a timed queue, so the number of writes before the phrase shifts the signal); never 1/8 (slow) or 7 (file '
                'dumper). With > 8 chips the phrase is played without audio calls. After a reported discrepancy the model follows the '
                'implementation (one witness per key and case). '
                'opn2_setLoopCount is followed by opn2_positionRewind (the count applies from the next start of the song, C09).'),
    rule=('one case = fresh instance (rate from 8 values) + configuration head + random history; distinct = coverage items (call kind, outcome '
          'ok/fail/void/void-3v, kind of the preceding failed call), (call kind, outcome, each non-default setting at that moment) and '
          '(probe kind pcm/registers, emulator, chips, after-failure/after-follow-up/routine, call kind); a case is non-trivial when >= 1 failed '
          'call was checked and >= 1 differential probe rendered'),
    floor=1000,
    assumptions=['functions that return nothing given values outside the documented range are three-valued: the getter value observed right after '
                 'the call is adopted and must then persist like an accepted value',
                 'whether the previously loaded song survives a rejected music file is not stated: if opn2_trackCount is unchanged it is expected to '
                 'play as before (same passes), otherwise the model forgets it',
                 'opn2_setTrackOptions with unknown option bits and opn2_openData without a loaded bank: either return value accepted, a failure '
                 'must change nothing; solo of an absent track and option 0 are not generated',
                 'opn2_setTempo(<= 0) returns nothing and must change nothing (the header documents a positive multiplier)',
                 'initial values of a fresh instance are adopted, not modelled'],
    stages=[
        dict(name='rsxx', variant='asan', harness='c18_settings.cpp', quick=1200, thorough=12000, budget=60),
        dict(name='formats', variant='asan', harness='c18_settings.cpp', quick=1200, thorough=12000, budget=60),
        dict(name='histories', variant='asan', harness='c18_settings.cpp', quick=2000, thorough=20000, budget=60, cxxflags=['-O1']),
        dict(name='playing', variant='asan', harness='c18_settings.cpp', quick=1200, thorough=16000, budget=60, cxxflags=['-O1']),
    ],
)
