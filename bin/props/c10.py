# C10 check configuration (loaded by bin/vprops.py)
PROPS['C10'] = dict(
    technique='register-write tap (hook H1) + datasheet frequency decoder compared online with an independent pitch model',
    level_text=('every (0xA4, 0xA0, key-on) group the library writes during note-ons, pitch bends, portamento glides and vibrato ticks is decoded '
                'with the YM2612/YM2608 datasheet formula f = fnum*clock/(144*2^(21-block)) and compared with 440*2^((p-69)/12), p from the '
                'harness\'s own bookkeeping of key / drum key, instrument note offset, 14-bit bend and RPN 0 range; monotonicity in p, the '
                'scope of a bend message (which chip channels get a frequency write inside the call) and DT/MUL integrity in the native range '
                'are checked on the same stream, in an ASan+UBSan build. Holds on the sweeps executed only.'),
    level_note=('trusted: clang 14 ASan/UBSan, the tap (one guarded line per write function), the harness decoder; chip clocks 7670454 / 7987200 Hz; '
                'sweeps are sampled (stride 17 over the bend wheel, stride 8 in the thorough-only stage sweep-dense, all 16384 values at range 2 for 8 keys); '
                'no audio is analysed (C20 does that)'),
    rule=('one case = one enumerated sweep chunk: (family, melodic|percussion, RPN0 MSB in {0,1,2,12,24}, note offset in {-100,-24,-12,-7,-1,0,1,5,12,24,100}, '
          '8 keys) x ~970 bends, or one (family, kind, key, quarter of all 16384 bends), or an RPN0-LSB / portamento / vibrato / bend-scope scenario; '
          'distinct = distinct (family, block written, key class, bend class, instrument kind) tuples plus scenario classes '
          '(portamento direction/time/distance, vibrato source/depth, scope occupancy) in which the oracle was evaluated'),
    floor=600,
    assumptions=['tolerance: |fnum - ideal fnum for the written block| <= 1.5 (one F-number step + rounding) for nominal frequency < 6600 Hz',
                 'above the native range (library raises MUL) only monotonicity of each operator\'s frequency fnum*2^block*multiplier(MUL), multiplier(0)=0.5, is required; '
                 'a drop that goes with a MUL change or the MUL ceiling 15 is keyed ...:above-native-range:..., any other drop there ...:same-mul-above-native-range:...',
                 'RPN 0 LSB units are three-valued: range must lie between MSB and MSB+1 semitones and grow with LSB',
                 'vibrato depth is not given by the statement: deviations up to 1 semitone are accepted (observed maximum is recorded in monitor_counters)',
                 'pedal-/sostenuto-held notes may or may not follow a bend (statement speaks of keys still down): both accepted, counted',
                 'portamento time scale is not given: a glide that does not reach its target within 60 s of audio is inconclusive, not a violation',
                 'percussion_key_number 0 means "sounds at the played key"; drum keys 1..127 are used'],
    stages=[
        dict(name='sweep', variant='asan', harness='c10_pitch.cpp', quick=960, thorough=3520, budget=120),
        dict(name='sweep-dense', variant='asan', harness='c10_pitch.cpp', quick=0, thorough=3520, budget=300, opts=dict(stride=8)),
        dict(name='fullbend', variant='asan', harness='c10_pitch.cpp', quick=128, thorough=128, budget=120),
        dict(name='lsb', variant='asan', harness='c10_pitch.cpp', quick=160, thorough=160, budget=120),
        dict(name='porta', variant='asan', harness='c10_pitch.cpp', quick=3000, thorough=20000, budget=120),
        dict(name='vibrato', variant='asan', harness='c10_pitch.cpp', quick=2000, thorough=15000, budget=60),
        dict(name='seqbend', variant='asan', harness='c10_pitch.cpp', quick=1600, thorough=16000, budget=60),
        dict(name='scope', variant='asan', harness='c10_pitch.cpp', quick=8000, thorough=60000, budget=60),
    ],
)
