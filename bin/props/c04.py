# C04 / C05 / C06 share harness/c04_voices.cpp (workload engine) with three monitors (--opt mode=)
PROPS['C04'] = dict(
    technique='invariant monitor on hooked state (friend access + chip register tap) evaluated after every API call, ASan build',
    level_text=('invariants I1..I6 of DESIGN.md (note<->chip-channel back references, uniqueness, list well-formedness, glide/TTL counters, '
                'instrument pointer inside a loaded bank, chip key state <=> user list) are evaluated after every call of random histories '
                '(polyphony overflow, arpeggio, pedals, bank reloads, chip-count/emulator/chip-type changes, sequencer playback with seeks) and '
                'of all call sequences up to depth 4 (quick) / 5 (thorough) over a 20-symbol alphabet on one chip.'),
    level_note=('trusted: the state walker reads private members through the OPNMIDI_VERIF friend hook at quiescent points; bank removal '
                'while notes sound is caller misuse and not generated; key state is the shadow of register 0x28 writes'),
    rule=('case = instance (1..4 chips) + <= 400 calls (random stage) or one depth-d sequence over the 20-symbol alphabet (exhaustive stage); '
          'distinct = distinct abstract states (per chip channel: #users by sustain class + key state; per MIDI channel: #notes, pedal) in which '
          'the invariants were evaluated'),
    floor=200,
    exhaustive_in=[],
    assumptions=['invariants are evaluated only between API calls (quiescent points), never mid-update'],
    stages=[
        dict(name='random', variant='asan', harness='c04_voices.cpp', quick=3000, thorough=60000, opts=dict(mode='c04')),
        dict(name='pressure', variant='asan', harness='c04_voices.cpp', quick=8000, thorough=60000, opts=dict(mode='c04', pressure=1), **{'as': 'random'}),
        dict(name='exhaustive-d4', variant='asan', harness='c04_voices.cpp', quick=160000, thorough=160000, opts=dict(mode='c04', depth=4)),
        dict(name='exhaustive-d5', variant='asan', harness='c04_voices.cpp', quick=0, thorough=3200000, opts=dict(mode='c04', depth=5)),
        dict(name='memcheck', variant='plain-d', harness='c04_voices.cpp', quick=300, thorough=3000, budget=150, wall=2400, opts=dict(mode='c04'), **{'as': 'random'},
             wrapper=['valgrind', '-q', '--error-exitcode=79', '--exit-on-first-error=yes', '--track-origins=no', '--leak-check=no']),
    ],
)

PROPS['C05'] = dict(
    technique='online comparison of the set of sounding (channel,key) pairs with a 40-line reference model of the MIDI note life cycle',
    level_text=('after every call the set of (MIDI channel, key) pairs that own a keyed-on chip channel (register tap + user lists) is compared '
                'with the set predicted by a reference model of key / sustain pedal / sostenuto / all-notes-off / panic / reset semantics; '
                'three-valued where the statement is silent (held-down keys at a controller-state reset, drum notes released < 30 ms + one '
                'period after their note-on, re-struck sostenuto keys); end-of-history stuck-note clause.'),
    level_note=('comparison is suspended (counted) from the moment a note-on finds <= 1 idle chip channel until the next panic with an empty '
                'table: the property is conditional on polyphony not being exceeded; auto-arpeggio off'),
    rule=('random histories over note-on/off, velocity-0 note-on, CC64/66/120/121/123, panic, reset-state, SysEx resets, program changes (incl. '
          'a blank program) and 0..120 ms of generated audio on melodic and percussion channels; plus the depth-4/5 exhaustive alphabet; distinct = '
          'distinct (call kind, size of observed sounding set) with a non-empty predicted set'),
    floor=40,
    assumptions=['percussion = MIDI channel 10', 'polyphony bound: comparison only while at least 2 chip channels were idle at every note-on'],
    stages=[
        dict(name='random', variant='asan', harness='c04_voices.cpp', quick=15000, thorough=100000, opts=dict(mode='c05', maxops=300)),
        dict(name='exhaustive-d4', variant='asan', harness='c04_voices.cpp', quick=160000, thorough=160000, opts=dict(mode='c05', depth=4)),
        dict(name='exhaustive-d5', variant='asan', harness='c04_voices.cpp', quick=0, thorough=3200000, opts=dict(mode='c05', depth=5)),
    ],
)

PROPS['C06'] = dict(
    technique='before/after state-relation monitor on every note-on (state walker snapshots)',
    level_text=('on every accepted-or-rejected note-on of random histories the chip-channel table before and after the call is compared: with an '
                'idle channel available the note must be accepted, placed on a channel that had no user, and every other (MIDI channel, key, chip '
                'channel) user triple must survive keyed on; with a full table a channel holding a single released-but-held note must be taken '
                'before one with a key-down user. Chips 1..8, four allocation modes, arpeggio on/off, key-on/off delays 0..65535 ms, up to 10 '
                'simulated minutes.'),
    level_note='note-ons of a key that is already active in that MIDI channel and blank instruments are not evaluated (premise changed by the implicit note-off)',
    rule=('distinct = distinct sorted occupancy patterns of the chip-channel table (idle / releasing / single or multiple key-down / single or '
          'multiple held) x allocation mode x arpeggio at an evaluated note-on'),
    floor=60,
    assumptions=['time is advanced with opn2_generate at 8 kHz on the GENS/MAME cores: only the age counters matter'],
    stages=[
        dict(name='random', variant='asan', harness='c04_voices.cpp', quick=8000, thorough=60000, opts=dict(mode='c06', maxops=300), budget=60),
        dict(name='longhold', variant='plain', harness='c04_voices.cpp', quick=480, thorough=4800, opts=dict(mode='c06', longhold=1), budget=300, **{'as': 'random'}),
        dict(name='pressure', variant='asan', harness='c04_voices.cpp', quick=15000, thorough=80000, opts=dict(mode='c06', maxops=300, pressure=1), budget=60, **{'as': 'random'}),
        dict(name='ports', variant='asan', harness='c04_voices.cpp', quick=4000, thorough=60000, opts=dict(mode='c06', ports=1), budget=60, **{'as': 'random'}),
    ],
)
