# C19 check configuration (loaded by bin/vprops.py)
PROPS['C19'] = dict(
    technique='runtime monitor: independent SysEx validator + full state snapshot (H2) and register-write tap (H1) around every opn2_rt_systemExclusive call',
    level_text=('every single-byte substitution / deletion / insertion / truncation / extension / checksum / device-id mutation of the seven recognised '
                'messages (GM on, GM off, master volume, GS reset, GS system mode set, GS drum part, XG on) for device ids 0..15, plus random, framed-random, '
                'double-mutated and concatenated strings <= 64 bytes, is sent to a live instance in a generated prior state (mode GM/GS/XG, key-down and '
                'pedal-held notes, non-default controllers, changed master volume, drum flags); a validator written from the message layouts classifies '
                'the string (valid / invalid / three-valued) and the monitor compares return value, the complete MIDI-state snapshot and the register '
                'writes made inside the call with that verdict. ASan+UBSan build, exactly sized message buffers.'),
    level_note=('trusted: the validator (Appendix A.8 of DESIGN.md), clang 14 ASan; the prior state is re-established through the API after every accepted '
                'message; not covered: strings > 64 bytes, SysEx arriving through a music file (C01/C07 deliver those to the same entry point)'),
    rule=('one case = one instance (device id = (k/8)%16, prior mode = (k/128)%3, random prior state) + the complete mutation sweep of one message kind '
          '(k%8 in 0..6, 250-420 messages) or 260 random strings (k%8 == 7); distinct = distinct (message kind, mutation family, validator verdict and '
          'reason, prior mode, return value) tuples plus distinct (verdict, prior-state features, return value) tuples and three-valued classes observed; '
          'a case is non-trivial when >= 10 messages were judged'),
    floor=250,
    assumptions=['three-valued (accepted or rejected, but self-consistent and stable per class): Roland/Yamaha messages addressed to device 7F or with a '
                 'device-byte high nibble other than 1, model ids other than 42/4C, data values the statement does not pin (GS reset vv != 0, mode set vv > 1, '
                 'drum part vv > 2, XG on vv != 0)',
                 'after a mode switch: controllers CC7=100 CC11=127 CC10=64 CC1=0 bend=0 bend range 2/0 pedals off aftertouch 0 portamento off are required; '
                 'bank/program and drum flags may be kept or cleared, master volume may be kept or reset to 127, key-down notes may continue or end, '
                 'pedal-held notes must end; GM off may leave any of the three modes',
                 'master volume: TL rewrite inside the call is required for key-down notes; notes held only by the pedal are three-valued'],
    stages=[
        dict(name='file', variant='asan', harness='c19_sysex.cpp', quick=1600, thorough=16000, budget=60),
        dict(name='sweep', variant='asan', harness='c19_sysex.cpp', quick=8192, thorough=32768, budget=60),
        dict(name='memcheck', variant='plain-d', harness='c19_sysex.cpp', quick=512, thorough=8192, budget=150, wall=2400, **{'as': 'sweep'},
             wrapper=['valgrind', '-q', '--error-exitcode=79', '--exit-on-first-error=yes', '--track-origins=no', '--leak-check=no']),
    ],
)
