# C02 check configuration (loaded by bin/vprops.py)
PROPS['C02'] = dict(
    technique='sanitizer-instrumented fuzzing of the bank/instrument loaders plus playability sweeps observed through the register tap',
    level_text=('generated, mutated, truncated and byte-substituted WOPN/OPNI images are handed as exact-size heap blocks to WOPN_LoadBankFromMem, '
                'WOPN_LoadInstFromMem and opn2_openBankData in an ASan+UBSan build (return-code contract, error text, allocation size and CPU time '
                'monitored); accepted banks, accepted OPNI instruments and instruments written through opn2_setInstrument with every field at its '
                'extremes are then played through a fixed note/bend/vibrato/portamento/volume script with one audio period after every event. '
                'Holds only on the executions produced.'),
    level_note=('trusted: clang 14 ASan/UBSan, the harness image builder; not covered: images > 64 KiB, sizes larger than the real block '
                '(incl. negative long sizes: caller misuse), emulators other than MAME/GENS, more than 2 chips; key-ons are counted from register 0x28 writes'),
    rule=('fuzz/sweep: one case = one image into the three loaders (+ a short play when accepted); play: one case = one accepted bank / OPNI / '
          'opn2_setInstrument instrument played through the full script. distinct = distinct (input class, three loader outcomes, error text) tuples '
          'plus distinct (instrument field at an extreme, channel kind + key [+ velocity], controller state) tuples that produced a key-on write (register 0x28)'),
    floor=300,
    assumptions=['ASan+UBSan(bounds,null,div0) report = memory error; a single call needing > 1 s CPU (case budget 20 s) stands in for "bounded time"',
                 'a single allocation request > 256 MiB, or > 64 MiB live-heap growth, inside one loader call for an input <= 64 KiB counts as disproportionate memory',
                 '*error may stay untouched or be set to WOPN_ERR_OK when a bank is accepted; 0 or -1 for an empty block; version reported by an accepted file; noteOn return value (all three-valued)'],
    stages=[
        dict(name='fuzz', variant='asan', harness='c02_banks.cpp', quick=24000, thorough=240000),
        dict(name='sweep', variant='asan', harness='c02_banks.cpp', quick=8000, thorough=8000, opts=dict(step=37)),        # space = 7934 cases
        dict(name='sweep-dense', variant='asan', harness='c02_banks.cpp', quick=0, thorough=27600, opts=dict(step=7)),  # space = 27564 cases
        dict(name='play', variant='asan', harness='c02_banks.cpp', quick=3000, thorough=30000),
        dict(name='fuzz-nd', variant='asan-nd', harness='c02_banks.cpp', quick=0, thorough=40000),
        dict(name='play-nd', variant='asan-nd', harness='c02_banks.cpp', quick=0, thorough=10000),
        dict(name='memcheck', variant='plain-d', harness='c02_banks.cpp', quick=800, thorough=12000, budget=150, wall=2400,
             wrapper=['valgrind', '-q', '--error-exitcode=79', '--exit-on-first-error=yes', '--track-origins=no', '--leak-check=no']),
    ],
)
