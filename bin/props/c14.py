PROPS['C14'] = dict(
    technique='differential replay monitor (bit-exact PCM + register log) with heap-fill perturbation, sequential interference, multi-thread stress; ThreadSanitizer',
    level_text=('a generated history (real-time events + audio) must give bit-identical PCM and register logs (a) when replayed on a fresh instance whose '
                'fresh heap memory is filled with another byte pattern, (b) with creation/configuration/rendering/closing of other instances of every '
                'emulator and calls touching the global error string interleaved between its calls, (c) when 2..8 threads each run their own instance '
                'and history concurrently with seeded yields between API calls; the same threaded workload runs in a ThreadSanitizer build whose '
                'reports are de-duplicated by racing global / function pair. All eight cores.'),
    level_note=('thread schedules are sampled, not enumerated: the evidence records distinct interleavings of call begin/end events and overlapping call '
                'pairs per emulator pair; TSan sees only races whose two accesses occur in a run; heap fill covers C++ allocations only'),
    rule=('distinct = distinct (stage, emulator, chips, chip type, rate, audible?) tuples, interfering-action classes, interleaving hashes of call '
          'begin/end events and overlapping (emulator, emulator) call pairs'),
    floor=60,
    assumptions=['each instance is used by one thread only (the header promises parallel instances, not a thread-safe instance)'],
    stages=[
        dict(name='replay', variant='plain', harness='c14_isolation.cpp', quick=2000, thorough=40000),
        dict(name='interfere', variant='plain', harness='c14_isolation.cpp', quick=2000, thorough=40000),
        dict(name='fresh', variant='plain', harness='c14_isolation.cpp', quick=3200, thorough=48000, budget=120),
        dict(name='threads', variant='plain', harness='c14_isolation.cpp', quick=240, thorough=5000, jobs=4, budget=120),
        dict(name='tsan', variant='tsan', harness='c14_isolation.cpp', quick=16, thorough=240, jobs=4, budget=600),
        dict(name='tsan-light', variant='tsan', harness='c14_isolation.cpp', quick=64, thorough=640, jobs=8, budget=600),
    ],
)
