# C15 check configuration (loaded by bin/vprops.py)
PROPS['C15'] = dict(
    technique='sanitizer-instrumented round-trip monitor with exact-size / canary-guarded buffers and an independent field-wise comparator',
    level_text=('generated WOPN bank and OPNI instrument values (1..64 banks a side, names of every length with and without bytes behind the '
                'terminator, boundary and random register / offset / delay values, blank flags, LFO and chip bits) are saved as versions 1 and 2 '
                'into heap blocks of exactly the calculated size (once followed by a verified canary region, once bare under ASan), loaded back '
                'and compared member by member; a second trip must be the identity; every shorter destination (all lengths for 1+1-bank files and '
                'instrument files, block boundaries +-3 plus samples otherwise) must be refused without touching the bytes at or behind the '
                'stated length; generated and mutated byte strings (own serializer of the documented layout and library images; zero bank '
                'counts, unterminated names, version codes 0/1/2, trailing bytes) that the loader accepts must satisfy load(save(load(b))) == '
                'load(b). Holds only on the executions produced.'),
    level_note=('trusted: clang 14 ASan/UBSan, the harness comparator and generators; layout taken from the field tables of docs/wopn '
                'specification.txt; not covered: force_gm saving, NULL arguments, bank counts above 64, intra-object overflows'),
    rule=('distinct = coverage items of the monitor: (version, bank-count class, calculated-vs-documented size), instrument classes generated '
          '(blank x delay-zero pattern, name length class, bytes behind the terminator) and how unrepresentable ones read back, undersized '
          'destination (file kind, version, image region of the length, guard kind, error code), byte-string class (magic, version code, counts, '
          'mutation) x load outcome, WOPN_BanksCmp operand classes; a case is non-trivial when a saved or offered image was loaded and compared'),
    floor=300,
    assumptions=['names are compared as C strings up to the capacity of the in-memory field (31 characters for instruments, 32 for banks)',
                 'values the version-2 format cannot express (sounding entry with both delays 0, blank entry with delays, reserved flag / '
                 'velocity offset / volume model) are only required to be stable after the first trip',
                 'a loaded value is re-saved with the version number it carries; for version-1 values the blank flag, which that format does '
                 'not store, is exempt from the identity and must be stable afterwards',
                 'single-instrument files store neither delays nor flags (specification); those members are not compared for OPNI values'],
    stages=[
        dict(name='values', variant='asan', harness='c15_wopn.cpp', quick=5000, thorough=50000, budget=120),
        dict(name='bytes', variant='asan', harness='c15_wopn.cpp', quick=12000, thorough=120000, budget=60),
        dict(name='inst', variant='asan', harness='c15_wopn.cpp', quick=8000, thorough=80000, budget=60),
        dict(name='memcheck', variant='plain-d', harness='c15_wopn.cpp', quick=200, thorough=4000, budget=150, wall=2400,
             wrapper=['valgrind', '-q', '--error-exitcode=79', '--exit-on-first-error=yes', '--track-origins=no', '--leak-check=no']),
    ],
)
