# C16 check configuration (loaded by bin/vprops.py)
_c16_x = dict(depth_quick=5, depth_thorough=6, batch=3)
_c16_xp = dict(depth_quick=4, depth_thorough=5, batch=3)
PROPS['C16'] = dict(
    technique='model-based runtime monitor (reference map + capacity + allocation counter) over random and depth-bounded exhaustive API histories under ASan/UBSan',
    level_text=('the bank API is run beside a reference map (percussive, MSB, LSB) -> 128 instruments; after every call of a history the monitor '
                'compares lookups of present and absent keys, the identifier of every live handle, one full iteration (each bank once, ends within '
                'size+1 steps), instrument read-back, the reported capacity (>= request, never shrinking), and for real-time creation the heap '
                'allocation counter (must stay 0) and success exactly while size < capacity. Random histories of 50..300 calls use keys biased to '
                'shared hash buckets, growth past the reserved capacity, slot reuse, instrument writes and bank-image loads; the exhaustive stages '
                'enumerate every sequence of 5 (quick) / 6 (thorough) operations over a 6-key universe and 26 letters from the empty map and, one '
                'level shallower, from three prepared states. Holds only on the histories produced.'),
    level_note=('trusted: clang 14 ASan/UBSan and its allocator hooks, the reference model; handles that are dead per the model are never used; '
                'invalid identifiers / NULL arguments belong to C03; the exhaustive stages reset the map of one instance between histories by '
                'assigning an empty BasicBankMap (equivalent to a new instance) and replay the shared prefix without re-running its state checks'),
    rule=('random: one case = fresh instance + 50..300 operations, each followed by the full state check; exhaustive: one case = the 26^3 '
          'continuations of the prefix encoded by the case index, every distinct history prefix checked in full once (monitor counter '
          'x_histories_checked); distinct = coverage items (operation kind, target present/absent, capacity exhausted, bucket shared, size class, '
          'free-slot class, result) for random histories and (operation, target state, result, size, free slots, occupancy of the three buckets) '
          'for enumerated ones'),
    floor=300,
    assumptions=['capacity is what opn2_reserveBanks returns (also for a request of 0, which the monitor issues after every call)',
                 'a new bank reads as 128 instruments with exactly the blank flag set and every other member zero',
                 'a bank image that lists one identifier twice leaves the later entry; a refused image leaves the map and all handles as they were'],
    stages=[
        dict(name='random', variant='asan', harness='c16_bankmap.cpp', quick=20000, thorough=200000, budget=30, cxxflags=['-O1']),
        dict(name='exhaustive', variant='asan', harness='c16_bankmap.cpp', quick=676, thorough=17576, budget=30, opts=_c16_x, cxxflags=['-O1']),
        dict(name='exhaustive-pre', variant='asan', harness='c16_bankmap.cpp', quick=78, thorough=2028, budget=30, opts=_c16_xp, cxxflags=['-O1']),
    ],
)
