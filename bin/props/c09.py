PROPS['C09'] = dict(
    technique='reference-model monitor over the raw-event-hook stream and loop callbacks (delivery counts per file event, jump count, state walker at jumps)',
    level_text=('generated songs with 0..2 loop markers (text markers in any case, CC111, CC110/CC111; valid and invalid placements) are played '
                'tick-driven with looping on/off, counts -1,0..4 and callbacks registered before/after loading and across reset / emulator switch / '
                'reload; every file event must be delivered once (outside the section), N times (inside), 1..N times (exactly at the loop end), '
                'the song must end (or, for -1, still loop after 6 passes), no key-down note may survive a jump back, callback counts and reported '
                'loop times must match the reference.'),
    level_note=('count 0 is read as "once"; events at exactly the loop-end tick are three-valued between 1 and N deliveries; timing inside repeated '
                'passes is not part of this property'),
    rule='distinct = distinct (marker kind, loop enabled, count, hook registration scenario) with >= 10 delivered events',
    floor=80,
    assumptions=['"loopEnd only" is read with the loop start at the beginning of the song (statement: "the beginning of the song when absent")'],
    stages=[dict(name='loops', variant='asan', harness='c09_loops.cpp', quick=24000, thorough=400000),
            dict(name='xmi', variant='asan', harness='c09_loops.cpp', quick=3000, thorough=60000),
            dict(name='memcheck', variant='plain-d', harness='c09_loops.cpp', quick=1000, thorough=20000, budget=150, wall=2400, **{'as': 'loops'},
                 wrapper=['valgrind', '-q', '--error-exitcode=79', '--exit-on-first-error=yes', '--track-origins=no', '--leak-check=no'])],
)
