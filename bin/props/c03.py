# C03 check configuration (loaded by bin/vprops.py)
PROPS['C03'] = dict(
    technique='sanitizer-instrumented random API-sequence exploration with return-contract monitor',
    level_text=('random call sequences (<= 400 calls) over the whole exported API with boundary-biased arguments, NULL devices, exactly sized '
                'heap out-buffers, every emulator id and chip counts 1..100 run in an ASan+UBSan build with asserts on; a table of calls '
                'documented to fail is checked on every return; exceptions, CPU budget and sanitizer reports are refuting events.'),
    level_note=('trusted: clang 14 ASan/UBSan; bank handles used after removeBank/bank load are caller misuse and not generated; looping stays '
                'disabled (C01/C09 cover it); audio volume per case is capped by emulator cost'),
    rule=('one case = fresh instance (rate, emulator, chips) + 20..400 API calls; distinct = distinct (function, argument class, return class, '
          'device NULL?) triples plus distinct call bigrams observed over the whole run; a case is non-trivial when >= 8 different functions ran'),
    floor=300,
    assumptions=['documented failure values are those of include/opnmidi.h; setTrackOptions(solo) of an absent track is three-valued'],
    stages=[
        dict(name='seq', variant='asan', harness='c03_api.cpp', quick=4000, thorough=40000, budget=60),
        dict(name='seq-nd', variant='asan-nd', harness='c03_api.cpp', quick=0, thorough=15000, budget=60),
        # uninitialised-value use: valgrind memcheck over short deterministic sequences in the uninstrumented build
        dict(name='memcheck', variant='plain-d', harness='c03_api.cpp', quick=64, thorough=960, budget=150, wall=2400,
             wrapper=['valgrind', '-q', '--error-exitcode=79', '--exit-on-first-error=yes', '--track-origins=no', '--leak-check=no']),
    ],
)
