# C11 check configuration (loaded by bin/vprops.py)
PROPS['C11'] = dict(
    technique='register-write tap (hook H1) + total-level decoder with a purely relational oracle (range, monotone, zero, untouched)',
    level_text=('one note is held while velocity (new note-ons), CC7, CC11, CC74 and the SysEx master volume are swept; every write to registers '
                '0x40..0x4F is decoded (slot order S1,S3,S2,S4; carrier set per algorithm taken from the YM2612 manual) and checked: every TL in '
                '0..127; carrier TL never rises when one control rises with the others fixed; volume, expression or master 0 gives carrier TL 127; '
                'modulators keep the instrument\'s own TL when scaling is off and CC74 is 127; a falling CC74 never lowers a modulator TL. '
                'Thorough visits the complete velocity x CC7 x CC11 cube for each of the 5 models x master {0,1,64,127}. ASan+UBSan build.'),
    level_note=('trusted: clang 14 ASan/UBSan, the tap, the harness decoder; the cube is run with modulator scaling off and CC74 = 127 (each (model, 4 velocities) block four times, '
                'each time with another algorithm and random instrument); scaling / brightness / full-range flag / all 8 algorithms are covered by axis-parallel '
                'lines through sampled points (stage config), not by a full product; instrument TL bytes are 7-bit'),
    rule=('cube: one case = (volume model, algorithm, 4 adjacent velocities + the neighbour below) x master {0,1,64,127} x CC7 x CC11 (quick: every 4th value '
          'plus {0,1,2,63,64,65,126,127} per axis; thorough: all values); config: one case = (algorithm, scaling, full-range flag, model, melodic|percussion '
          'channel) with 8 (thorough 40) sampled points and a full line along CC74, CC7, CC11, master and velocity through each; distinct = distinct '
          '(model, master, algorithm, scaling, brightness class[, flag, channel kind]) tuples judged plus (model, master, velocity) slabs completed'),
    floor=800,
    exhaustive_in=['thorough'],
    assumptions=['carrier operators per algorithm as in the YM2612 manual: alg 0-3: op 4; alg 4: ops 2,4; alg 5,6: ops 2,3,4; alg 7: all; register slots are op 1,3,2,4',
                 'range clause applies to every TL write of a call; monotone / zero / untouched clauses to the four TL in force when the call returns '
                 '(a note-on first copies the patch, then scales it, then keys on)',
                 'velocity 0 is a note-off and excluded; soft pedal off, instrument velocity offset 0',
                 'carriers may or may not react to CC74, the percussion channel may or may not honour CC74 (statement silent): accepted, recorded in monitor_counters',
                 'with modulator scaling on or CC74 < 127 nothing but range and brightness-monotonicity is required of modulators'],
    stages=[
        dict(name='cube', variant='asan', harness='c11_volume.cpp', quick=640, thorough=640, budget=300, opts=dict(reps=4)),
        dict(name='arp', variant='asan', harness='c11_volume.cpp', quick=3000, thorough=40000, budget=60),
        dict(name='multidev', variant='asan', harness='c11_volume.cpp', quick=4000, thorough=60000, budget=60),
        dict(name='config', variant='asan', harness='c11_volume.cpp', quick=1280, thorough=1280, budget=300, opts=dict(reps=4)),
    ],
)
