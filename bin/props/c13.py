# C13 check configuration (loaded by bin/vprops.py)
PROPS['C13'] = dict(
    technique=('runtime monitor in an ASan build: canary-filled / exact-size caller buffers around every audio call, '
               'F64 twin instances with the same call history as reference signal, return-value contract'),
    level_text=('three identically configured instances (same emulator, rate, chips, bank, event sequence / SMF) are driven in lock-step: two '
                'render F64 (x/32767 is inverted to the int32 mix value x and checked to be integral; their bit-equality is the determinism '
                'precondition), the third uses a different (sample type, container, sample offset, interleaved/planar, buffer kind) on every call. '
                'After each call the monitor checks (1) the return value (generate*: request rounded down to even, 0 for negative; play*: <= that, '
                'even, 0 only when opn2_atEnd; unsupported pairs: 0), (2) every byte of the heap blocks [64 canary][region][64 canary] (or '
                'exact-size malloc blocks under ASan red zones) outside the returned/2 container slots at left/right + i*sampleOffset is '
                'unchanged (lead/trail canaries, inter-sample gaps, slots beyond the reported count), (3) every owned slot holds the documented '
                'conversion of x as a containerSize-byte native-endian integer (S16 saturated, U16 = S16+32768, S8 = S16/256 truncating, U8 = S8+128, '
                'S24 = S16*256, U24 = S24+2^23, S32 = S16*65536, U32 = S32+2^31; F32/F64 = x/32767 within 4 ulp of float / 2^-50 relative).'),
    level_note=('exploration over generated workloads, not exhaustive; trusted: clang 14 ASan, the harness generators, and per-instance determinism '
                'of the library (C14) - asserted per call on the two F64 twins (disagreement = inconclusive, counted as twin_disagree). Fresh heap '
                'allocations are filled with a constant (__asan_default_options malloc_fill_byte=0) because some emulator state is read before it '
                'is written and recycled memory would otherwise differ per instance. Slots the caller made overlap (interleaved layout with '
                'sampleOffset < 2*containerSize) are only checked for "nothing outside the union of slots changed", their content is not '
                'defined by the statement (counted as slots_aliased_by_caller_layout). Emulator 7 (VGM file dumper) is not a sound core and is skipped; '
                'Nuked (1, 8) only with requests <= 1026 samples.'),
    rule=('one case = (emulator in {0,2,3,4,5,6, rarely 1,8}, 1..4 chips, rate, run-at-PCM-rate, loud/quiet material, real-time events + generate* | '
          'generated SMF + play* to the end and 2 more calls | play* without music) x 4..48 audio calls, each with its own format drawn from all '
          '10 sample types (+ values outside the enum) x containers {1,2,4,8} (+ 0,3,5,16) x offsets {c, 2c, c+4, 2c+4, 16} x interleaved/planar '
          'x canary/exact block x request size in {-4,-1,0,1,2,3,4,5,100,1023,1024,1025,1026,2047,4096,70000}; distinct = distinct tuples '
          '(type, container, offset class, layout, size, emulator, loud/quiet, api, block kind) plus the projections (format x size) and '
          '(size, emulator, chips, material, api, rate) and play-return classes; a case is non-trivial when the twins agreed and >= 1 slot was compared'),
    floor=10000,
    assumptions=['supported (type, container) pairs: S8/U8: 1,2,4; S16/U16: 2,4; S24/U24/S32/U32: 4; F32: 4; F64: 8 (SendStereoAudio dispatch / header); everything else must return 0 and write nothing',
                 'play* without loaded music is three-valued: a 0 return is accepted with either opn2_atEnd value, the first observation is adopted and must stay consistent',
                 'an unsupported pair in a play*/generate* call is issued on the twins as well (identical history; the library advances one period before refusing)',
                 'determinism of identically driven instances in one process (C14) with constant-filled fresh heap memory'],
    stages=[
        dict(name='formats', variant='asan', harness='c13_audio.cpp', quick=9000, thorough=100000, budget=30, opts=dict(units=200000)),
        dict(name='memcheck', variant='plain-d', harness='c13_audio.cpp', quick=64, thorough=2000, budget=150, wall=2400, opts=dict(units=200000),
             wrapper=['valgrind', '-q', '--error-exitcode=79', '--exit-on-first-error=yes', '--track-origins=no', '--leak-check=no']),
    ],
)
