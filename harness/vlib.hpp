// Library-facing helpers shared by the harnesses: private-header access (hook H2), register tap
// decoder (hook H1), generated default bank, instance wrapper.
#ifndef VLIB_HPP
#define VLIB_HPP

#include "vcommon.hpp"

#include "opnmidi_midiplay.hpp"
#include "opnmidi_opn2.hpp"
#include "opnmidi_private.hpp"
#include "midi_sequencer.hpp"
#include "chips/opn_chip_base.h"
extern "C" {
#include "wopn/wopn_file.h"
}

#ifndef OPNMIDI_VERIF
#error "harnesses must be compiled with -DOPNMIDI_VERIF (hooks on)"
#endif

static inline OPNMIDIplay *P(OPN2_MIDIPlayer *d) { return reinterpret_cast<OPNMIDIplay *>(d->opn2_midiPlayer); }

// ------------------------------------------------------------------------------------------
// H2: friend access to private state.
// ------------------------------------------------------------------------------------------
struct OPNMIDI_VerifAccess
{
    static std::vector<OPNMIDIplay::OpnChannel> &chipChannels(OPNMIDIplay *p) { return p->m_chipChannels; }
    static std::vector<OpnTimbre> &insCache(OPN2 *s) { return s->m_insCache; }
    static std::vector<uint8_t> &regLFOSens(OPN2 *s) { return s->m_regLFOSens; }
    static BW_MidiSequencer *seq(OPNMIDIplay *p) { return p->m_sequencer.get(); }
    static size_t arpeggioCounter(OPNMIDIplay *p) { return p->m_arpeggioCounter; }
    static bool seqLoopEnabled(OPNMIDIplay *p) { return p->m_sequencer->m_loopEnabled; }
    static bool seqLoopHooksOnly(OPNMIDIplay *p) { return p->m_sequencer->m_loopHooksOnly; }
    static int seqLoopCount(OPNMIDIplay *p) { return p->m_sequencer->m_loopCount; }
    static bool seqInvalidLoop(OPNMIDIplay *p) { return p->m_sequencer->m_loop.invalidLoop; }
    static size_t seqTrackCount(OPNMIDIplay *p) { return p->m_sequencer->m_trackData.size(); }
};
typedef OPNMIDI_VerifAccess VA;

// ------------------------------------------------------------------------------------------
// H1: register-write tap and shadow of the chip state.
// ------------------------------------------------------------------------------------------
struct RegWrite { uint32_t seq; uint16_t chip; uint8_t port; uint8_t reg; uint8_t val; };

struct ChanShadow
{
    bool keyon;          // last 0x28 write had any operator bit set
    uint8_t keybits;
    uint8_t a4, a0;      // block / F-number latches as written
    bool a4_seen, a0_seen;
    uint8_t tl[4];       // 0x40 + 4*op
    uint8_t dtmul[4];    // 0x30 + 4*op
    uint8_t regs7[7][4]; // 0x30..0x90 rows
    uint8_t fbalg, b4;
    uint8_t softpan;
    uint32_t n_keyon, n_keyoff, n_freq;
    ChanShadow() { memset(this, 0, sizeof(*this)); }
    unsigned block() const { return (a4 >> 3) & 7; }
    unsigned fnum() const { return ((unsigned)(a4 & 7) << 8) | a0; }
};

struct Tap
{
    std::vector<ChanShadow> ch;     // index = chip*6 + channel
    std::vector<RegWrite> log;      // optional log
    bool keep_log;
    uint32_t seq;
    uint64_t writes;
    uint8_t lfo_reg[128];
    Tap(): keep_log(false), seq(0), writes(0) { memset(lfo_reg, 0, sizeof(lfo_reg)); }
    static int chan_of(unsigned port, unsigned lowbits) { return (lowbits & 3) == 3 ? -1 : (int)((port ? 3 : 0) + (lowbits & 3)); }
    void ensure(size_t chip) { if(ch.size() < (chip + 1) * 6) ch.resize((chip + 1) * 6); }
    void on(size_t chip, unsigned port, unsigned reg, unsigned val)
    {
        writes++;
        seq++;
        if(keep_log) { RegWrite w; w.seq = seq; w.chip = (uint16_t)chip; w.port = (uint8_t)port; w.reg = (uint8_t)reg; w.val = (uint8_t)val; log.push_back(w); }
        if(chip > 4096) return;
        ensure(chip);
        if(port == 0xFF) { if(reg < 6) ch[chip * 6 + reg].softpan = (uint8_t)val; return; }
        if(reg == 0x28 && port == 0)
        {
            static const int map[8] = {0, 1, 2, -1, 3, 4, 5, -1};
            int c = map[val & 7];
            if(c < 0) return;
            ChanShadow &s = ch[chip * 6 + c];
            bool on = (val & 0xF0) != 0;
            if(on) s.n_keyon++; else s.n_keyoff++;
            s.keyon = on; s.keybits = (uint8_t)(val >> 4);
            return;
        }
        if(reg == 0x22 && port == 0) { if(chip < 128) lfo_reg[chip] = (uint8_t)val; return; }
        if(reg >= 0x30 && reg < 0xA0)
        {
            int c = chan_of(port, reg);
            if(c < 0) return;
            unsigned row = (reg - 0x30) >> 4, op = (reg >> 2) & 3;
            ChanShadow &s = ch[chip * 6 + c];
            s.regs7[row][op] = (uint8_t)val;
            if(row == 0) s.dtmul[op] = (uint8_t)val;
            if(row == 1) s.tl[op] = (uint8_t)val;
            return;
        }
        if(reg >= 0xA0 && reg < 0xA3) { int c = chan_of(port, reg); ChanShadow &s = ch[chip * 6 + c]; s.a0 = (uint8_t)val; s.a0_seen = true; s.n_freq++; return; }
        if(reg >= 0xA4 && reg < 0xA7) { int c = chan_of(port, reg); ChanShadow &s = ch[chip * 6 + c]; s.a4 = (uint8_t)val; s.a4_seen = true; return; }
        if(reg >= 0xB0 && reg < 0xB3) { int c = chan_of(port, reg); ch[chip * 6 + c].fbalg = (uint8_t)val; return; }
        if(reg >= 0xB4 && reg < 0xB7) { int c = chan_of(port, reg); ch[chip * 6 + c].b4 = (uint8_t)val; return; }
    }
    static void cb(void *ud, size_t chip, unsigned port, unsigned reg, unsigned val) { ((Tap *)ud)->on(chip, port, reg, val); }
    void attach(OPN2_MIDIPlayer *d) { P(d)->m_synth->m_verifTap = &Tap::cb; P(d)->m_synth->m_verifTapData = this; }
    static void detach(OPN2_MIDIPlayer *d) { P(d)->m_synth->m_verifTap = NULL; P(d)->m_synth->m_verifTapData = NULL; }
};

// ------------------------------------------------------------------------------------------
// Generated default bank (1 melodic + 1 percussion bank, every instrument distinct and audible).
// ------------------------------------------------------------------------------------------
static inline void make_instrument(WOPNInstrument &in, unsigned id, bool perc)
{
    memset(&in, 0, sizeof(in));
    snprintf(in.inst_name, sizeof(in.inst_name), "%s%u", perc ? "P" : "M", id);
    in.note_offset = 0;
    in.percussion_key_number = perc ? (uint8_t)(35 + (id % 47)) : 0;
    in.inst_flags = 0;
    in.fbalg = (uint8_t)((id * 5) & 0x3F);
    in.lfosens = 0;
    for(int op = 0; op < 4; op++)
    {
        in.operators[op].dtfm_30 = (uint8_t)(0x01 + ((id + op) & 3));
        in.operators[op].level_40 = (uint8_t)((id * 3 + op * 7) & 0x3F);
        in.operators[op].rsatk_50 = 0x1F;
        in.operators[op].amdecay1_60 = (uint8_t)(id & 0x1F);
        in.operators[op].decay2_70 = (uint8_t)((id >> 1) & 0x1F);
        in.operators[op].susrel_80 = (uint8_t)(0x0F | ((op * 16) & 0xF0));
        in.operators[op].ssgeg_90 = 0;
    }
    in.delay_on_ms = (uint16_t)(200 + id * 7);
    in.delay_off_ms = (uint16_t)(50 + id);
}

static inline std::vector<uint8_t> make_default_bank_image()
{
    WOPNFile *f = WOPN_Init(1, 1);
    f->version = 2;
    f->lfo_freq = 0;
    f->chip_type = 0;
    for(unsigned i = 0; i < 128; i++)
    {
        make_instrument(f->banks_melodic[0].ins[i], i, false);
        make_instrument(f->banks_percussive[0].ins[i], i, true);
    }
    size_t sz = WOPN_CalculateBankFileSize(f, 2);
    std::vector<uint8_t> img(sz);
    WOPN_SaveBankToMem(f, img.data(), sz, 2, 0);
    WOPN_Free(f);
    return img;
}
static inline const std::vector<uint8_t> &default_bank()
{
    static std::vector<uint8_t> img = make_default_bank_image();
    return img;
}

// Exact-size heap copy of a byte string, so that a one-byte over-read is an ASan report.
struct ExactBuf
{
    uint8_t *p; size_t n;
    explicit ExactBuf(const std::vector<uint8_t> &v): p((uint8_t *)malloc(v.size() ? v.size() : 1)), n(v.size()) { if(n) memcpy(p, v.data(), n); }
    ExactBuf(const uint8_t *d, size_t len): p((uint8_t *)malloc(len ? len : 1)), n(len) { if(n) memcpy(p, d, n); }
    ~ExactBuf() { free(p); }
private:
    ExactBuf(const ExactBuf &); ExactBuf &operator=(const ExactBuf &);
};

static inline void put_be(std::vector<uint8_t> &v, uint64_t x, int n) { for(int i = n - 1; i >= 0; i--) v.push_back((uint8_t)(x >> (8 * i))); }
static inline void put_le(std::vector<uint8_t> &v, uint64_t x, int n) { for(int i = 0; i < n; i++) v.push_back((uint8_t)(x >> (8 * i))); }
static inline void put_vlq(std::vector<uint8_t> &v, uint64_t x)
{
    uint8_t tmp[10]; int n = 0;
    tmp[n++] = (uint8_t)(x & 0x7F);
    while((x >>= 7) > 0) tmp[n++] = (uint8_t)(0x80 | (x & 0x7F));
    while(n > 0) v.push_back(tmp[--n]);
}
static inline void put_str(std::vector<uint8_t> &v, const char *s) { while(*s) v.push_back((uint8_t)*s++); }
static inline void put_bytes(std::vector<uint8_t> &v, const std::vector<uint8_t> &b) { v.insert(v.end(), b.begin(), b.end()); }

#endif
