// C17 — container/converter front-ends preserve the music (RMI, GMF, MUS, XMI).
// rmi/gmf: differential against the bare SMF on a twin instance; mus/xmi: generated scores with an independent
// interpretation of the format (vconv.hpp) vs the delivered event stream and its time base.
#include "vseq.hpp"

static const char *harness_name() { return "c17_conv"; }
static void harness_init() { default_bank(); }

static bool g_decoy_next = false;      // set by a stage: the next open_and_load first loads another generated file on the same device
static OPN2_MIDIPlayer *open_and_load(Case &c, Capture &cap, const std::vector<uint8_t> &file, int &rc, int presel_song = 0)
{
    OPN2_MIDIPlayer *d = NULL;
    API("opn2_init", d = opn2_init(22050));
    if(!d) { c.violation("oracle:init-failed", "opn2_init returned NULL"); rc = -9; return NULL; }
    API("opn2_setNumChips", rc = opn2_setNumChips(d, 1));
    API("opn2_switchEmulator", rc = opn2_switchEmulator(d, OPNMIDI_EMU_GENS));
    { ExactBuf b(default_bank()); API("opn2_openBankData", rc = opn2_openBankData(d, b.p, (long)b.n)); }
    cap.attach(d);
    if(presel_song) API("opn2_selectSongNum", opn2_selectSongNum(d, presel_song));
    bool decoy_used = false;
    if(g_decoy_next)
    {   // the device has already loaded (and briefly played) another file: nothing of it may show in what follows
        g_decoy_next = false;
        Rng rd(c.rng.next(), 5, 0);
        std::vector<uint8_t> other;
        switch(rd.below(3)) { case 0: other = gen_xmi(rd, 0, 8).bytes; break; case 1: other = gen_mus(rd, 12).bytes; break; default: { SongOpts o; o.max_tracks = 3; o.max_events = 10; Song sg = gen_song(rd, o); other = serialize_song(sg); } }
        int rc0 = 0;
        { ExactBuf in(other); API("opn2_openData", rc0 = opn2_openData(d, in.p, (unsigned long)in.n)); }
        if(rc0 == 0 && rd.chance(0.5)) { double nd = 0; API("opn2_tickEvents", nd = opn2_tickEvents(d, 0.05, 1e-6)); (void)nd; }
        cap.clear();
        count("loads_after_another_file_on_the_same_device");
        decoy_used = true;
    }
    { ExactBuf in(file); API("opn2_openData", rc = opn2_openData(d, in.p, (unsigned long)in.n)); }
    // a song number that is out of range for the file loaded at that moment is adjusted at once, so a pre-selection cannot
    // survive the other file: the song is selected again once the file under test is loaded
    if(decoy_used && presel_song && rc == 0) { API("opn2_selectSongNum", opn2_selectSongNum(d, presel_song)); cap.clear(); }
    return d;
}

static void play_all(OPN2_MIDIPlayer *d, Capture &cap, double g = 1e-6)
{
    double delay = 0; long guard = 0;
    while(guard++ < 2000000)
    {
        cap.prev_acc_t = cap.acc_t; cap.acc_t += delay; cap.call++;
        double nd = 0; API("opn2_tickEvents", nd = opn2_tickEvents(d, delay, g));
        int e = 0; API("opn2_atEnd", e = opn2_atEnd(d)); if(e) break;
        delay = nd;
    }
}

static void compare_streams(Case &c, const std::vector<DEv> &a, const std::vector<DEv> &b, const char *what, const std::string &ctx)
{
    size_t n = std::min(a.size(), b.size());
    for(size_t i = 0; i < n; i++)
    {
        if(!a[i].same(b[i])) { c.violation(std::string("oracle:C17:") + what + ":event-differs", vfmt("event #%zu: bare %s vs wrapped %s; %s", i, a[i].str().c_str(), b[i].str().c_str(), ctx.c_str())); return; }
        if(fabs(a[i].acc_t - b[i].acc_t) > 1e-9 + a[i].acc_t * 1e-12) { c.violation(std::string("oracle:C17:") + what + ":time-differs", vfmt("event #%zu %s: %.9f s bare vs %.9f s wrapped; %s", i, a[i].str().c_str(), a[i].acc_t, b[i].acc_t, ctx.c_str())); return; }
    }
    if(a.size() != b.size()) c.violation(std::string("oracle:C17:") + what + ":event-count-differs", vfmt("%zu events bare, %zu wrapped; %s", a.size(), b.size(), ctx.c_str()));
    count("events_compared", (long long)n);
}

static bool is_channel_event(const DEv &e) { return e.type >= 0x8 && e.type <= 0xE; }

static void run_case(Case &c)
{
    Rng &r = c.rng;
    const std::string &st = g_w.stage;
    if(st == "rmi" || st == "gmf")
    {
        SongOpts so; so.max_tracks = st == "gmf" ? 1 : 6; so.min_tracks = 1; so.max_events = 40; so.tempo_changes = true; so.lone_eot = true; if(st == "gmf") so.force_division = 192;
        Song song = gen_song(r, so);
        if(st == "gmf") song.format = 0;
        std::vector<uint8_t> bare = serialize_song(song), wrapped;
        std::string ctx;
        if(st == "rmi")
        {
            std::vector<uint8_t> trailer;
            int tk = (int)r.below(4);
            if(tk == 1) { put_str(trailer, "LIST"); put_le(trailer, 4, 4); put_str(trailer, "INFO"); }
            else if(tk == 2) { int n = r.range(1, 40); for(int i = 0; i < n; i++) trailer.push_back(r.byte()); }
            else if(tk == 3) { put_str(trailer, "DISP"); put_le(trailer, 9, 4); for(int i = 0; i < 10; i++) trailer.push_back((uint8_t)i); }
            bool pad = r.chance(0.5);
            wrapped = wrap_rmi(bare, pad, trailer);
            ctx = vfmt("RMI smf %zu bytes (%s), pad %d, trailer kind %d; format %d tracks %zu division %d", bare.size(), (bare.size() & 1) ? "odd" : "even", pad ? 1 : 0, tk, song.format, song.tracks.size(), song.division);
        }
        else
        {
            wrapped = make_gmf(song, 0);
            ctx = vfmt("GMF track of %zu events, reference = format-0 SMF with division 192", song.tracks[0].ev.size());
        }
        Capture ca, cb; int rca = 0, rcb = 0;
        OPN2_MIDIPlayer *a = open_and_load(c, ca, bare, rca);
        g_decoy_next = r.chance(0.3);      // only the instance that gets the wrapped file has a previous file behind it
        OPN2_MIDIPlayer *b = open_and_load(c, cb, wrapped, rcb);
        if(a && b)
        {
            if(rca != 0) { c.inconclusive = true; count("inconclusive_bare_file_rejected"); }
            else if(rcb != 0) c.violation(std::string("oracle:C17:") + st + ":wrapped-file-rejected", vfmt("bare SMF loads, wrapped file rejected: %s; %s", opn2_errorInfo(b), ctx.c_str()));
            else
            {
                double la = 0, lb = 0; API("opn2_totalTimeLength", la = opn2_totalTimeLength(a)); API("opn2_totalTimeLength", lb = opn2_totalTimeLength(b));
                if(fabs(la - lb) > 1e-9) c.violation(std::string("oracle:C17:") + st + ":length-differs", vfmt("length %.9f bare vs %.9f wrapped; %s", la, lb, ctx.c_str()));
                play_all(a, ca); play_all(b, cb);
                compare_streams(c, ca.ev, cb.ev, st.c_str(), ctx);
                c.nontrivial = ca.ev.size() >= 5;
                cover(vfmt("%s|t%zu|odd%d|ev%d", st.c_str(), std::min<size_t>(song.tracks.size(), 4), (int)(bare.size() & 1), ca.ev.size() > 30 ? 2 : 1));
            }
        }
        if(a) API("opn2_close", opn2_close(a));
        if(b) API("opn2_close", opn2_close(b));
        c.sample(std::string("{\"stage\":") + jstr(st) + ",\"context\":" + jstr(ctx) + ",\"head_hex\":" + jstr(hexs(wrapped, 24)) + "}");
        return;
    }
    if(st == "mus")
    {
        MusScore m = gen_mus(r, (int)g_w.optnum("maxevents", 60));
        Capture cap; int rc = 0;
        g_decoy_next = r.chance(0.4);
        OPN2_MIDIPlayer *d = open_and_load(c, cap, m.bytes, rc);
        if(!d) return;
        std::string ctx = vfmt("MUS %zu bytes, %zu events, %llu ticks, %d channels, hex %s", m.bytes.size(), m.expect.size(), (unsigned long long)m.total_ticks, m.channels_used, hexs(m.bytes, 80).c_str());
        if(rc != 0) { c.violation("oracle:C17:mus:wellformed-score-rejected", vfmt("%s; %s", opn2_errorInfo(d), ctx.c_str())); opn2_close(d); return; }
        play_all(d, cap);
        // filter the converter's own additions: tempo at 0, CC7=100 at a channel's first use (and on the percussion channel at the start)
        std::vector<DEv> got;
        bool seen_ch[16]; memset(seen_ch, 0, sizeof(seen_ch));
        for(size_t i = 0; i < cap.ev.size(); i++)
        {
            const DEv &e = cap.ev[i];
            if(!is_channel_event(e)) continue;
            // initial volume: the first CC7=100 of a channel (same-tick sorting may put it behind a note-off of that channel)
            if(e.type == 0xB && e.data.size() == 2 && e.data[0] == 7 && e.data[1] == 100 && !seen_ch[e.channel]) { seen_ch[e.channel] = true; continue; }
            got.push_back(e);
        }
        size_t n = std::min(got.size(), m.expect.size());
        std::vector<std::pair<double, double> > tk;   // (ticks, seconds) of events with tick > 0
        // the converted file goes through the sequencer's same-tick sorting: compare tick group by tick group as multisets
        {
            size_t i = 0; bool bad = false;
            while(i < m.expect.size() && !bad)
            {
                size_t j = i; while(j < m.expect.size() && m.expect[j].tick == m.expect[i].tick) j++;
                if(j > got.size()) break;     // reported as count mismatch below
                std::vector<int> used(j - i, 0);
                for(size_t dIdx = i; dIdx < j && !bad; dIdx++)
                {
                    const DEv &e = got[dIdx]; bool found = false;
                    for(size_t k = i; k < j && !found; k++)
                    {
                        if(used[k - i]) continue;
                        const XEv &x = m.expect[k];
                        uint8_t type = (uint8_t)(x.status >> 4), ch = (uint8_t)(x.status & 15);
                        bool ok = e.channel == ch && e.type == type && !e.data.empty();
                        if(ok)
                        {
                            if(type == 0xE) ok = e.data.size() == 2 && e.data[1] == x.d1;                     // pitch wheel: MSB = value >> 1, LSB three-valued
                            else if(type == 0xC || type == 0xD) ok = e.data[0] == x.d0;
                            else ok = e.data.size() == 2 && e.data[0] == x.d0 && (x.d1_3v || e.data[1] == x.d1);
                        }
                        if(ok) { used[k - i] = 1; found = true; }
                    }
                    if(!found)
                    {
                        const XEv &x = m.expect[i];
                        c.violation("oracle:C17:mus:event-differs", vfmt("delivered %s is not among the %zu events the score has at MUS tick %llu (first: status %02x data %02x %02x); %s", e.str().c_str(), j - i, (unsigned long long)x.tick, x.status, x.d0, x.d1, ctx.c_str()));
                        bad = true;
                    }
                    else if(m.expect[i].tick > 0) tk.push_back(std::make_pair((double)m.expect[i].tick, e.acc_t));
                    else if(e.acc_t > 1e-9) { c.violation("oracle:C17:mus:time-not-proportional", vfmt("event at MUS tick 0 delivered at %.9f s; %s", e.acc_t, ctx.c_str())); bad = true; }
                }
                i = j;
            }
        }
        if(g_w.violations_in_case == 0 && got.size() != m.expect.size())
            c.violation("oracle:C17:mus:event-count-differs", vfmt("%zu channel events expected, %zu delivered (first extra/missing index %zu); %s", m.expect.size(), got.size(), n, ctx.c_str()));
        if(g_w.violations_in_case == 0 && !tk.empty())
        {
            double k = tk.back().second / tk.back().first;      // seconds per MUS tick
            double hz = 1.0 / k;
            if(hz < 140.0 * 0.975 || hz > 140.0 * 1.025) c.violation("oracle:C17:mus:tick-rate", vfmt("MUS tick rate %.3f Hz, nominal 140 Hz +- 2.5 %%; %s", hz, ctx.c_str()));
            for(size_t i = 0; i < tk.size(); i++) if(fabs(tk[i].second - k * tk[i].first) > 1e-6 * tk.back().second + 2e-6)
            { c.violation("oracle:C17:mus:time-not-proportional", vfmt("event at MUS tick %.0f delivered at %.9f s, %.9f s expected from the score's overall rate %.3f Hz; %s", tk[i].first, tk[i].second, k * tk[i].first, hz, ctx.c_str())); break; }
            count("mus_tick_rate_millihz_sum", (long long)(hz * 1000)); count("mus_scores_timed");
        }
        count("events_compared", (long long)n);
        API("opn2_close", opn2_close(d));
        c.nontrivial = n >= 5;
        cover(vfmt("mus|ch%d|ev%d|perc%d", std::min(m.channels_used, 8), m.expect.size() > 30 ? 2 : 1, (int)(m.bytes.size() & 1)));
        c.sample(std::string("{\"stage\":\"mus\",\"context\":") + jstr(ctx) + ",\"head_hex\":" + jstr(hexs(m.bytes, 32)) + "}");
        return;
    }
    // xmi
    {
        XmiFile x = gen_xmi(r, 0, (int)g_w.optnum("maxevents", 40));
        int nsongs = (int)x.songs.size();
        int presel = r.chance(0.5) ? 0 : (int)r.below((uint32_t)nsongs);
        int later = r.chance(0.4) ? (int)r.below((uint32_t)nsongs) : -1;
        Capture cap; int rc = 0;
        g_decoy_next = r.chance(0.4);
        OPN2_MIDIPlayer *d = open_and_load(c, cap, x.bytes, rc, presel);
        if(!d) return;
        std::string ctx = vfmt("XMI %zu bytes, %d songs, preselected %d, switched to %d", x.bytes.size(), nsongs, presel, later);
        if(rc != 0) { c.violation("oracle:C17:xmi:wellformed-file-rejected", vfmt("%s; %s", opn2_errorInfo(d), ctx.c_str())); opn2_close(d); return; }
        int cnt = 0; API("opn2_getSongsCount", cnt = opn2_getSongsCount(d));
        if(cnt != nsongs) c.violation("oracle:C17:xmi:song-count", vfmt("opn2_getSongsCount %d, file has %d; %s", cnt, nsongs, ctx.c_str()));
        int sel = presel;
        // the other song is selected either right away or after the first one has been played to its end
        bool played_first = false;
        if(later >= 0 && r.chance(0.5)) { play_all(d, cap); played_first = true; count("xmi_song_switches_after_the_end"); }
        if(later >= 0) { API("opn2_selectSongNum", opn2_selectSongNum(d, later)); sel = later; cap.clear(); }
        (void)played_first;
        play_all(d, cap);
        const XmiSong &s = x.songs[(size_t)sel];
        std::vector<DEv> got;
        for(size_t i = 0; i < cap.ev.size(); i++) if(is_channel_event(cap.ev[i])) got.push_back(cap.ev[i]);
        // expected events sorted by tick; within a tick the converter's list order is: insertion by time (stable) -> compare as multiset per tick
        size_t n = std::min(got.size(), s.expect.size());
        size_t i = 0; std::vector<std::pair<double, double> > tk;
        bool bad = false;
        while(i < s.expect.size() && !bad)
        {
            size_t j = i; while(j < s.expect.size() && s.expect[j].tick == s.expect[i].tick) j++;
            if(j > got.size()) { c.violation("oracle:C17:xmi:event-count-differs", vfmt("%zu channel events expected, %zu delivered; %s", s.expect.size(), got.size(), ctx.c_str())); bad = true; break; }
            std::vector<int> used(j - i, 0);
            for(size_t dIdx = i; dIdx < j && !bad; dIdx++)
            {
                const DEv &e = got[dIdx]; bool found = false;
                for(size_t k = i; k < j && !found; k++)
                {
                    const XEv &xe = s.expect[k]; if(used[k - i]) continue;
                    uint8_t type = (uint8_t)(xe.status >> 4), ch = (uint8_t)(xe.status & 15);
                    bool ok = e.channel == ch && !e.data.empty() && e.data[0] == xe.d0;
                    if(type == 9 && xe.d1 == 0) ok = ok && e.type == 8;                        // duration turned into a note-off (note-on velocity 0)
                    else if(type == 0xC || type == 0xD) ok = ok && e.type == type;
                    else ok = ok && e.type == type && e.data.size() == 2 && e.data[1] == xe.d1;
                    if(ok) { used[k - i] = 1; found = true; }
                }
                if(!found) { c.violation("oracle:C17:xmi:event-differs", vfmt("delivered %s is not among the %zu events expected at XMI tick %llu of song %d; %s", e.str().c_str(), j - i, (unsigned long long)s.expect[i].tick, sel, ctx.c_str())); bad = true; }
                else if(s.expect[i].tick > 0) tk.push_back(std::make_pair((double)s.expect[i].tick, e.acc_t));
            }
            i = j;
        }
        if(!bad && got.size() != s.expect.size()) c.violation("oracle:C17:xmi:event-count-differs", vfmt("%zu channel events expected, %zu delivered; %s", s.expect.size(), got.size(), ctx.c_str()));
        if(g_w.violations_in_case == 0 && !tk.empty())
        {
            double k = tk.back().second / tk.back().first, hz = 1.0 / k;
            if(hz < 120.0 * 0.99 || hz > 120.0 * 1.01) c.violation("oracle:C17:xmi:tick-rate", vfmt("XMI tick rate %.3f Hz (tempo %u us), nominal 120 Hz +- 1 %%; %s", hz, s.tempo_us, ctx.c_str()));
            for(size_t q = 0; q < tk.size(); q++) if(fabs(tk[q].second - k * tk[q].first) > 1e-6 * tk.back().second + 2e-6)
            { c.violation("oracle:C17:xmi:time-not-proportional", vfmt("event at XMI tick %.0f delivered at %.9f s, %.9f s expected from the overall rate %.3f Hz; %s", tk[q].first, tk[q].second, k * tk[q].first, hz, ctx.c_str())); break; }
            count("xmi_sequences_timed");
        }
        count("events_compared", (long long)n);
        API("opn2_close", opn2_close(d));
        c.nontrivial = n >= 5;
        cover(vfmt("xmi|songs%d|sel%d|later%d|tempo%u", nsongs, presel, later >= 0 ? 1 : 0, s.tempo_us));
        c.sample(std::string("{\"stage\":\"xmi\",\"context\":") + jstr(ctx) + ",\"head_hex\":" + jstr(hexs(x.bytes, 32)) + "}");
    }
}
