// C10 — programmed pitch = key (or drum key) + instrument note offset + bend*range (+ vibrato/glide), in tune.
//
// Monitor: hook H1 (register tap). A decoder written from the YM2612/YM2608 manuals follows every chip channel:
// a write to 0xA4+c latches block/F-number high bits, the following write to 0xA0+c commits the pair, a write of
// 0xF0|slot to register 0x28 keys the channel on. Every key-on closes one "group" = (block, fnum, the four DT/MUL
// bytes in force). The frequency a group denotes is the datasheet formula
//        f = fnum * clock / (144 * 2^(21 - block)),      clock = 7670454 Hz (OPN2) | 7987200 Hz (OPNA)
// and is compared with 440 * 2^((p-69)/12) for the p the harness computes from its own bookkeeping of key / drum key,
// instrument note offset, pitch-bend value and RPN 0 range. Nothing of the implementation's constants is used.
//
// Stages (selected by the stage name the supervisor passes):
//   sweep     one (family, melodic|percussion, RPN0 MSB, note offset, block of 8 keys): note-on + stride-17 bend sweep
//   fullbend  one (family, kind, key, quarter of the 16384 bend values), bend range 2
//   lsb       RPN 0 LSB: three-valued relation "between MSB and MSB+1 semitones, monotone in LSB"
//   porta     portamento: first write of the second note = source key's pitch, last = target's, monotone in between
//   vibrato   CC1 / aftertouch vibrato while audio is generated: |p_observed - p_base| <= 1 semitone
//   scope     a bend re-pitches, inside the call, every key-down note of that MIDI channel and no note of another one
#include "vlib.hpp"
#include "vsmf.hpp"

static const char *harness_name() { return "c10_pitch"; }
static void harness_init() {}

// ------------------------------------------------------------------------------------------------------------
// reference side
// ------------------------------------------------------------------------------------------------------------
static const double CLOCK_OPN2 = 7670454.0, CLOCK_OPNA = 7987200.0;
static const double NATIVE_LIMIT_HZ = 6600.0;     // "the chip's native range (below about 6.6 kHz)"
static const double FNUM_TOL = 1.5;               // one F-number step + rounding

static inline double nominal_hz(double p) { return 440.0 * pow(2.0, (p - 69.0) / 12.0); }
static inline double ideal_fnum(double p, unsigned block, double clock) { return nominal_hz(p) * 144.0 * ldexp(1.0, 21 - (int)block) / clock; }
static inline double group_hz(unsigned block, unsigned fnum, double clock) { return (double)fnum * clock / (144.0 * ldexp(1.0, 21 - (int)block)); }
// multiplier of an operator in halves (MUL 0 = x0.5)
static inline unsigned mul2(unsigned dtmul) { unsigned m = dtmul & 15; return m ? 2 * m : 1; }

struct Group
{
    int ch;               // chip*6 + channel
    unsigned a4, a0;      // committed latches
    uint8_t dtmul[4];     // DT/MUL in force at the key-on (register order 0x30, 0x34, 0x38, 0x3C)
    bool freq_in_call;    // A4/A0 pair was committed inside the API call that keyed on
    unsigned block() const { return (a4 >> 3) & 7; }
    unsigned fnum() const { return ((a4 & 7) << 8) | a0; }
};

struct ChanDec
{
    uint8_t a4_latch, a4, a0, dtmul[4];
    bool a4_latched, committed, keyon;
    bool freq_this_call;
    ChanDec() { memset(this, 0, sizeof(*this)); }
};

struct Rig
{
    OPN2_MIDIPlayer *dev;
    Tap tap;
    int family;           // 0 OPN2, 1 OPNA as reported by opn2_getChipType
    double clock;
    int chips;
    std::vector<ChanDec> dec;
    std::vector<Group> groups;          // groups closed by the last call
    std::set<int> freq_written;         // chip channels that got a committed frequency in the last call
    std::set<int> keyoff;               // chip channels keyed off in the last call
    size_t mark;
    long long n_groups;
    bool a0_before_a4;                  // A0 written for a channel without a preceding A4 latch in its life
    Rig(): dev(NULL), family(0), clock(CLOCK_OPN2), chips(1), mark(0), n_groups(0), a0_before_a4(false) {}
    ~Rig() { if(dev) { Tap::detach(dev); API("opn2_close", opn2_close(dev)); dev = NULL; } }

    bool open(Case &c, int fam, int nchips, long rate, bool pcmrate, int emu)
    {
        API("opn2_init", dev = opn2_init(rate));
        if(!dev) { c.violation("oracle:C10:init-failed", "opn2_init returned NULL"); return false; }
        tap.keep_log = true;
        tap.attach(dev);
        int rc = 0;
        if(pcmrate) API("opn2_setRunAtPcmRate", opn2_setRunAtPcmRate(dev, 1));
        API("opn2_setNumChips", rc = opn2_setNumChips(dev, nchips));
        if(rc != 0) { c.inconclusive = true; return false; }
        API("opn2_switchEmulator", rc = opn2_switchEmulator(dev, emu));
        if(rc != 0) { c.inconclusive = true; return false; }
        API("opn2_setChipType", opn2_setChipType(dev, fam));
        int got = -1;
        API("opn2_getChipType", got = opn2_getChipType(dev));
        if(got != fam) { c.inconclusive = true; return false; }
        family = fam; clock = fam ? CLOCK_OPNA : CLOCK_OPN2; chips = nchips;
        dec.assign((size_t)nchips * 6, ChanDec());
        begin();
        return true;
    }
    void begin() { tap.log.clear(); mark = 0; }
    // decode everything the last API call wrote
    void end()
    {
        groups.clear(); freq_written.clear(); keyoff.clear();
        for(size_t i = 0; i < dec.size(); i++) dec[i].freq_this_call = false;
        for(size_t i = mark; i < tap.log.size(); i++)
        {
            const RegWrite &w = tap.log[i];
            if(w.port == 0xFF) continue;    // pan helper, not a chip register
            size_t base = (size_t)w.chip * 6;
            if(base + 6 > dec.size()) continue;
            if(w.port == 0 && w.reg == 0x28)
            {
                static const int map[8] = {0, 1, 2, -1, 3, 4, 5, -1};
                int cc = map[w.val & 7];
                if(cc < 0) continue;
                ChanDec &d = dec[base + cc];
                if(w.val & 0xF0)
                {
                    d.keyon = true;
                    Group g; g.ch = (int)(base + cc); g.a4 = d.a4; g.a0 = d.a0; memcpy(g.dtmul, d.dtmul, 4); g.freq_in_call = d.freq_this_call;
                    groups.push_back(g);
                    n_groups++;
                }
                else { d.keyon = false; keyoff.insert((int)(base + cc)); }
                continue;
            }
            unsigned low = w.reg & 3;
            if(low == 3) continue;
            size_t ci = base + (w.port ? 3 : 0) + low;
            if(w.port > 1) continue;
            ChanDec &d = dec[ci];
            if(w.reg >= 0x30 && w.reg < 0x40) d.dtmul[(w.reg >> 2) & 3] = w.val;
            else if(w.reg >= 0xA4 && w.reg < 0xA8) { d.a4_latch = w.val; d.a4_latched = true; }
            else if(w.reg >= 0xA0 && w.reg < 0xA4)
            {
                if(!d.a4_latched) a0_before_a4 = true;
                d.a4 = d.a4_latch; d.a0 = w.val; d.committed = true; d.freq_this_call = true;
                freq_written.insert((int)ci);
            }
        }
        tap.log.clear(); mark = 0;
    }
};

static void fill_ins(OPN2_Instrument &in, int note_offset, unsigned drum_key, const uint8_t dtmul[4], unsigned salt)
{
    memset(&in, 0, sizeof(in));
    in.version = 0;
    in.note_offset = (OPN2_SInt16)note_offset;
    in.midi_velocity_offset = 0;
    in.percussion_key_number = (OPN2_UInt8)drum_key;
    in.inst_flags = 0;
    in.fbalg = (uint8_t)(((salt & 7) << 3) | ((salt >> 3) & 7));
    in.lfosens = 0;
    for(int op = 0; op < 4; op++)
    {
        in.operators[op].dtfm_30 = dtmul[op];
        in.operators[op].level_40 = (uint8_t)((salt * 7 + op * 11) & 0x3F);
        in.operators[op].rsatk_50 = 0x1F;
        in.operators[op].amdecay1_60 = 0x05;
        in.operators[op].decay2_70 = 0x02;
        in.operators[op].susrel_80 = 0x2F;
        in.operators[op].ssgeg_90 = 0;
    }
    in.delay_on_ms = 2000;
    in.delay_off_ms = 100;
}

static bool put_ins(Case &c, Rig &r, bool perc, unsigned idx, const OPN2_Instrument &in, int msb = 0, int lsb = 0)
{
    OPN2_BankId id; id.percussive = perc ? 1 : 0; id.msb = (OPN2_UInt8)msb; id.lsb = (OPN2_UInt8)lsb;
    OPN2_Bank bk; memset(&bk, 0, sizeof(bk));
    int rc = -1;
    API("opn2_getBank", rc = opn2_getBank(r.dev, &id, OPNMIDI_Bank_Create, &bk));
    if(rc != 0) { c.violation("oracle:C10:bank-create-failed", "opn2_getBank(Create) failed"); return false; }
    API("opn2_setInstrument", rc = opn2_setInstrument(r.dev, &bk, idx, &in));
    if(rc != 0) { c.violation("oracle:C10:set-instrument-failed", "opn2_setInstrument failed"); return false; }
    return true;
}

static void gen_dtmul(Rng &rng, uint8_t d[4])
{
    static const int muls[] = {0, 1, 1, 1, 2, 2, 3, 4, 5, 7, 8, 12, 14, 15};
    for(int i = 0; i < 4; i++) d[i] = (uint8_t)((rng.below(8) << 4) | rng.pick(muls));
}

static void cc(Rig &r, int ch, int ctl, int val) { r.begin(); API("opn2_rt_controllerChange", opn2_rt_controllerChange(r.dev, (uint8_t)ch, (uint8_t)ctl, (uint8_t)val)); r.end(); }
static void set_range(Rig &r, int ch, int msb, int lsb)
{
    // a third of the range settings follow the selection of some non-registered parameter on the same channel (no data sent to it):
    // selecting RPN 0 afterwards makes the data entry address the bend range again; the two select messages come in either order
    const unsigned v = (unsigned)(ch * 7 + msb * 3 + (lsb + 1));
    if(v % 3 == 0) { cc(r, ch, 99, (int)(v % 5)); cc(r, ch, 98, 1 + (int)(v % 126)); count("range_settings_after_an_nrpn_selection"); }
    if(v % 2) { cc(r, ch, 101, 0); cc(r, ch, 100, 0); } else { cc(r, ch, 100, 0); cc(r, ch, 101, 0); }
    cc(r, ch, 6, msb);
    if(lsb >= 0) cc(r, ch, 38, lsb);
}

// ------------------------------------------------------------------------------------------------------------
// oracle pieces
// ------------------------------------------------------------------------------------------------------------
struct MonoPt { double p; uint64_t g[4]; bool native; unsigned block, fnum; uint8_t dtmul[4]; };

struct Judge
{
    Case &c; Rig &r;
    const char *fam, *kind;
    double worst;
    std::vector<MonoPt> pts;
    long long checked;
    Judge(Case &c_, Rig &r_, const char *kind_): c(c_), r(r_), fam(r_.family ? "OPNA" : "OPN2"), kind(kind_), worst(0), checked(0) {}

    static const char *bend_class(int bend14) { return bend14 == 8192 ? "centre" : bend14 == 0 ? "min" : bend14 == 16383 ? "max" : bend14 < 8192 ? "down" : "up"; }
    static const char *key_class(int key) { return key == 0 ? "k0" : key == 127 ? "k127" : key < 24 ? "low" : key < 96 ? "mid" : "high"; }

    // in-tune clause for one group; p = expected pitch. Returns whether the group was in the native range.
    bool tune(const Group &g, double p, const uint8_t ins_dtmul[4], const std::string &ctx, bool add_mono = true)
    {
        bool native = memcmp(g.dtmul, ins_dtmul, 4) == 0;
        double f0 = nominal_hz(p);
        unsigned block = g.block(), fnum = g.fnum();
        count("freq_groups_decoded");
        checked++;
        if(f0 < NATIVE_LIMIT_HZ)
        {
            if(!native)
                c.violation(vfmt("oracle:C10:dtmul-not-instruments-own-in-native-range:%s:%s", fam, kind),
                            vfmt("%s p=%.6f nominal=%.3fHz DT/MUL written %02x %02x %02x %02x, instrument %02x %02x %02x %02x, block=%u fnum=%u",
                                 ctx.c_str(), p, f0, g.dtmul[0], g.dtmul[1], g.dtmul[2], g.dtmul[3], ins_dtmul[0], ins_dtmul[1], ins_dtmul[2], ins_dtmul[3], block, fnum));
            double ideal = ideal_fnum(p, block, r.clock);
            double err = fabs((double)fnum - ideal);
            if(err > worst) worst = err;
            int bucket = (int)floor(err * 10.0); if(bucket > 20) bucket = 20;
            count(vfmt("fnum_err_bucket_%02d_tenths", bucket).c_str());
            if(err > FNUM_TOL)
                c.violation(vfmt("oracle:C10:out-of-tune:%s:%s", fam, kind),
                            vfmt("%s p=%.6f nominal=%.4fHz written block=%u fnum=%u (=%.4fHz) ideal fnum for that block=%.3f |diff|=%.3f > %.1f",
                                 ctx.c_str(), p, f0, block, fnum, group_hz(block, fnum, r.clock), ideal, err, FNUM_TOL));
        }
        else count("groups_above_native_limit");
        if(add_mono)
        {
            MonoPt m; m.p = p; m.native = native; m.block = block; m.fnum = fnum; memcpy(m.dtmul, g.dtmul, 4);
            for(int op = 0; op < 4; op++) m.g[op] = ((uint64_t)fnum << block) * mul2(g.dtmul[op]);
            pts.push_back(m);
        }
        return native;
    }
    // Monotonicity clause over everything collected (same instrument for all points). The frequency of operator slot s is
    // fnum * 2^block * multiplier(MUL written for s), multiplier(0) = 0.5 (kept in halves: mul2). Keys:
    //   native-range                 both points have a nominal frequency below 6.6 kHz
    //   above-native-range           the drop goes with the library's range extension: DT/MUL differ between the two points, or an
    //                                operator sits at the MUL ceiling 15 and the base F-number fell by an octave step
    //   same-mul-above-native-range  anything else above the native range (same DT/MUL setting, F-number not monotone)
    void report(const MonoPt &a, const MonoPt &b, int op, const std::string &ctx, int rep[3])
    {
        bool nat = nominal_hz(a.p) < NATIVE_LIMIT_HZ && nominal_hz(b.p) < NATIVE_LIMIT_HZ;
        bool same = memcmp(a.dtmul, b.dtmul, 4) == 0;
        bool ceiling = false;
        for(int o = 0; o < 4; o++) if((a.dtmul[o] & 15) == 15 || (b.dtmul[o] & 15) == 15) ceiling = true;
        uint64_t ba = (uint64_t)a.fnum << a.block, bb = (uint64_t)b.fnum << b.block;
        bool octave_step = bb * 4 < ba * 3;
        int cls = nat ? 0 : (!same || (ceiling && octave_step)) ? 1 : 2;
        static const char *names[3] = {"native-range", "above-native-range", "same-mul-above-native-range"};
        if(rep[cls]++ >= 2) return;
        c.violation(vfmt("oracle:C10:frequency-not-monotone:%s:%s:%s", names[cls], fam, kind),
                    vfmt("%s operator slot %d: p=%.6f -> block=%u fnum=%u DT/MUL=%02x (x%.1f) but higher p=%.6f -> block=%u fnum=%u DT/MUL=%02x (x%.1f): operator frequency %.2fHz -> %.2fHz",
                         ctx.c_str(), op, a.p, a.block, a.fnum, a.dtmul[op], mul2(a.dtmul[op]) / 2.0, b.p, b.block, b.fnum, b.dtmul[op], mul2(b.dtmul[op]) / 2.0,
                         group_hz(a.block, a.fnum, r.clock) * mul2(a.dtmul[op]) / 2.0, group_hz(b.block, b.fnum, r.clock) * mul2(b.dtmul[op]) / 2.0));
    }
    void monotone(const std::string &ctx)
    {
        std::stable_sort(pts.begin(), pts.end(), [](const MonoPt &a, const MonoPt &b) { return a.p < b.p; });
        int rep[3] = {0, 0, 0};
        // (1) neighbours in p
        for(size_t i = 1; i < pts.size(); i++)
        {
            const MonoPt &a = pts[i - 1], &b = pts[i];
            if(!(b.p > a.p)) continue;
            count("monotone_pairs_compared");
            for(int op = 0; op < 4; op++)
                if(b.g[op] < a.g[op]) { report(a, b, op, ctx, rep); break; }
        }
        // (2) within every DT/MUL setting on its own (so a drop that coincides with a MUL change cannot hide a second one)
        std::map<uint32_t, size_t> last;
        for(size_t i = 0; i < pts.size(); i++)
        {
            uint32_t key = ((uint32_t)pts[i].dtmul[0] << 24) | ((uint32_t)pts[i].dtmul[1] << 16) | ((uint32_t)pts[i].dtmul[2] << 8) | pts[i].dtmul[3];
            std::map<uint32_t, size_t>::iterator it = last.find(key);
            if(it != last.end())
            {
                const MonoPt &a = pts[it->second], &b = pts[i];
                if(b.p > a.p && it->second + 1 != i)      // adjacent pairs were judged in (1)
                {
                    count("monotone_pairs_compared");
                    if(b.g[0] < a.g[0]) report(a, b, 0, ctx + " (same DT/MUL setting, non-adjacent)", rep);
                }
                if(b.p > a.p || it->second + 1 == i) it->second = i;
            }
            else last[key] = i;
        }
        pts.clear();
    }
};

// note-on, returns the chip channel of the key-on group (or -1) and leaves the group in *out
static int note_on(Case &c, Rig &r, int ch, int key, int vel, Group *out, const char *fam, const char *kind)
{
    int rc = 0;
    r.begin();
    API("opn2_rt_noteOn", rc = opn2_rt_noteOn(r.dev, (uint8_t)ch, (uint8_t)key, (uint8_t)vel));
    r.end();
    if(rc != 1 || r.groups.empty()) { count("noteon_without_keyon"); return -1; }
    if(r.groups.size() != 1)
    {
        c.violation(vfmt("oracle:C10:noteon-keyed-several-channels:%s:%s", fam, kind), vfmt("note-on ch=%d key=%d keyed on %zu chip channels", ch, key, r.groups.size()));
        return -1;
    }
    if(!r.groups[0].freq_in_call)
        c.violation(vfmt("oracle:C10:keyon-without-frequency-write:%s:%s", fam, kind), vfmt("note-on ch=%d key=%d keyed chip channel %d on without writing A4/A0 in the call", ch, key, r.groups[0].ch));
    *out = r.groups[0];
    return r.groups[0].ch;
}

// bend call + scope clause for the single-note sweeps: exactly chip channel `cch` is re-pitched
static bool bend_one(Case &c, Rig &r, int ch, int bend14, int cch, bool ml, Group *out, const char *fam, const char *kind)
{
    r.begin();
    if(ml) API("opn2_rt_pitchBendML", opn2_rt_pitchBendML(r.dev, (uint8_t)ch, (uint8_t)(bend14 >> 7), (uint8_t)(bend14 & 127)));
    else API("opn2_rt_pitchBend", opn2_rt_pitchBend(r.dev, (uint8_t)ch, (uint16_t)bend14));
    r.end();
    count("bend_calls");
    if(!r.freq_written.count(cch))
    {
        c.violation("oracle:C10:bend-did-not-repitch-key-down-note:plain",
                    vfmt("[%s %s] pitch bend %d on MIDI channel %d returned without a frequency write to chip channel %d of its key-down note", fam, kind, bend14, ch, cch));
        return false;
    }
    if(r.freq_written.size() != 1)
        c.violation(vfmt("oracle:C10:bend-wrote-frequency-elsewhere:%s:%s", fam, kind),
                    vfmt("pitch bend %d on MIDI channel %d wrote frequencies to %zu chip channels, only %d sounds", bend14, ch, r.freq_written.size(), cch));
    // the re-pitch is only in force if the channel is (still) keyed on after the call
    const ChanDec &d = r.dec[(size_t)cch];
    Group g; g.ch = cch; g.a4 = d.a4; g.a0 = d.a0; memcpy(g.dtmul, d.dtmul, 4); g.freq_in_call = true;
    if(!d.keyon)
        c.violation(vfmt("oracle:C10:bend-left-note-keyed-off:%s:%s", fam, kind), vfmt("after pitch bend %d chip channel %d is keyed off", bend14, cch));
    *out = g;
    return true;
}

static void release_note(Rig &r, int ch, int key, bool perc, int cch, long rate)
{
    r.begin(); API("opn2_rt_noteOff", opn2_rt_noteOff(r.dev, (uint8_t)ch, (uint8_t)key)); r.end();
    bool off = cch < 0 || !r.dec[(size_t)cch].keyon;
    if(!off && perc)
    {   // drum notes live at least ~30 ms of generated audio: let that time pass
        std::vector<short> buf((size_t)(rate / 10) * 2 + 4);
        r.begin(); API("opn2_generate", opn2_generate(r.dev, (int)((rate / 20) * 2), buf.data())); r.end();
        off = !r.dec[(size_t)cch].keyon;
    }
    if(!off) { r.begin(); API("opn2_rt_controllerChange", opn2_rt_controllerChange(r.dev, (uint8_t)ch, 123, 0)); r.end(); count("release_needed_cc123"); }
}

// ------------------------------------------------------------------------------------------------------------
// stage: sweep / fullbend
// ------------------------------------------------------------------------------------------------------------
static const int OFFSETS[] = {0, -24, 12, -1, 100, 1, -12, 24, -100, 5, -7};
static const int RANGES[] = {2, 12, 0, 24, 1};
enum { N_OFF = 11, N_RANGE = 5, N_KEYBLK = 16, N_SWEEP = 2 * 2 * N_RANGE * N_OFF * N_KEYBLK };

static void sweep_keys(Case &c, int fam, bool perc, int range_msb, int note_off, const std::vector<int> &keys, int bend_lo, int bend_hi, int stride, bool full)
{
    Rng &rng = c.rng;
    Rig r;
    static const int emu_opn2[] = {0, 2}, emu_opna[] = {5, 4};
    int emu = fam ? rng.pick(emu_opna) : rng.pick(emu_opn2);
    if(!r.open(c, fam, 1, 44100, false, emu)) return;
    const char *kind = perc ? "percussion" : "melodic";
    Judge J(c, r, kind);
    int ch = perc ? 9 : (int)rng.below(9);
    uint8_t dtmul[4]; gen_dtmul(rng, dtmul);
    int program = perc ? 0 : (int)rng.below(128);
    // melodic instruments may carry a fixed key too (sound effects): a quarter of the melodic sweeps, in bank 0 or in a bank selected with
    // CC0 / CC32
    int fixed_key = 0, bmsb = 0, blsb = 0;
    if(!perc)
    {
        if(rng.chance(0.25)) fixed_key = (int)rng.pick((const int[]){1, 35, 60, 84, 100, 127});
        if(rng.chance(0.5)) { bmsb = (int)rng.pick((const int[]){0, 1, 5, 64}); blsb = (int)rng.pick((const int[]){0, 3}); }
        OPN2_Instrument in; fill_ins(in, note_off, (unsigned)fixed_key, dtmul, (unsigned)rng.below(64));
        if(!put_ins(c, r, false, (unsigned)program, in, bmsb, blsb)) return;
        if(bmsb || blsb) { cc(r, ch, 0, bmsb); cc(r, ch, 32, blsb); }
        r.begin(); API("opn2_rt_patchChange", opn2_rt_patchChange(r.dev, (uint8_t)ch, (uint8_t)program)); r.end();
        if(fixed_key) count(bmsb || blsb ? "melodic_fixed_key_sweeps_in_a_selected_bank" : "melodic_fixed_key_sweeps_in_bank_0");
    }
    set_range(r, ch, range_msb, -1);
    int phase = (int)rng.below((uint32_t)stride);
    bool ml = rng.chance(0.3);
    int vel = rng.range(1, 127);
    std::string sig = vfmt("%s|%s|r%d|o%d", J.fam, kind, range_msb, note_off);
    std::vector<int> bendv;
    if(full) { for(int b = bend_lo; b <= bend_hi; b++) bendv.push_back(b); }
    else
    {   // the stride grid (phase drawn per case) plus both ends and the centre
        for(int b = phase; b <= 16383; b += stride) bendv.push_back(b);
        bendv.push_back(0); bendv.push_back(8192); bendv.push_back(16383); bendv.push_back(8191); bendv.push_back(8193);
        std::sort(bendv.begin(), bendv.end());
        bendv.erase(std::unique(bendv.begin(), bendv.end()), bendv.end());
        if(rng.chance(0.5)) std::reverse(bendv.begin(), bendv.end());
    }
    for(size_t ki = 0; ki < keys.size() && g_w.violations_in_case < 12; ki++)
    {
        int key = keys[ki];
        int drum = 0;
        if(perc)
        {   // drum key: 0 = sounds at the played key; otherwise a fixed key spread over 1..127
            static const int dks[] = {0, 1, 35, 60, 84, 127, 12, 100};
            drum = full ? dks[(ki + (size_t)phase) % 8] : dks[(size_t)(key + phase) % 8];
            OPN2_Instrument in; fill_ins(in, note_off, (unsigned)drum, dtmul, (unsigned)rng.below(64));
            if(!put_ins(c, r, true, (unsigned)key, in)) return;
        }
        if(!perc) drum = fixed_key;
        double base = (double)(drum ? drum : key) + (double)note_off;
        // bend wheel back to the centre before the note (no note sounds: nothing is written)
        r.begin(); API("opn2_rt_pitchBend", opn2_rt_pitchBend(r.dev, (uint8_t)ch, 8192)); r.end();
        Group g;
        int cch = note_on(c, r, ch, key, vel, &g, J.fam, kind);
        if(cch < 0) { c.inconclusive = true; continue; }
        std::string ctx = vfmt("[%s %s ch=%d key=%d drumkey=%d note_offset=%d range=%d emu=%d]", J.fam, kind, ch, key, drum, note_off, range_msb, emu);
        J.tune(g, base, dtmul, ctx + " note-on");
        cover(vfmt("%s|blk%u|%s|%s|%s", J.fam, g.block(), Judge::key_class(key), "noteon", kind));
        for(size_t bi = 0; bi < bendv.size(); bi++)
        {
            int bend14 = bendv[bi];
            double p = base + ((double)bend14 - 8192.0) / 8192.0 * (double)range_msb;
            Group bg;
            if(!bend_one(c, r, ch, bend14, cch, ml, &bg, J.fam, kind)) break;
            J.tune(bg, p, dtmul, ctx + vfmt(" bend=%d", bend14));
            cover(vfmt("%s|blk%u|%s|%s|%s", J.fam, bg.block(), Judge::key_class(key), Judge::bend_class(bend14), kind));
        }
        release_note(r, ch, key, perc, cch, 44100);
        if(perc || full) J.monotone(ctx);      // each drum entry is its own instrument (drum key differs)
    }
    if(!perc && !full) J.monotone(vfmt("[%s %s ch=%d note_offset=%d range=%d emu=%d dtmul=%02x,%02x,%02x,%02x]", J.fam, kind, ch, note_off, range_msb, emu, dtmul[0], dtmul[1], dtmul[2], dtmul[3]));
    if(r.a0_before_a4) c.violation(vfmt("oracle:C10:a0-written-before-a4:%s", J.fam), "an 0xA0 write committed a frequency before any 0xA4 latch write for that channel");
    c.nontrivial = J.checked > 0;
    c.sig = sig;
    c.sample(vfmt("{\"stage\":%s,\"family\":\"%s\",\"kind\":\"%s\",\"range_msb\":%d,\"note_offset\":%d,\"first_key\":%d,\"keys\":%zu,\"emulator\":%d,\"dtmul\":\"%02x %02x %02x %02x\",\"groups_checked\":%lld,\"worst_fnum_err\":%.4f}",
                   jstr(g_w.stage).c_str(), J.fam, kind, range_msb, note_off, keys.empty() ? -1 : keys[0], keys.size(), emu, dtmul[0], dtmul[1], dtmul[2], dtmul[3], J.checked, J.worst));
    if(getenv("C10_DEBUG")) fprintf(stderr, "[c10] case %ld %s worst=%.4f groups=%lld\n", c.k, sig.c_str(), J.worst, J.checked);
}

static void stage_sweep(Case &c)
{
    // enumerate (family, kind, range, offset, key block); a multiplicative permutation makes every prefix of the
    // case sequence a spread sample of the space (quick runs a prefix, thorough everything)
    if(c.k >= N_SWEEP) { c.skip = true; return; }
    long idx = (long)(((unsigned long long)c.k * 1499ull) % (unsigned long long)N_SWEEP);   // 1499 is prime, coprime to N_SWEEP
    int kb = (int)(idx % N_KEYBLK); idx /= N_KEYBLK;
    int fam = (int)(idx % 2); idx /= 2;
    int perc = (int)(idx % 2); idx /= 2;
    int ri = (int)(idx % N_RANGE); idx /= N_RANGE;
    int oi = (int)(idx % N_OFF);
    std::vector<int> keys;
    for(int i = 0; i < 8; i++) keys.push_back(kb + 16 * i);       // 8 keys spread over the whole keyboard; the 16 blocks cover 0..127
    sweep_keys(c, fam, perc != 0, RANGES[ri], OFFSETS[oi], keys, 0, 16383, (int)g_w.optnum("stride", 17), false);
}

static void stage_fullbend(Case &c)
{
    static const int fkeys[8] = {60, 0, 127, 115, 36, 69, 100, 12};
    enum { N = 8 * 2 * 2 * 4 };
    if(c.k >= N) { c.skip = true; return; }
    long idx = c.k;
    int quarter = (int)(idx % 4); idx /= 4;
    int fam = (int)(idx % 2); idx /= 2;
    int ki = (int)(idx % 8); idx /= 8;
    int perc = (int)(idx % 2);
    std::vector<int> keys(1, fkeys[ki]);
    sweep_keys(c, fam, perc != 0, 2, 0, keys, quarter * 4096, quarter * 4096 + 4095, 1, true);
}

// ------------------------------------------------------------------------------------------------------------
// stage: lsb — RPN 0 LSB (three-valued units): the range lies between MSB and MSB+1 semitones and grows with LSB
// ------------------------------------------------------------------------------------------------------------
static void stage_lsb(Case &c)
{
    enum { N = 2 * 2 * N_RANGE * 8 };
    if(c.k >= N) { c.skip = true; return; }
    Rng &rng = c.rng;
    long idx = (long)(((unsigned long long)c.k * 77ull + 5) % (unsigned long long)N);     // 77 coprime to 160
    int kb = (int)(idx % 8); idx /= 8;
    int fam = (int)(idx % 2); idx /= 2;
    int perc = (int)(idx % 2); idx /= 2;
    int msb = RANGES[idx % N_RANGE];
    Rig r;
    if(!r.open(c, fam, 1, 44100, false, fam ? 5 : 0)) return;
    const char *kind = perc ? "percussion" : "melodic";
    Judge J(c, r, kind);
    int ch = perc ? 9 : (int)rng.below(9);
    uint8_t dtmul[4]; gen_dtmul(rng, dtmul);
    static const int offs[] = {0, 0, -12, 7, 24, -24};
    int note_off = rng.pick(offs);
    int program = (int)rng.below(128);
    static const int bends[] = {0, 1000, 4096, 8000, 8191, 8193, 9000, 12288, 16383};
    for(int kk = 0; kk < 4 && g_w.violations_in_case < 12; kk++)
    {
        int key = kb * 16 + (int)rng.below(16);
        int drum = perc ? (int)rng.below(2) * rng.range(1, 110) : 0;
        OPN2_Instrument in; fill_ins(in, note_off, (unsigned)drum, dtmul, (unsigned)rng.below(64));
        if(!put_ins(c, r, perc != 0, perc ? (unsigned)key : (unsigned)program, in)) return;
        if(!perc) { r.begin(); API("opn2_rt_patchChange", opn2_rt_patchChange(r.dev, (uint8_t)ch, (uint8_t)program)); r.end(); }
        double base = (double)(drum ? drum : key) + note_off;
        set_range(r, ch, msb, 0);
        r.begin(); API("opn2_rt_pitchBend", opn2_rt_pitchBend(r.dev, (uint8_t)ch, 8192)); r.end();
        Group g;
        int cch = note_on(c, r, ch, key, 100, &g, J.fam, kind);
        if(cch < 0) { c.inconclusive = true; continue; }
        std::string ctx = vfmt("[%s %s ch=%d key=%d drumkey=%d note_offset=%d rpn0msb=%d]", J.fam, kind, ch, key, drum, note_off, msb);
        J.tune(g, base, dtmul, ctx + " note-on", false);
        for(size_t bi = 0; bi < sizeof(bends) / sizeof(bends[0]); bi++)
        {
            int bend14 = bends[bi];
            double bn = ((double)bend14 - 8192.0) / 8192.0;
            Group bg;
            if(!bend_one(c, r, ch, bend14, cch, false, &bg, J.fam, kind)) break;
            uint64_t prev = 0; bool have_prev = false; int prev_lsb = -1;
            uint64_t G_at0 = 0; bool have0 = false;
            for(int lsb = 0; lsb < 128; lsb++)
            {
                cc(r, ch, 38, lsb);       // the statement does not say a range change re-pitches sounding notes: send the bend again
                if(!bend_one(c, r, ch, bend14, cch, false, &bg, J.fam, kind)) break;
                count("freq_groups_decoded"); count("lsb_points");
                J.checked++;
                double p_a = base + bn * msb, p_b = base + bn * (msb + 1);
                double plo = std::min(p_a, p_b), phi = std::max(p_a, p_b);
                bool native = memcmp(bg.dtmul, dtmul, 4) == 0;
                unsigned block = bg.block(), fnum = bg.fnum();
                if(lsb == 0) J.tune(bg, p_a, dtmul, ctx + vfmt(" bend=%d lsb=0", bend14), false);
                if(nominal_hz(phi) < NATIVE_LIMIT_HZ && native)
                {
                    double lo = ideal_fnum(plo, block, r.clock) - FNUM_TOL, hi = ideal_fnum(phi, block, r.clock) + FNUM_TOL;
                    if((double)fnum < lo || (double)fnum > hi)
                        c.violation(vfmt("oracle:C10:rpn0-lsb-range-outside-msb..msb+1:%s:%s", J.fam, kind),
                                    vfmt("%s bend=%d lsb=%d: block=%u fnum=%u outside [%.2f, %.2f] = F-numbers of p in [%.4f, %.4f]", ctx.c_str(), bend14, lsb, block, fnum, lo, hi, plo, phi));
                }
                uint64_t G = ((uint64_t)fnum << block) * mul2(bg.dtmul[3]);
                bool in_native = nominal_hz(phi) < NATIVE_LIMIT_HZ && native;     // above it F-number alone is not the frequency (MUL is raised)
                if(!in_native) have_prev = false;
                if(have_prev && ((bn > 0 && G < prev) || (bn < 0 && G > prev)))
                    c.violation(vfmt("oracle:C10:rpn0-lsb-not-monotone:%s:%s", J.fam, kind),
                                vfmt("%s bend=%d: lsb %d -> %d moves the frequency the wrong way (%llu -> %llu in block-0 F-number units)", ctx.c_str(), bend14, prev_lsb, lsb,
                                     (unsigned long long)prev, (unsigned long long)G));
                // whatever the unit of the LSB (cents or 1/128 semitone), half of its span moves a clearly bent note by a clearly
                // measurable amount (>= 0.2 semitone at |bend| >= 0.4): an LSB that is stored but never applied leaves it where it was
                if(lsb == 0 && in_native) { G_at0 = G; have0 = true; }
                if(lsb == 64 && have0 && in_native && fabs(bn) >= 0.4 && msb < 120 && plo > 12.0)   // (below p = 0 the library clamps the tone)
                {
                    count("lsb_effect_checks");
                    if((bn > 0 && G <= G_at0) || (bn < 0 && G >= G_at0))
                        c.violation(vfmt("oracle:C10:rpn0-lsb-has-no-effect:%s:%s", J.fam, kind),
                                    vfmt("%s bend=%d: range LSB 0 -> 64 leaves the frequency at %llu (block-0 F-number units, %llu at LSB 0): the fractional part of the bend range is not applied", ctx.c_str(), bend14, (unsigned long long)G, (unsigned long long)G_at0));
                }
                prev = G; have_prev = in_native; prev_lsb = lsb;
                cover(vfmt("%s|blk%u|%s|%s|lsb%s|%s", J.fam, block, Judge::key_class(key), Judge::bend_class(bend14), lsb == 0 ? "0" : lsb == 127 ? "127" : "mid", kind));
            }
            cc(r, ch, 38, 0);
        }
        release_note(r, ch, key, perc != 0, cch, 44100);
    }
    c.nontrivial = J.checked > 0;
    c.sig = vfmt("lsb|%s|%s|msb%d", J.fam, kind, msb);
    c.sample(vfmt("{\"stage\":\"lsb\",\"family\":\"%s\",\"kind\":\"%s\",\"rpn0_msb\":%d,\"key_block\":%d,\"points\":%lld,\"worst_fnum_err_at_lsb0\":%.4f}", J.fam, kind, msb, kb, J.checked, J.worst));
}

// ------------------------------------------------------------------------------------------------------------
// stage: porta
// ------------------------------------------------------------------------------------------------------------
static void stage_porta(Case &c)
{
    Rng &rng = c.rng;
    int fam = (int)(c.k & 1);
    const long rate = 8000;
    Rig r;
    if(!r.open(c, fam, 1, rate, true, fam ? 5 : 0)) return;
    Judge J(c, r, "melodic");
    int ch = (int)rng.below(16); if(ch == 9) ch = 10;
    uint8_t dtmul[4]; gen_dtmul(rng, dtmul);
    static const int offs[] = {0, 0, 0, -12, 12, 5, -24};
    int note_off = rng.pick(offs);
    int program = (int)rng.below(128);
    OPN2_Instrument in; fill_ins(in, note_off, 0, dtmul, (unsigned)rng.below(64));
    if(!put_ins(c, r, false, (unsigned)program, in)) return;
    r.begin(); API("opn2_rt_patchChange", opn2_rt_patchChange(r.dev, (uint8_t)ch, (uint8_t)program)); r.end();
    static const int times[] = {1, 64, 128, 1000, 3000, 6000, 8192, 12000, 16383};
    int t14 = rng.pick(times);
    int maxdist = t14 > 9000 ? 12 : t14 > 4000 ? 24 : 60;
    int bend14 = rng.chance(0.5) ? 8192 : (int)rng.below(16384);
    // both end points stay inside the native range (above it the F-number alone is not the frequency; the sweeps cover that)
    int src, dst, top = 127;
    while(nominal_hz(top + note_off + 2.0 + 0.5) >= NATIVE_LIMIT_HZ) top--;
    src = rng.range(std::max(0, -note_off), std::min(top, 104));
    do { dst = src + rng.range(-maxdist, maxdist); } while(dst == src || dst < 0 || dst > top);
    bool legato = rng.chance(0.5);
    cc(r, ch, 5, t14 >> 7); cc(r, ch, 37, t14 & 127); cc(r, ch, 65, 127);
    r.begin(); API("opn2_rt_pitchBend", opn2_rt_pitchBend(r.dev, (uint8_t)ch, (uint16_t)bend14)); r.end();
    double bendp = ((double)bend14 - 8192.0) / 8192.0 * 2.0;
    std::string ctx = vfmt("[%s ch=%d src=%d dst=%d note_offset=%d bend=%d portamento-time=%d legato=%d]", J.fam, ch, src, dst, note_off, bend14, t14, (int)legato);
    Group g;
    int c1 = note_on(c, r, ch, src, 100, &g, J.fam, "melodic");
    if(c1 < 0) { c.inconclusive = true; return; }
    J.tune(g, src + note_off + bendp, dtmul, ctx + " first note", false);    // nothing to glide from: sounds at its own pitch
    if(!legato) { r.begin(); API("opn2_rt_noteOff", opn2_rt_noteOff(r.dev, (uint8_t)ch, (uint8_t)src)); r.end(); }
    int c2 = note_on(c, r, ch, dst, 100, &g, J.fam, "melodic");
    if(c2 < 0) { c.inconclusive = true; return; }
    double p_src = src + note_off + bendp, p_dst = dst + note_off + bendp;
    const bool zero_tick = rng.chance(0.5);
    // start point: the second note's first frequency write denotes the source key's pitch
    {
        double ideal = ideal_fnum(p_src, g.block(), r.clock), err = fabs((double)g.fnum() - ideal);
        count("freq_groups_decoded"); J.checked++;
        if(err > J.worst) J.worst = err;
        if(err > FNUM_TOL || memcmp(g.dtmul, dtmul, 4) != 0)
            c.violation(vfmt("oracle:C10:portamento-start-not-source-pitch:%s", J.fam),
                        vfmt("%s second note starts at block=%u fnum=%u (%.3fHz), source pitch p=%.4f is %.3fHz (ideal fnum %.3f)", ctx.c_str(), g.block(), g.fnum(), group_hz(g.block(), g.fnum(), r.clock), p_src, nominal_hz(p_src), ideal));
    }
    bool up = dst > src;
    uint64_t prev = (uint64_t)g.fnum() << g.block();
    unsigned last_block = g.block(), last_fnum = g.fnum();
    // a tick of zero seconds (a player polling, or the first audio call of a song that starts with this chord) runs the glide
    // iterators with dt = 0 while one note glides and the other does not
    if(zero_tick) { r.begin(); double nd = 0; API("opn2_tickEvents", nd = opn2_tickEvents(r.dev, 0.0, 1.0 / rate)); (void)nd; r.end(); count("porta_zero_second_ticks"); }
    std::vector<short> buf(4096);
    static const int chunks[] = {32, 80, 200, 512, 1000};
    int chunk = rng.pick(chunks);
    long frames = 0, max_frames = rate * 60, reached_at = -1, steps = 0;
    double reach_tolG = 0;
    double plo = std::min(p_src, p_dst), phi = std::max(p_src, p_dst);
    while(frames < max_frames && g_w.violations_in_case < 8)
    {
        r.begin(); API("opn2_generate", opn2_generate(r.dev, chunk * 2, buf.data())); r.end();
        frames += chunk;
        for(size_t i = 0; i < r.groups.size(); i++)
        {
            const Group &q = r.groups[i];
            if(q.ch != c2) continue;
            steps++; count("freq_groups_decoded"); count("glide_steps"); J.checked++;
            uint64_t G = (uint64_t)q.fnum() << q.block();
            if((up && G < prev) || (!up && G > prev))
                c.violation(vfmt("oracle:C10:portamento-not-monotone:%s", J.fam),
                            vfmt("%s glide %s went the wrong way: block=%u fnum=%u after block=%u fnum=%u at frame %ld", ctx.c_str(), up ? "up" : "down", q.block(), q.fnum(), last_block, last_fnum, frames));
            double lo = ideal_fnum(plo, q.block(), r.clock) - FNUM_TOL, hi = ideal_fnum(phi, q.block(), r.clock) + FNUM_TOL;
            if((double)q.fnum() < lo || (double)q.fnum() > hi)
                c.violation(vfmt("oracle:C10:portamento-outside-source..target:%s", J.fam),
                            vfmt("%s glide value block=%u fnum=%u outside [%.2f, %.2f] at frame %ld", ctx.c_str(), q.block(), q.fnum(), lo, hi, frames));
            if(memcmp(q.dtmul, dtmul, 4) != 0)
                c.violation(vfmt("oracle:C10:dtmul-not-instruments-own-in-native-range:%s:melodic", J.fam), ctx + " glide step rewrote DT/MUL");
            prev = G; last_block = q.block(); last_fnum = q.fnum();
        }
        double err = fabs((double)last_fnum - ideal_fnum(p_dst, last_block, r.clock));
        // arrival is declared in the F-number grid of the block in use; whether the pitch LEFT the target afterwards is judged in
        // frequency units (fnum << block) against the widest tolerance arrival was declared with: the library may re-write the same
        // frequency in a finer block (512 @ block 3 -> 1024 @ block 2) and go on with the last steps of the glide there
        double errG = err * (double)(1u << last_block);
        if(err <= FNUM_TOL)
        {
            if(reached_at < 0) reached_at = frames;
            reach_tolG = std::max(reach_tolG, FNUM_TOL * (double)(1u << last_block));
            if(frames - reached_at > rate / 2) break;   // stay half a second more: must not leave the target
        }
        else if(reached_at >= 0 && errG <= reach_tolG) { if(frames - reached_at > rate / 2) break; }
        else if(reached_at >= 0)
        {
            c.violation(vfmt("oracle:C10:portamento-left-target:%s", J.fam), vfmt("%s after reaching the target the pitch moved to block=%u fnum=%u", ctx.c_str(), last_block, last_fnum));
            break;
        }
    }
    if(legato && reached_at >= 0 && g_w.violations_in_case == 0 && c1 != c2)
    {   // both keys are still down: a pitch bend re-pitches both at once (the first note never glided, the second has arrived)
        int b2 = (bend14 + 2731) % 16384; double bp2 = ((double)b2 - 8192.0) / 8192.0 * 2.0;
        if(nominal_hz(std::max(src, dst) + note_off + bp2 + 0.5) < NATIVE_LIMIT_HZ)
        {
            r.begin(); API("opn2_rt_pitchBend", opn2_rt_pitchBend(r.dev, (uint8_t)ch, (uint16_t)b2)); r.end();
            bool got1 = false, got2 = false;
            for(size_t i = 0; i < r.groups.size(); i++)
            {
                const Group &q = r.groups[i];
                if(q.ch == c1) { got1 = true; J.tune(q, src + note_off + bp2, dtmul, ctx + vfmt(" bend=%d after the glide, first (non-gliding) note", b2), false); }
                if(q.ch == c2) { got2 = true; J.tune(q, dst + note_off + bp2, dtmul, ctx + vfmt(" bend=%d after the glide, second note", b2), false); }
            }
            if(!got1 || !got2)
                c.violation(vfmt("oracle:C10:bend-did-not-repitch-key-down-note:after-portamento%s", zero_tick ? ":zero-tick" : ""),
                            vfmt("%s bend %d after the glide: %s got no frequency write inside the call", ctx.c_str(), b2, !got1 ? "the first (non-gliding) note" : "the second note"));
            count("porta_bends_after_glide");
        }
    }
    if(reached_at < 0 && g_w.violations_in_case == 0)
    {   // bounded progress: the glide offset has to go to zero. The statement fixes no time scale, so the bound is generous: the slowest
        // portamento time together with the widest distance generated for it needs under 10 s of audio; 60 s were rendered
        count("portamento_target_not_reached_in_60s");
        c.violation(vfmt("oracle:C10:portamento-never-arrives:%s", J.fam),
                    vfmt("%s after %ld frames (60 s) the gliding note stands at block=%u fnum=%u (%.3fHz) after %ld frequency writes; the played key is p=%.4f = %.3fHz", ctx.c_str(), frames, last_block, last_fnum, group_hz(last_block, last_fnum, r.clock), steps, p_dst, nominal_hz(p_dst)));
    }
    else
    {
        double err = fabs((double)last_fnum - ideal_fnum(p_dst, last_block, r.clock));
        if(err > J.worst) J.worst = err;
        cover(vfmt("porta|%s|%s|t%s|dist%s|%s", J.fam, up ? "up" : "down", t14 < 128 ? "fast" : t14 < 6000 ? "mid" : "slow", abs(dst - src) <= 2 ? "small" : abs(dst - src) <= 12 ? "oct" : "wide", legato ? "legato" : "released"));
        c.nontrivial = true;
    }
    c.sig = vfmt("porta|%s|%d", J.fam, up);
    c.sample(vfmt("{\"stage\":\"porta\",\"family\":\"%s\",\"src\":%d,\"dst\":%d,\"note_offset\":%d,\"bend\":%d,\"portamento_time_14bit\":%d,\"chunk_frames\":%d,\"glide_writes\":%ld,\"reached_after_frames\":%ld}",
                   J.fam, src, dst, note_off, bend14, t14, chunk, steps, reached_at));
}

// ------------------------------------------------------------------------------------------------------------
// stage: vibrato
// ------------------------------------------------------------------------------------------------------------
static const double VIB_BOUND = 1.0;   // semitones; the statement gives no depth: three-valued, up to one semitone accepted
static void stage_vibrato(Case &c)
{
    Rng &rng = c.rng;
    int fam = (int)(c.k & 1);
    const long rate = 8000;
    Rig r;
    if(!r.open(c, fam, 1, rate, true, fam ? 5 : 0)) return;
    bool perc = rng.chance(0.15);
    const char *kind = perc ? "percussion" : "melodic";
    Judge J(c, r, kind);
    int ch = perc ? 9 : (int)rng.below(9);
    uint8_t dtmul[4]; gen_dtmul(rng, dtmul);
    static const int offs[] = {0, 0, -12, 12, 3};
    int note_off = rng.pick(offs);
    int key = rng.range(0, 108), program = (int)rng.below(128);
    int drum = perc && rng.chance(0.5) ? rng.range(20, 100) : 0;
    OPN2_Instrument in; fill_ins(in, note_off, (unsigned)drum, dtmul, (unsigned)rng.below(64));
    if(!put_ins(c, r, perc, perc ? (unsigned)key : (unsigned)program, in)) return;
    if(!perc) { r.begin(); API("opn2_rt_patchChange", opn2_rt_patchChange(r.dev, (uint8_t)ch, (uint8_t)program)); r.end(); }
    int source = (int)rng.below(4);        // 0,1: CC1   2: channel aftertouch   3: note aftertouch
    int depth = rng.chance(0.3) ? 127 : rng.range(1, 127);
    int bend14 = rng.chance(0.5) ? 8192 : (int)rng.below(16384);
    static const int rgs[] = {2, 2, 12, 0};
    int range_msb = rng.pick(rgs);
    set_range(r, ch, range_msb, -1);
    r.begin(); API("opn2_rt_pitchBend", opn2_rt_pitchBend(r.dev, (uint8_t)ch, (uint16_t)bend14)); r.end();
    bool before = rng.chance(0.5);
    auto set_vib = [&]() {
        r.begin();
        if(source <= 1) API("opn2_rt_controllerChange", opn2_rt_controllerChange(r.dev, (uint8_t)ch, 1, (uint8_t)depth));
        else if(source == 2) API("opn2_rt_channelAfterTouch", opn2_rt_channelAfterTouch(r.dev, (uint8_t)ch, (uint8_t)depth));
        else API("opn2_rt_noteAfterTouch", opn2_rt_noteAfterTouch(r.dev, (uint8_t)ch, (uint8_t)key, (uint8_t)depth));
        r.end();
    };
    if(before) set_vib();
    double pbase = (double)(drum ? drum : key) + note_off + ((double)bend14 - 8192.0) / 8192.0 * range_msb;
    std::string ctx = vfmt("[%s %s ch=%d key=%d drumkey=%d note_offset=%d bend=%d range=%d vibrato-source=%d depth=%d]", J.fam, kind, ch, key, drum, note_off, bend14, range_msb, source, depth);
    Group g;
    int cch = note_on(c, r, ch, key, 100, &g, J.fam, kind);
    if(cch < 0) { c.inconclusive = true; return; }
    if(!before) set_vib();
    std::vector<short> buf(4096);
    static const int chunks[] = {40, 80, 160, 512};
    int chunk = rng.pick(chunks);
    long frames = 0, steps = 0; double maxdev = 0; bool moved = false;
    unsigned b0 = g.block(), f0 = g.fnum();
    bool judged = nominal_hz(pbase + VIB_BOUND) < NATIVE_LIMIT_HZ;
    while(frames < rate && g_w.violations_in_case < 6)      // one second = several vibrato periods
    {
        r.begin(); API("opn2_generate", opn2_generate(r.dev, chunk * 2, buf.data())); r.end();
        frames += chunk;
        for(size_t i = 0; i < r.groups.size(); i++)
        {
            const Group &q = r.groups[i];
            if(q.ch != cch) continue;
            steps++; count("freq_groups_decoded"); count("vibrato_steps"); J.checked++;
            if(q.block() != b0 || q.fnum() != f0) moved = true;
            if(!judged) continue;
            double lo = ideal_fnum(pbase - VIB_BOUND, q.block(), r.clock) - FNUM_TOL, hi = ideal_fnum(pbase + VIB_BOUND, q.block(), r.clock) + FNUM_TOL;
            double hz = group_hz(q.block(), q.fnum(), r.clock);
            double dev = hz > 0 ? fabs(69.0 + 12.0 * log2(hz / 440.0) - pbase) : 0;
            if(dev > maxdev && q.fnum() > 64) maxdev = dev;     // (informational; tiny F-numbers quantise coarsely)
            if((double)q.fnum() < lo || (double)q.fnum() > hi || memcmp(q.dtmul, dtmul, 4) != 0)
                c.violation(vfmt("oracle:C10:vibrato-deviation-exceeds-bound:%s:%s", J.fam, kind),
                            vfmt("%s block=%u fnum=%u (%.3fHz) outside [%.2f, %.2f] = p_base %.4f +- %.1f semitone, frame %ld", ctx.c_str(), q.block(), q.fnum(), hz, lo, hi, pbase, VIB_BOUND, frames));
        }
    }
    int bucket = (int)floor(maxdev * 10.0); if(bucket > 20) bucket = 20;
    count(vfmt("vibrato_maxdev_bucket_%02d_tenths_semitone", bucket).c_str());
    c.nontrivial = steps > 0;
    if(steps == 0) c.inconclusive = true;
    cover(vfmt("vib|%s|%s|src%d|%s|depth%s|%s", J.fam, kind, source, moved ? "moved" : "still", depth == 127 ? "max" : depth < 32 ? "low" : "mid", judged ? "judged" : "above-native"));
    c.sig = vfmt("vib|%s|%s|%d", J.fam, kind, source);
    release_note(r, ch, key, perc, cch, rate);
    c.sample(vfmt("{\"stage\":\"vibrato\",\"family\":\"%s\",\"kind\":\"%s\",\"key\":%d,\"source\":%d,\"depth\":%d,\"writes\":%ld,\"max_deviation_semitones\":%.4f}", J.fam, kind, key, source, depth, steps, maxdev));
}

// ------------------------------------------------------------------------------------------------------------
// stage: scope — which notes a bend re-pitches
// ------------------------------------------------------------------------------------------------------------
struct SNote { int ch, key, cch, program; bool held, sost_marked; double base; uint8_t dtmul[4]; };

static void stage_scope(Case &c)
{
    Rng &rng = c.rng;
    int fam = (int)(c.k & 1);
    Rig r;
    if(!r.open(c, fam, 2, 44100, false, fam ? 5 : 0)) return;
    Judge J(c, r, "melodic");
    // three MIDI channels, each with its own bend range; every note its own program (own note offset and DT/MUL)
    int chs[3]; chs[0] = (int)rng.below(16); do { chs[1] = (int)rng.below(16); } while(chs[1] == chs[0]); do { chs[2] = (int)rng.below(16); } while(chs[2] == chs[0] || chs[2] == chs[1]);
    for(int i = 0; i < 3; i++) if(chs[i] == 9) { int x = 15; while(x == chs[0] || x == chs[1] || x == chs[2]) x--; chs[i] = x; }
    int ranges[3], bends[3];
    static const int rgs[] = {2, 2, 12, 24, 1, 0};
    for(int i = 0; i < 3; i++) { ranges[i] = rng.pick(rgs); bends[i] = 8192; set_range(r, chs[i], ranges[i], -1); }
    std::vector<SNote> notes;
    int nprog = 0;
    int total = rng.range(3, 10);
    std::set<int> used_keys[3];
    int hold_kind = (int)rng.below(3);      // 0 none held, 1 sustain pedal, 2 sostenuto
    for(int n = 0; n < total; n++)
    {
        int ci = n < 2 ? 0 : (int)rng.below(3);
        int key; do { key = rng.range(10, 100); } while(used_keys[ci].count(key)); used_keys[ci].insert(key);
        SNote s; s.ch = chs[ci]; s.key = key; s.held = false; s.sost_marked = false; s.program = nprog++;
        gen_dtmul(rng, s.dtmul);
        static const int offs[] = {0, 0, -12, 12, 7, -5};
        int off = rng.pick(offs);
        OPN2_Instrument in; fill_ins(in, off, 0, s.dtmul, (unsigned)rng.below(64));
        if(!put_ins(c, r, false, (unsigned)s.program, in)) return;
        r.begin(); API("opn2_rt_patchChange", opn2_rt_patchChange(r.dev, (uint8_t)s.ch, (uint8_t)s.program)); r.end();
        s.base = key + off;
        Group g;
        s.cch = note_on(c, r, s.ch, key, rng.range(1, 127), &g, J.fam, "melodic");
        if(s.cch < 0) { c.inconclusive = true; return; }
        for(size_t j = 0; j < notes.size(); j++) if(notes[j].cch == s.cch) { c.inconclusive = true; count("scope_channel_shared"); return; }
        J.tune(g, s.base, s.dtmul, vfmt("[scope %s ch=%d key=%d off=%d] note-on", J.fam, s.ch, key, off), false);
        notes.push_back(s);
    }
    // turn some notes of the first channel into pedal-/sostenuto-held notes (key released)
    if(hold_kind)
    {
        int ctl = hold_kind == 1 ? 64 : 66;
        cc(r, chs[0], ctl, 127);
        if(hold_kind == 2) for(size_t j = 0; j < notes.size(); j++) if(notes[j].ch == chs[0]) notes[j].sost_marked = true;    // key down while the sostenuto pedal went down
        bool first = true;
        for(size_t j = 0; j < notes.size(); j++)
            if(notes[j].ch == chs[0] && (first || rng.chance(0.4)))
            {
                first = false;
                r.begin(); API("opn2_rt_noteOff", opn2_rt_noteOff(r.dev, (uint8_t)notes[j].ch, (uint8_t)notes[j].key)); r.end();
                notes[j].held = true;
                if(!r.dec[(size_t)notes[j].cch].keyon) { c.inconclusive = true; count("scope_held_note_was_keyed_off"); return; }   // C05's business
            }
        if(hold_kind == 2)
        {   // notes played after the sostenuto pedal went down are not held by it; add one more key-down note
            SNote s; s.ch = chs[0]; do { s.key = rng.range(10, 100); } while(used_keys[0].count(s.key)); s.held = false; s.sost_marked = false; s.program = nprog++;
            gen_dtmul(rng, s.dtmul);
            OPN2_Instrument in; fill_ins(in, 0, 0, s.dtmul, 3);
            if(!put_ins(c, r, false, (unsigned)s.program, in)) return;
            r.begin(); API("opn2_rt_patchChange", opn2_rt_patchChange(r.dev, (uint8_t)s.ch, (uint8_t)s.program)); r.end();
            s.base = s.key;
            Group g; s.cch = note_on(c, r, s.ch, s.key, 90, &g, J.fam, "melodic");
            if(s.cch >= 0) { bool dup = false; for(size_t j = 0; j < notes.size(); j++) if(notes[j].cch == s.cch) dup = true; if(!dup) notes.push_back(s); else { c.inconclusive = true; return; } }
        }
    }
    int nb = rng.range(4, 12);
    long evaluated = 0;
    bool pedal_down = hold_kind == 1;
    for(int b = 0; b < nb && g_w.violations_in_case < 8; b++)
    {
        int ci = b == 0 ? 0 : (int)rng.below(3);
        static const int bvals[] = {0, 8192, 16383, 1, 8191, 8193};
        int bend14 = rng.chance(0.4) ? rng.pick(bvals) : (int)rng.below(16384);
        r.begin(); API("opn2_rt_pitchBend", opn2_rt_pitchBend(r.dev, (uint8_t)chs[ci], (uint16_t)bend14)); r.end();
        bends[ci] = bend14; count("bend_calls");
        double bp = ((double)bend14 - 8192.0) / 8192.0 * ranges[ci];
        std::set<int> seen = r.freq_written;
        int n_down = 0, n_held = 0, n_other = 0;
        if(getenv("C10_DEBUG"))
        {
            fprintf(stderr, "[c10] scope bend %d on ch %d (hold_kind %d): wrote", bend14, chs[ci], hold_kind);
            for(std::set<int>::iterator i = seen.begin(); i != seen.end(); ++i) fprintf(stderr, " %d", *i);
            fprintf(stderr, " | notes:");
            for(size_t j = 0; j < notes.size(); j++) fprintf(stderr, " (ch%d k%d cc%d %s)", notes[j].ch, notes[j].key, notes[j].cch, notes[j].held ? "held" : "down");
            fprintf(stderr, "\n");
        }
        for(size_t j = 0; j < notes.size(); j++)
        {
            const SNote &s = notes[j];
            bool wrote = seen.count(s.cch) != 0;
            seen.erase(s.cch);
            std::string ctx = vfmt("[scope %s bend %d on MIDI ch %d; note ch=%d key=%d chip-channel=%d %s]", J.fam, bend14, chs[ci], s.ch, s.key, s.cch, s.held ? "held-by-pedal" : "key-down");
            if(s.ch != chs[ci])
            {
                n_other++;
                if(wrote) c.violation(vfmt("oracle:C10:bend-repitched-other-midi-channel:%s", J.fam), ctx + " got a frequency write");
                continue;
            }
            if(s.held) { n_held++; count(wrote ? "held_note_repitched" : "held_note_not_repitched"); cover(vfmt("scope|%s|held-%s|%s", J.fam, hold_kind == 1 ? "pedal" : "sostenuto", wrote ? "repitched" : "kept")); continue; }   // three-valued
            n_down++;
            if(!wrote)
            {
                c.violation(vfmt("oracle:C10:bend-did-not-repitch-key-down-note:%s", s.sost_marked ? "sostenuto-marked" : (hold_kind == 1 && pedal_down) ? "sustain-pedal-down" : "plain"),
                            ctx + (s.sost_marked ? " (key still down, CC66 was switched on while it sounded)" : "") + " got no frequency write inside the call");
                continue;
            }
            cover(vfmt("scope|%s|keydown-%s|repitched", J.fam, s.sost_marked ? "sostenuto-marked" : (hold_kind == 1 && pedal_down) ? "pedal-down" : "plain"));
            const ChanDec &d = r.dec[(size_t)s.cch];
            Group g; g.ch = s.cch; g.a4 = d.a4; g.a0 = d.a0; memcpy(g.dtmul, d.dtmul, 4); g.freq_in_call = true;
            J.tune(g, s.base + bp, s.dtmul, ctx, false);
            evaluated++;
        }
        if(!seen.empty()) count("bend_wrote_frequency_to_idle_chip_channel", (long long)seen.size());   // no note there: harmless, recorded
        cover(vfmt("scope|%s|down%d|held%d|other%d|%s", J.fam, std::min(n_down, 3), std::min(n_held, 2), std::min(n_other, 3), Judge::bend_class(bend14)));
        if(hold_kind == 1 && b == nb / 2)
        {   // pedal up: the held notes end, the others keep sounding
            cc(r, chs[0], 64, 0);
            pedal_down = false;
            std::vector<SNote> keep;
            for(size_t j = 0; j < notes.size(); j++) if(!notes[j].held) keep.push_back(notes[j]);
            notes.swap(keep);
        }
    }
    c.nontrivial = evaluated > 0;
    c.sig = vfmt("scope|%s|%d|%zu", J.fam, hold_kind, notes.size());
    c.sample(vfmt("{\"stage\":\"scope\",\"family\":\"%s\",\"midi_channels\":[%d,%d,%d],\"ranges\":[%d,%d,%d],\"notes\":%zu,\"hold_kind\":%d,\"bend_calls\":%d,\"repitched_groups_checked\":%ld,\"worst_fnum_err\":%.4f}",
                   J.fam, chs[0], chs[1], chs[2], ranges[0], ranges[1], ranges[2], notes.size(), hold_kind, nb, evaluated, J.worst));
    (void)bends;
}

// ------------------------------------------------------------------------------------------------------------
// stage: seqbend -- pitch-bend events played by the sequencer from a file whose tracks name two MIDI devices (FF 09): the bend
// re-pitches the key-down note of ITS channel on ITS device, at once, and nothing else
// ------------------------------------------------------------------------------------------------------------
static void stage_seqbend(Case &c)
{
    Rng &rng = c.rng;
    int fam = (int)(c.k & 1);
    const long rate = 8000;
    Rig r;
    if(!r.open(c, fam, 2, rate, true, fam ? 5 : 0)) return;
    Judge J(c, r, "melodic");
    uint8_t dtmul[4]; gen_dtmul(rng, dtmul);
    int note_off = rng.pick((const int[]){0, 0, 12, -12});
    OPN2_Instrument in; fill_ins(in, note_off, 0, dtmul, (unsigned)rng.below(64));
    if(!put_ins(c, r, false, 0, in)) return;                 // program 0: what every channel plays after a load
    int ch = (int)rng.below(16); if(ch == 9) ch = 3;
    int keyA = rng.range(40, 52), keyB = rng.range(64, 76);
    int bendB = rng.chance(0.3) ? 16383 : (int)rng.below(16384), bendA = rng.chance(0.5) ? -1 : (int)rng.below(16384);
    bool names_in_own_track = rng.chance(0.5);
    Song sg; sg.format = 1; sg.division = 480; sg.running_status = rng.chance(0.5); sg.tracks.resize(3);
    int serial = 0;
    auto push = [&](int t, SEv e) { e.serial = serial++; sg.tracks[(size_t)t].ev.push_back(e); };
    push(0, mk_tempo(0, 500000)); push(0, mk_meta(1920, 0x2F, std::vector<uint8_t>()));
    push(1, mk_meta_text(0, 0x09, "Port A")); push(1, mk_chan(0, 0x90 | ch, keyA, 100));
    if(bendA >= 0) push(1, mk_chan(720, 0xE0 | ch, bendA & 127, bendA >> 7));
    push(1, mk_meta(1920, 0x2F, std::vector<uint8_t>()));
    push(2, mk_meta_text(0, 0x09, "Port B")); push(2, mk_chan(0, 0x90 | ch, keyB, 100));
    push(2, mk_chan(480, 0xE0 | ch, bendB & 127, bendB >> 7));
    push(2, mk_meta(1920, 0x2F, std::vector<uint8_t>()));
    (void)names_in_own_track;
    std::vector<uint8_t> file = serialize_song(sg);
    int rc = 0;
    { ExactBuf eb(file); API("opn2_openData", rc = opn2_openData(r.dev, eb.p, (unsigned long)eb.n)); }
    if(rc != 0) { c.violation("oracle:C10:seqbend:wellformed-file-rejected", opn2_errorInfo(r.dev)); return; }
    std::string ctx = vfmt("[seqbend %s ch=%d device A key %d, device B key %d, note_offset=%d, bend on B %d at 0.5 s, bend on A %d at 0.75 s]", J.fam, ch, keyA, keyB, note_off, bendB, bendA);
    // time 0: both notes key on
    r.begin(); double nd = 0; API("opn2_tickEvents", nd = opn2_tickEvents(r.dev, 0.0, 1e-6)); r.end();
    int cA = -1, cB = -1;
    for(size_t i = 0; i < r.groups.size(); i++)
    {
        double hz = group_hz(r.groups[i].block(), r.groups[i].fnum(), r.clock);
        if(fabs(12.0 * log2(hz / nominal_hz(keyA + note_off))) < 0.5) cA = r.groups[i].ch;
        if(fabs(12.0 * log2(hz / nominal_hz(keyB + note_off))) < 0.5) cB = r.groups[i].ch;
    }
    if(cA < 0 || cB < 0 || cA == cB) { c.inconclusive = true; count("seqbend_notes_not_identified"); return; }
    // 0.5 s: the bend of device B's channel
    r.begin(); API("opn2_tickEvents", nd = opn2_tickEvents(r.dev, nd, 1e-6)); r.end();
    double pos = 0; API("opn2_positionTell", pos = opn2_positionTell(r.dev));
    if(fabs(pos - 0.5) > 1e-6) { c.inconclusive = true; count("seqbend_unexpected_position"); return; }
    double bpB = ((double)bendB - 8192.0) / 8192.0 * 2.0;
    if(bendB != 8192)
    {
        if(!r.freq_written.count(cB))
            c.violation("oracle:C10:bend-did-not-repitch-key-down-note:file-second-device", ctx + vfmt(": the bend of device B's channel wrote no frequency to chip channel %d of its key-down note", cB));
        else
        {
            const ChanDec &d = r.dec[(size_t)cB];
            Group g; g.ch = cB; g.a4 = d.a4; g.a0 = d.a0; memcpy(g.dtmul, d.dtmul, 4); g.freq_in_call = true;
            J.tune(g, keyB + note_off + bpB, dtmul, ctx + " device B note after its bend", false);
        }
        if(r.freq_written.count(cA))
            c.violation(vfmt("oracle:C10:bend-wrote-frequency-elsewhere:%s:melodic", J.fam), ctx + vfmt(": the bend of device B's channel re-pitched chip channel %d, the note of the same channel number on device A", cA));
    }
    // 0.75 s: the bend of device A's channel (if any)
    if(bendA >= 0)
    {
        r.begin(); API("opn2_tickEvents", nd = opn2_tickEvents(r.dev, nd, 1e-6)); r.end();
        double bpA = ((double)bendA - 8192.0) / 8192.0 * 2.0;
        if(bendA != 8192)
        {
            if(!r.freq_written.count(cA))
                c.violation("oracle:C10:bend-did-not-repitch-key-down-note:file-first-device", ctx + vfmt(": the bend of device A's channel wrote no frequency to chip channel %d", cA));
            else
            {
                const ChanDec &d = r.dec[(size_t)cA];
                Group g; g.ch = cA; g.a4 = d.a4; g.a0 = d.a0; memcpy(g.dtmul, d.dtmul, 4); g.freq_in_call = true;
                J.tune(g, keyA + note_off + bpA, dtmul, ctx + " device A note after its bend", false);
            }
            if(r.freq_written.count(cB))
                c.violation(vfmt("oracle:C10:bend-wrote-frequency-elsewhere:%s:melodic", J.fam), ctx + vfmt(": the bend of device A's channel re-pitched chip channel %d of device B's note", cB));
        }
    }
    c.nontrivial = true;
    cover(vfmt("seqbend|%s|ch%d|bendA%d", J.fam, ch, bendA >= 0 ? 1 : 0));
    c.sig = vfmt("seqbend|%s", J.fam);
    c.sample(std::string("{\"stage\":\"seqbend\",\"context\":") + jstr(ctx) + "}");
}

static void run_case(Case &c)
{
    const std::string &st = g_w.stage;
    if(st == "seqbend") { stage_seqbend(c); return; }
    if(st == "fullbend") stage_fullbend(c);
    else if(st == "lsb") stage_lsb(c);
    else if(st == "porta") stage_porta(c);
    else if(st == "vibrato") stage_vibrato(c);
    else if(st == "scope") stage_scope(c);
    else stage_sweep(c);
}
