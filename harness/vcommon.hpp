// Shared worker-side machinery for every check (see DESIGN.md section 3).
// A harness defines:   static void run_case(Case &c);   and   static const char *HARNESS_NAME;
// and includes this header once.  The worker executes case indices of its slice in order and
// writes a line protocol to --out (read by bin/vcheck, which supervises the workers):
//   B <k>                          case k begins
//   V <k> <key>\t<detail>          refuting event observed in case k (oracle / exception / hang)
//   E <k> <held|violated|inconclusive> <nontrivial 0/1> <signature-hash>
//   S <k> <json>                   sample case written out for the evidence file
//   C <name> <integer>             monitor counter (summed by the supervisor)
// A worker that dies between B and E (sanitizer report, signal, assert) is detected by the
// supervisor, which reads the sanitizer log and restarts a worker at k+1.
#ifndef VCOMMON_HPP
#define VCOMMON_HPP

#include <stdint.h>
#include <stdio.h>
#include <stdlib.h>
#include <string.h>
#include <stdarg.h>
#include <unistd.h>
#include <fcntl.h>
#include <signal.h>
#include <errno.h>
#include <sys/time.h>
#include <time.h>
#include <sys/stat.h>
#include <math.h>
#include <string>
#include <vector>
#include <map>
#include <set>
#include <exception>
#include <stdexcept>
#include <typeinfo>
#include <algorithm>
#include <cxxabi.h>

// ------------------------------------------------------------------------------------------
// PRNG: splitmix64-seeded xoshiro256**; case k of seed s is the same everywhere.
// ------------------------------------------------------------------------------------------
struct Rng
{
    uint64_t s[4];
    static uint64_t splitmix(uint64_t &x)
    {
        uint64_t z = (x += 0x9E3779B97F4A7C15ull);
        z = (z ^ (z >> 30)) * 0xBF58476D1CE4E5B9ull;
        z = (z ^ (z >> 27)) * 0x94D049BB133111EBull;
        return z ^ (z >> 31);
    }
    Rng(uint64_t seed = 1, uint64_t stream = 0, uint64_t k = 0)
    {
        uint64_t x = seed * 0xD1342543DE82EF95ull + stream * 0x2545F4914F6CDD1Dull + k * 0x9E3779B97F4A7C15ull + 0x1234567;
        for(int i = 0; i < 4; i++) s[i] = splitmix(x);
    }
    static inline uint64_t rotl(uint64_t x, int k) { return (x << k) | (x >> (64 - k)); }
    uint64_t next()
    {
        const uint64_t r = rotl(s[1] * 5, 7) * 9;
        const uint64_t t = s[1] << 17;
        s[2] ^= s[0]; s[3] ^= s[1]; s[1] ^= s[2]; s[0] ^= s[3];
        s[2] ^= t; s[3] = rotl(s[3], 45);
        return r;
    }
    uint32_t below(uint32_t n) { return n ? (uint32_t)(next() % n) : 0; }      // [0,n)
    int range(int lo, int hi) { return lo + (int)below((uint32_t)(hi - lo + 1)); } // [lo,hi]
    bool chance(double p) { return (next() >> 11) * (1.0 / 9007199254740992.0) < p; }
    double unit() { return (next() >> 11) * (1.0 / 9007199254740992.0); }
    uint8_t byte() { return (uint8_t)next(); }
    template<class T, size_t N> const T &pick(const T (&a)[N]) { return a[below((uint32_t)N)]; }
    template<class T> const T &pick(const std::vector<T> &a) { return a[below((uint32_t)a.size())]; }
};

// ------------------------------------------------------------------------------------------
// tiny helpers
// ------------------------------------------------------------------------------------------
static inline std::string vfmt(const char *fmt, ...)
{
    char buf[8192];
    va_list ap; va_start(ap, fmt);
    int n = vsnprintf(buf, sizeof(buf), fmt, ap);
    va_end(ap);
    if(n < 0) n = 0;
    if((size_t)n >= sizeof(buf)) n = sizeof(buf) - 1;
    return std::string(buf, (size_t)n);
}
static inline std::string hexs(const uint8_t *p, size_t n, size_t maxn = 48)
{
    std::string r;
    for(size_t i = 0; i < n && i < maxn; i++) r += vfmt("%02x", p[i]);
    if(n > maxn) r += vfmt("..(%zu bytes)", n);
    return r;
}
static inline std::string hexs(const std::vector<uint8_t> &v, size_t maxn = 48) { return hexs(v.data(), v.size(), maxn); }
static inline std::string jstr(const std::string &s)
{
    std::string r = "\"";
    for(size_t i = 0; i < s.size(); i++)
    {
        unsigned char c = (unsigned char)s[i];
        if(c == '"' || c == '\\') { r += '\\'; r += (char)c; }
        else if(c < 0x20 || c >= 0x7f) r += vfmt("\\u%04x", c);
        else r += (char)c;
    }
    return r + "\"";
}
static inline uint64_t fnv1a(const void *p, size_t n, uint64_t h = 1469598103934665603ull)
{
    const uint8_t *b = (const uint8_t *)p;
    for(size_t i = 0; i < n; i++) { h ^= b[i]; h *= 1099511628211ull; }
    return h;
}
static inline uint64_t fnv1a(const std::string &s, uint64_t h = 1469598103934665603ull) { return fnv1a(s.data(), s.size(), h); }

// ------------------------------------------------------------------------------------------
// worker state
// ------------------------------------------------------------------------------------------
struct Worker
{
    int out_fd;
    uint64_t seed;
    long cur_case;
    const char *cur_api;          // API call in progress (for hang / exception keys)
    std::string tier;             // quick | thorough
    std::string stage;            // stage name given by the supervisor
    std::string variant;          // build variant name
    std::string scratch;          // scratch dir (cwd)
    double cpu_budget_s;          // per-case user-CPU budget
    int samples_left;
    int violations_in_case;
    std::map<std::string, long long> counters;
    std::map<std::string, std::string> opts;
    Worker(): out_fd(1), seed(1), cur_case(-1), cur_api("-"), tier("quick"), cpu_budget_s(20.0),
        samples_left(2), violations_in_case(0) {}
    void line(const std::string &s)
    {
        std::string t = s + "\n";
        size_t off = 0;
        while(off < t.size())
        {
            ssize_t w = ::write(out_fd, t.data() + off, t.size() - off);
            if(w <= 0) { if(errno == EINTR) continue; break; }
            off += (size_t)w;
        }
    }
    long long optnum(const char *k, long long d) { std::map<std::string,std::string>::iterator i = opts.find(k); return i == opts.end() ? d : atoll(i->second.c_str()); }
    std::string optstr(const char *k, const char *d) { std::map<std::string,std::string>::iterator i = opts.find(k); return i == opts.end() ? d : i->second; }
};
static Worker g_w;
// When set, Case::violation() records keys here instead of emitting V lines (used by history shrinkers).
static std::vector<std::string> *g_capture_keys = NULL;

struct Case
{
    long k;
    uint64_t stream;      // PRNG stream of the stage (a harness that re-executes itself for one case passes it on)
    Rng rng;
    bool nontrivial;
    bool inconclusive;
    bool skip;            // case index outside the enumerated space: not an evaluation
    std::string sig;      // abstract behaviour signature (hashed into the E line)
    std::string replay_path; // when set (--only with --dump), harness writes its input there
    Case(long k_, uint64_t seed, uint64_t stream_): k(k_), stream(stream_), rng(seed, stream_, (uint64_t)k_), nontrivial(false), inconclusive(false), skip(false) {}
    // Report a refuting event. key identifies WHAT fails (used for known-findings matching).
    void violation(const std::string &key, const std::string &detail)
    {
        if(g_capture_keys) { g_capture_keys->push_back(key); g_w.violations_in_case++; return; }
        g_w.violations_in_case++;
        std::string d = detail;
        for(size_t i = 0; i < d.size(); i++) if(d[i] == '\n' || d[i] == '\t') d[i] = ' ';
        std::string kk = key;
        for(size_t i = 0; i < kk.size(); i++) if(kk[i] == ' ' || kk[i] == '\n' || kk[i] == '\t') kk[i] = '_';
        g_w.line(vfmt("V %ld ", k) + kk + "\t" + d);
    }
    void sample(const std::string &json)
    {
        if(g_w.samples_left > 0) { g_w.samples_left--; g_w.line(vfmt("S %ld ", k) + json); }
    }
};
static inline void count(const char *name, long long n = 1) { g_w.counters[name] += n; }
// Coverage item: a distinct abstract behaviour observed by a monitor (unioned over all workers by the
// supervisor; when a harness emits such items they define distinct_nontrivial instead of per-case signatures).
static std::set<uint64_t> g_cover_seen;
static inline void cover(const std::string &item)
{
    uint64_t h = fnv1a(item);
    if(g_cover_seen.insert(h).second) g_w.line(vfmt("G %016llx", (unsigned long long)h));
}

// ------------------------------------------------------------------------------------------
// API shim: every call into the library goes through API(name, expr). An exception that leaves
// the call is a refuting event (for a C caller it would be std::terminate).
// ------------------------------------------------------------------------------------------
static Case *g_case = NULL;
static inline std::string demangle(const char *n)
{
    int st = 0; char *d = abi::__cxa_demangle(n, 0, 0, &st);
    std::string r = (st == 0 && d) ? d : n; free(d); return r;
}
static inline void api_exception(const char *api)
{
    std::string type = "unknown", what;
    try { throw; }
    catch(const std::exception &e) { type = demangle(typeid(e).name()); what = e.what(); }
    catch(...) {}
    if(g_case) g_case->violation(std::string("exception:") + type + ":" + api, "what=" + what);
}
#define API(name, expr) do { g_w.cur_api = name; try { expr; } catch(...) { api_exception(name); } g_w.cur_api = "-"; } while(0)

// ------------------------------------------------------------------------------------------
// CPU-time budget (user CPU of this process, not wall clock)
// ------------------------------------------------------------------------------------------
static void on_vtalrm(int)
{
    char buf[256];
    int n = snprintf(buf, sizeof(buf), "V %ld hang:%s\tcpu budget %.0fs exceeded inside %s\nE %ld violated 1 0\n",
                     g_w.cur_case, g_w.cur_api, g_w.cpu_budget_s, g_w.cur_api, g_w.cur_case);
    if(n > 0) { ssize_t r = ::write(g_w.out_fd, buf, (size_t)n); (void)r; }
    _exit(51);
}
static inline void arm_budget(double s)
{
    struct itimerval it; memset(&it, 0, sizeof(it));
    it.it_value.tv_sec = (time_t)s; it.it_value.tv_usec = (suseconds_t)((s - floor(s)) * 1e6);
    setitimer(ITIMER_VIRTUAL, &it, NULL);
}

// ------------------------------------------------------------------------------------------
// allocation accounting (sanitizer allocator hooks when built with ASan; operator new otherwise)
// ------------------------------------------------------------------------------------------
struct AllocWatch { volatile long long n_allocs; volatile unsigned long long max_req; volatile long long live; volatile long long peak; };
static AllocWatch g_alloc = {0, 0, 0, 0};
#if defined(__has_feature)
#  if __has_feature(address_sanitizer)
#    define V_ASAN 1
#  endif
#  if __has_feature(thread_sanitizer)
#    define V_TSAN 1
#  endif
#endif
#ifdef V_ASAN
extern "C" int __sanitizer_install_malloc_and_free_hooks(void (*malloc_hook)(const volatile void *, size_t), void (*free_hook)(const volatile void *));
extern "C" size_t __sanitizer_get_allocated_size(const volatile void *p);
static void v_malloc_hook(const volatile void *, size_t sz)
{
    g_alloc.n_allocs++;
    if(sz > g_alloc.max_req) g_alloc.max_req = sz;
    g_alloc.live += (long long)sz;
    if(g_alloc.live > g_alloc.peak) g_alloc.peak = g_alloc.live;
}
static void v_free_hook(const volatile void *p) { if(p) g_alloc.live -= (long long)__sanitizer_get_allocated_size(p); }
static inline void alloc_watch_install() { __sanitizer_install_malloc_and_free_hooks(v_malloc_hook, v_free_hook); }
#else
static inline void alloc_watch_install() {}
#endif
static inline void alloc_watch_reset() { g_alloc.n_allocs = 0; g_alloc.max_req = 0; g_alloc.peak = g_alloc.live; }

// ------------------------------------------------------------------------------------------
// main loop
// ------------------------------------------------------------------------------------------
static void run_case(Case &c);
static void harness_init();     // called once per worker before the first case
static const char *harness_name();

int main(int argc, char **argv)
{
    long begin = 0, end = 1, stride = 1, offset = 0, only = -1;
    uint64_t stream = 0;
    const char *outp = NULL, *dump = NULL;
    for(int i = 1; i < argc; i++)
    {
        std::string a = argv[i];
        const char *v = (i + 1 < argc) ? argv[i + 1] : "";
        if(a == "--seed") { g_w.seed = strtoull(v, 0, 10); i++; }
        else if(a == "--begin") { begin = atol(v); i++; }
        else if(a == "--end") { end = atol(v); i++; }
        else if(a == "--stride") { stride = atol(v); i++; }
        else if(a == "--offset") { offset = atol(v); i++; }
        else if(a == "--only") { only = atol(v); i++; }
        else if(a == "--out") { outp = v; i++; }
        else if(a == "--dump") { dump = v; i++; }
        else if(a == "--tier") { g_w.tier = v; i++; }
        else if(a == "--stage") { g_w.stage = v; i++; }
        else if(a == "--variant") { g_w.variant = v; i++; }
        else if(a == "--stream") { stream = strtoull(v, 0, 10); i++; }
        else if(a == "--budget") { g_w.cpu_budget_s = atof(v); i++; }
        else if(a == "--samples") { g_w.samples_left = atoi(v); i++; }
        else if(a == "--opt") { std::string kv = v; size_t e = kv.find('='); if(e != std::string::npos) g_w.opts[kv.substr(0, e)] = kv.substr(e + 1); i++; }
        else { fprintf(stderr, "%s: unknown argument %s\n", harness_name(), a.c_str()); return 2; }
    }
    if(outp)
    {
        g_w.out_fd = open(outp, O_WRONLY | O_CREAT | O_APPEND, 0644);
        if(g_w.out_fd < 0) { perror(outp); return 2; }
    }
    signal(SIGVTALRM, on_vtalrm);
    alloc_watch_install();
    harness_init();
    if(only >= 0) { begin = only; end = only + 1; stride = 1; offset = 0; }
    for(long k = begin + offset; k < end; k += stride)
    {
        Case c(k, g_w.seed, stream);
        if(dump) c.replay_path = dump;
        g_case = &c;
        g_w.cur_case = k;
        g_w.violations_in_case = 0;
        g_w.line(vfmt("B %ld", k));
        arm_budget(g_w.cpu_budget_s);
        clock_t t_c0 = clock();
        try { run_case(c); }
        catch(...) { g_w.cur_api = "harness"; api_exception("harness"); }
        arm_budget(0);
        if(getenv("VERIF_TIMING")) fprintf(stderr, "[timing] case %ld %.3fs sig=%s\n", k, (double)(clock() - t_c0) / CLOCKS_PER_SEC, c.sig.substr(0, 80).c_str());
        const char *verdict = g_w.violations_in_case ? "violated" : (c.skip ? "skip" : (c.inconclusive ? "inconclusive" : "held"));
        g_w.line(vfmt("E %ld %s %d %016llx", k, verdict, c.nontrivial ? 1 : 0, (unsigned long long)fnv1a(c.sig)));
        g_case = NULL;
    }
    for(std::map<std::string, long long>::iterator i = g_w.counters.begin(); i != g_w.counters.end(); ++i)
        g_w.line("C " + i->first + vfmt(" %lld", i->second));
    g_w.line("D");
    return 0;
}

#endif
