// Generator + serializer + independent reference interpretation of Standard MIDI Files
// (used by C01 seeds, C07, C08, C09, C17). Written from the SMF specification, not from the
// library's parser.
#ifndef VSMF_HPP
#define VSMF_HPP

#include "vlib.hpp"

struct SEv
{
    uint64_t tick;
    uint8_t status;              // 0x8n..0xEn channel voice, 0xF0 sysex, 0xFF meta
    uint8_t meta;                // meta type when status == 0xFF
    std::vector<uint8_t> data;   // data bytes (channel: 1-2 bytes; sysex: payload incl. final F7; meta: payload)
    int serial;                  // per-track serial (order in file)
    SEv(): tick(0), status(0), meta(0), serial(0) {}
    bool is_chan() const { return status >= 0x80 && status < 0xF0; }
    bool is_noteon() const { return (status & 0xF0) == 0x90 && data.size() == 2 && data[1] > 0; }
    bool is_noteoff() const { return (status & 0xF0) == 0x80 || ((status & 0xF0) == 0x90 && data.size() == 2 && data[1] == 0); }
    bool is_eot() const { return status == 0xFF && meta == 0x2F; }
    bool is_tempo() const { return status == 0xFF && meta == 0x51 && data.size() == 3; }
};

struct STrack { std::vector<SEv> ev; };   // sorted by tick, file order; last event is End-of-Track

struct Song
{
    int format;
    int division;
    bool running_status;
    std::vector<STrack> tracks;
    int hmi_track;               // track holding the file's single CC110 (taken by the sequencer as a loop start marker), or -1
    Song(): format(1), division(96), running_status(false), hmi_track(-1) {}
};

struct SongOpts
{
    int min_tracks, max_tracks;
    int max_events;              // per track
    bool tempo_changes;
    bool loops;                  // may place loop markers (C09)
    bool lone_eot;               // allow End-of-Track on its own tick (trailing silence)
    bool sysex_meta;
    bool big_deltas;
    bool allow_cc_special;       // bank select etc.
    int force_division;          // 0 = random
    bool devices;                // tracks may name their MIDI device (FF 09) at their start and switch it later: channels 16+ inside the player
    int game_ccs;                // 0: none; 1: controllers 112..119 of game MIDI dialects appear as plain controllers; 2: and exactly one CC110 (no CC111)
    bool restrikes;              // legato re-strikes of several held keys in one tick (note-offs and note-ons of the same keys together)
    bool empty_tracks;           // a track (not the first) may hold nothing but its End-of-Track, at tick 0 or after a silence of its own
    SongOpts(): min_tracks(1), max_tracks(8), max_events(40), tempo_changes(true), loops(false), lone_eot(true),
        sysex_meta(true), big_deltas(false), allow_cc_special(true), force_division(0), devices(false), game_ccs(0), restrikes(true), empty_tracks(false) {}
};

static inline SEv mk_chan(uint64_t tick, uint8_t status, int d0, int d1 = -1)
{
    SEv e; e.tick = tick; e.status = status; e.data.push_back((uint8_t)d0); if(d1 >= 0) e.data.push_back((uint8_t)d1); return e;
}
static inline SEv mk_meta(uint64_t tick, uint8_t type, const std::vector<uint8_t> &d)
{
    SEv e; e.tick = tick; e.status = 0xFF; e.meta = type; e.data = d; return e;
}
static inline SEv mk_meta_text(uint64_t tick, uint8_t type, const std::string &s)
{
    return mk_meta(tick, type, std::vector<uint8_t>(s.begin(), s.end()));
}
static inline SEv mk_tempo(uint64_t tick, uint32_t us)
{
    std::vector<uint8_t> d; put_be(d, us, 3); return mk_meta(tick, 0x51, d);
}

// Random well-formed song. Every track uses its own channels (track t -> channel t and t+8 when
// tracks <= 8), every meta/SysEx payload carries a (track, serial) tag.
static inline Song gen_song(Rng &r, const SongOpts &o)
{
    Song s;
    int nt = r.range(o.min_tracks, o.max_tracks);
    s.format = (nt == 1 && r.chance(0.6)) ? 0 : 1;
    static const int divs[] = {1, 2, 24, 48, 96, 120, 192, 240, 384, 480, 960, 1000, 15360, 32767};
    s.division = o.force_division ? o.force_division : (r.chance(0.7) ? r.pick(divs) : r.range(1, 32767));
    s.running_status = r.chance(0.5);
    s.tracks.resize((size_t)nt);
    for(int t = 0; t < nt; t++)
    {
        STrack &tr = s.tracks[(size_t)t];
        uint64_t tick = 0;
        if(o.empty_tracks && t > 0 && r.chance(0.07))
        {   // nothing but End-of-Track: standing alone at its tick it is delivered with what precedes it (the song begin), its silence is skipped
            if(r.chance(0.7)) tick = r.chance(0.5) ? (uint64_t)r.range(1, s.division * 4) : (uint64_t)r.range(s.division * 8, s.division * 400);
            SEv eot = mk_meta(tick, 0x2F, std::vector<uint8_t>()); eot.serial = 0; tr.ev.push_back(eot);
            continue;
        }
        static const char *devnames[] = {"Port A", "Port B", "MPU-401"};
        if(o.devices && r.chance(0.6)) { SEv e = mk_meta_text(0, 0x09, devnames[r.below(3)]); e.serial = 200000; tr.ev.push_back(e); }
        int chans[2] = { t % 16, (t + 8) % 16 };
        bool held[2][128]; memset(held, 0, sizeof(held));
        int nev = r.range(3, o.max_events);
        int serial = 0;
        if(r.chance(0.5))
        {
            SEv e = mk_meta_text(0, 0x03, vfmt("trk%d", t)); tr.ev.push_back(e);
        }
        for(int i = 0; i < nev; i++)
        {
            // delta
            uint32_t dt;
            double p = r.unit();
            if(p < 0.35) dt = 0;
            else if(p < 0.8) dt = (uint32_t)r.range(1, std::max(1, s.division / 2));
            else if(p < 0.97 || !o.big_deltas) dt = (uint32_t)r.range(1, std::max(2, s.division * 3));
            else dt = r.chance(0.6) ? (uint32_t)r.range(1, 200000) : (uint32_t)r.range(0x1FFFF0, 0x300000);      // also four-byte variable-length quantities
            tick += dt;
            int ci = r.below(2);
            uint8_t ch = (uint8_t)chans[ci];
            int kind = (int)r.below(100);
            SEv e;
            if(o.restrikes && kind < 30 && r.chance(0.15))
            {
                // legato re-strike of up to 4 held keys of this channel, all in this tick: each key gets its note-off
                // and, later in the file, a new note-on; grouped (offs first) or interleaved key by key
                std::vector<int> ks;
                for(int k = 0; k < 128 && ks.size() < 4; k++) if(held[ci][k] && r.chance(0.7)) ks.push_back(k);
                if(ks.size() >= 1)
                {
                    bool grouped = r.chance(0.5);
                    std::vector<SEv> offs, ons;
                    for(size_t q = 0; q < ks.size(); q++)
                    {
                        offs.push_back(r.chance(0.5) ? mk_chan(tick, 0x80 | ch, ks[q], r.range(0, 127)) : mk_chan(tick, 0x90 | ch, ks[q], 0));
                        ons.push_back(mk_chan(tick, 0x90 | ch, ks[q], r.range(1, 127)));
                    }
                    const bool on_first = !grouped && r.chance(0.4);     // each new note-on written in front of the note-off that ends the old note
                    if(grouped) { for(size_t q = 0; q < ks.size(); q++) { offs[q].serial = serial++; tr.ev.push_back(offs[q]); } for(size_t q = 0; q < ks.size(); q++) { ons[q].serial = serial++; tr.ev.push_back(ons[q]); } }
                    else if(on_first) for(size_t q = 0; q < ks.size(); q++) { ons[q].serial = serial++; tr.ev.push_back(ons[q]); offs[q].serial = serial++; tr.ev.push_back(offs[q]); }
                    else for(size_t q = 0; q < ks.size(); q++) { offs[q].serial = serial++; tr.ev.push_back(offs[q]); ons[q].serial = serial++; tr.ev.push_back(ons[q]); }
                    continue;
                }
            }
            if(kind < 30)
            {
                int key = r.range(30, 90);
                if(held[ci][key]) { e = r.chance(0.5) ? mk_chan(tick, 0x80 | ch, key, r.range(0, 127)) : mk_chan(tick, 0x90 | ch, key, 0); held[ci][key] = false; }
                else { e = mk_chan(tick, 0x90 | ch, key, r.range(1, 127)); held[ci][key] = true; }
            }
            else if(kind < 40)
            {
                // release some held key (possibly same tick as its note-on)
                int key = -1;
                for(int k = 0; k < 128; k++) if(held[ci][k]) { key = k; if(r.chance(0.5)) break; }
                if(key < 0) { key = r.range(30, 90); e = mk_chan(tick, 0x90 | ch, key, r.range(1, 127)); held[ci][key] = true; }
                else { e = mk_chan(tick, 0x80 | ch, key, 0x40); held[ci][key] = false; }
            }
            else if(kind < 58)
            {
                static const int ccs[] = {1, 7, 10, 11, 64, 66, 67, 91, 93, 74, 5, 65, 6, 38, 100, 101, 98, 99, 120, 121, 123, 2, 3, 12, 80};
                int cc = r.pick(ccs);
                if(o.allow_cc_special && r.chance(0.1)) cc = r.chance(0.5) ? 0 : 32;
                if(o.game_ccs && r.chance(0.25)) cc = r.chance(0.5) ? 113 : r.range(112, 119);
                int val = r.range(0, 127);
                if(cc == 0 && r.chance(0.35)) val = 126 + (int)r.below(2);      // XG: bank MSB 126/127 turns the channel into a percussion channel
                e = mk_chan(tick, 0xB0 | ch, cc, val);
            }
            else if(kind < 66) e = mk_chan(tick, 0xC0 | ch, r.range(0, 127));
            else if(kind < 74) e = mk_chan(tick, 0xE0 | ch, r.range(0, 127), r.range(0, 127));
            else if(kind < 78) e = mk_chan(tick, 0xD0 | ch, r.range(0, 127));
            else if(kind < 82) e = mk_chan(tick, 0xA0 | ch, r.range(0, 127), r.range(0, 127));
            else if(kind < 88 && o.tempo_changes && t == 0)
            {
                static const uint32_t tempos[] = {500000, 250000, 1000000, 120000, 60000, 2000000, 333333, 1, 16777215, 428571};
                e = mk_tempo(tick, r.chance(0.8) ? r.pick(tempos) : (uint32_t)r.range(1000, 4000000));
            }
            else if(kind < 94 && o.sysex_meta)
            {
                static const uint8_t mt[] = {0x01, 0x02, 0x04, 0x05, 0x06, 0x07, 0x58, 0x59, 0x7F, 0x20, 0x21, 0x54};
                uint8_t type = r.pick(mt);
                std::string tag = vfmt("t%d#%d", t, serial);
                // every meta payload names its track so that delivered events can be attributed (vseq.hpp track_of)
                if(type == 0x58) { std::vector<uint8_t> d; d.push_back(4); d.push_back(2); d.push_back(24); d.push_back((uint8_t)t); e = mk_meta(tick, type, d); }
                else if(type == 0x59) { e = mk_meta_text(tick, 0x05, tag); }
                else if(type == 0x20 || type == 0x21) { std::vector<uint8_t> d; d.push_back((uint8_t)t); e = mk_meta(tick, type, d); }
                else if(type == 0x54) { std::vector<uint8_t> d(5, (uint8_t)serial); d[0] = (uint8_t)t; e = mk_meta(tick, type, d); }
                else e = mk_meta_text(tick, type, tag);
            }
            else if(kind < 98 && o.sysex_meta)
            {
                // harmless SysEx: non-commercial manufacturer id 0x7D, tagged payload
                e.tick = tick; e.status = 0xF0;
                e.data.push_back(0x7D); e.data.push_back((uint8_t)t); e.data.push_back((uint8_t)(serial & 0x7F));
                int extra = r.range(0, 6);
                for(int x = 0; x < extra; x++) e.data.push_back((uint8_t)r.range(0, 127));
                e.data.push_back(0xF7);
            }
            else e = mk_chan(tick, 0xB0 | ch, 7, r.range(0, 127));
            e.serial = serial++;
            tr.ev.push_back(e);
            if(o.devices && r.chance(0.04)) { SEv dv = mk_meta_text(tick, 0x09, devnames[r.below(3)]); dv.serial = serial++; tr.ev.push_back(dv); }   // the track moves to another device
        }
        // release what is still held, maybe
        if(r.chance(0.7))
            for(int ci = 0; ci < 2; ci++) for(int k = 0; k < 128; k++) if(held[ci][k])
            {
                if(r.chance(0.5)) tick += (uint32_t)r.range(0, s.division);
                SEv e = mk_chan(tick, 0x80 | (uint8_t)chans[ci], k, 0); e.serial = serial++; tr.ev.push_back(e);
            }
        // End of track: same tick, or alone after trailing silence
        if(o.lone_eot && r.chance(0.4)) tick += (uint32_t)r.range(1, s.division * 4);
        SEv eot = mk_meta(tick, 0x2F, std::vector<uint8_t>()); eot.serial = serial++;
        tr.ev.push_back(eot);
    }
    if(o.game_ccs == 2)
    {   // the one CC110 of the file, anywhere before some track's End of Track
        int t = (int)r.below((uint32_t)nt);
        STrack &tr = s.tracks[(size_t)t];
        size_t at = r.below((uint32_t)tr.ev.size());
        SEv e = mk_chan(tr.ev[at].tick, 0xB0 | (uint8_t)(t % 8), 110, r.range(0, 127)); e.serial = 100000;
        tr.ev.insert(tr.ev.begin() + (long)at, e);
        s.hmi_track = t;
    }
    return s;
}

static inline std::vector<uint8_t> serialize_track(const Song &s, const STrack &tr)
{
    std::vector<uint8_t> b;
    uint64_t prev = 0;
    int running = -1;
    for(size_t i = 0; i < tr.ev.size(); i++)
    {
        const SEv &e = tr.ev[i];
        put_vlq(b, e.tick - prev);
        prev = e.tick;
        if(e.status == 0xFF) { b.push_back(0xFF); b.push_back(e.meta); put_vlq(b, e.data.size()); put_bytes(b, e.data); running = -1; }
        else if(e.status == 0xF0 || e.status == 0xF7) { b.push_back(e.status); put_vlq(b, e.data.size()); put_bytes(b, e.data); running = -1; }
        else
        {
            if(!(s.running_status && running == e.status)) b.push_back(e.status);
            running = e.status;
            put_bytes(b, e.data);
        }
    }
    return b;
}

static inline std::vector<uint8_t> serialize_song(const Song &s)
{
    std::vector<uint8_t> f;
    put_str(f, "MThd"); put_be(f, 6, 4); put_be(f, (uint64_t)s.format, 2); put_be(f, s.tracks.size(), 2); put_be(f, (uint64_t)s.division, 2);
    for(size_t t = 0; t < s.tracks.size(); t++)
    {
        std::vector<uint8_t> b = serialize_track(s, s.tracks[t]);
        put_str(f, "MTrk"); put_be(f, b.size(), 4); put_bytes(f, b);
    }
    return f;
}

// ------------------------------------------------------------------------------------------
// Reference timing: tick -> seconds through the tempo map of track 0 (format 0/1), default
// 500000 us per quarter. Long double arithmetic: exact enough (1e-12 relative) for the oracles.
// ------------------------------------------------------------------------------------------
struct TempoMap
{
    std::vector<std::pair<uint64_t, uint32_t> > pts;  // (tick, us per quarter), sorted
    int division;
    void build(const Song &s)
    {
        division = s.division;
        pts.clear();
        pts.push_back(std::make_pair((uint64_t)0, (uint32_t)500000));
        if(!s.tracks.empty())
            for(size_t i = 0; i < s.tracks[0].ev.size(); i++)
            {
                const SEv &e = s.tracks[0].ev[i];
                if(e.is_tempo()) pts.push_back(std::make_pair(e.tick, (uint32_t)((e.data[0] << 16) | (e.data[1] << 8) | e.data[2])));
            }
    }
    long double seconds(uint64_t tick) const
    {
        long double t = 0; uint64_t at = 0; uint32_t us = 500000;
        for(size_t i = 0; i < pts.size(); i++)
        {
            if(pts[i].first > tick) break;
            t += (long double)(pts[i].first - at) * us / ((long double)division * 1e6L);
            at = pts[i].first; us = pts[i].second;
        }
        t += (long double)(tick - at) * us / ((long double)division * 1e6L);
        return t;
    }
};

// ------------------------------------------------------------------------------------------
// Containers and siblings used as fuzz seeds and by C17
// ------------------------------------------------------------------------------------------
static inline std::vector<uint8_t> wrap_rmi(const std::vector<uint8_t> &smf, bool odd_pad, const std::vector<uint8_t> &trailer)
{
    std::vector<uint8_t> f;
    put_str(f, "RIFF");
    size_t datalen = smf.size();
    size_t total = 4 + 8 + datalen + ((datalen & 1) && odd_pad ? 1 : 0) + trailer.size();
    put_le(f, total, 4);
    put_str(f, "RMID"); put_str(f, "data"); put_le(f, datalen, 4);
    put_bytes(f, smf);
    if((datalen & 1) && odd_pad) f.push_back(0);
    put_bytes(f, trailer);
    return f;
}

static inline std::vector<uint8_t> make_gmf(const Song &s, size_t track)
{
    std::vector<uint8_t> f;
    put_str(f, "GMF\x01");
    f.push_back(0); f.push_back(0); f.push_back(0);   // 3 header bytes, track data begins at offset 7
    std::vector<uint8_t> b = serialize_track(s, s.tracks[track]);
    put_bytes(f, b);
    return f;
}

#endif
