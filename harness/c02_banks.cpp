// C02 — untrusted bank data is rejected or loaded safely; accepted banks and API-written instruments are playable.
// Stages:
//   fuzz   generated / mutated / hostile WOPN and OPNI images into WOPN_LoadBankFromMem, WOPN_LoadInstFromMem and
//          opn2_openBankData (exact-size heap block); accepted banks get a short play.
//   sweep  exhaustive truncation and single-byte substitution ({00,7F,80,FF}) of small valid images: header, first bank
//          meta, first two and last instrument completely, the rest sampled (opt step); OPNI images completely.
//   play   accepted bank mutants, accepted OPNI instruments and instruments written through opn2_setInstrument with
//          every field at its extremes are played: note grid, pitch bend x bend range, vibrato, portamento, CC7/11/74,
//          each followed by opn2_generate of one period; key-ons are observed through the register tap (H1).
//
// Oracle (literal reading of the statement):
//   * WOPN_LoadBankFromMem: non-NULL file (every byte of both bank arrays readable, names NUL-terminated), or NULL with *error in
//     WOPN_ERR_BAD_MAGIC..WOPN_ERR_NULL_POINTER; WOPN_LoadInstFromMem: a WOPN_ERR_* code; opn2_openBankData: 0, or -1 with error text.
//   * no sanitizer report / signal / assert / exception; every single call <= 1 s CPU (key slow-call:<api>), case budget 20 s (hang:<api>).
//   * one loader call requests no single block > 256 MiB and grows the live heap by no more than max(64 MiB, 1024 x input size).
// Three-valued (statement silent, both outcomes accepted): *error untouched or WOPN_ERR_OK on acceptance; which of 0 / -1 the API
//   returns for an empty or NULL block; whether the API loader and the WOPN loader agree (counter only); the version number an accepted
//   file reports (counter only); return value of opn2_rt_noteOn; whether a note produces a key-on at all (blank instruments, full chip).
// Out of scope (caller misuse): sizes larger than the real block, including negative `long` sizes.
#include "vlib.hpp"
#include <algorithm>

static const char *harness_name() { return "c02_banks"; }
typedef std::vector<uint8_t> Bytes;

// ---------------------------------------------------------------------------------------------
// timed API shim: a single call that needs more than g_slow_limit CPU seconds is a violation
// ---------------------------------------------------------------------------------------------
static double g_slow_limit = 1.0;
static inline void slow_check(const char *name, clock_t t0)
{
    double dt = (double)(clock() - t0) / CLOCKS_PER_SEC;
    if(dt > g_slow_limit && g_case) g_case->violation(std::string("slow-call:") + name, vfmt("%s needed %.2f s CPU (limit %.1f s)", name, dt, g_slow_limit));
}
#define TAPI(name, expr) do { clock_t t0__ = clock(); API(name, expr); slow_check(name, t0__); } while(0)

// allocation oracle around one loader call
static void alloc_check(Case &c, const char *api, size_t input_size, long long live_before)
{
    unsigned long long maxreq = g_alloc.max_req;
    long long grown = g_alloc.peak - live_before;
    // 64 KiB of input => 64 MiB; the few larger images (64 backed banks, ~570 KiB) get the same factor of 1024
    long long peak_limit = std::max<long long>(64ll << 20, (long long)input_size * 1024);
    if(maxreq > (256ull << 20))
        c.violation(std::string("alloc:single-request-over-256MiB:") + api, vfmt("largest single allocation request %llu bytes (%.0f MiB) inside %s for an input of %zu bytes", maxreq, maxreq / 1048576.0, api, input_size));
    else if(grown > peak_limit)
        c.violation(std::string("alloc:peak-over-64MiB:") + api, vfmt("live heap grew by %lld bytes (%.0f MiB, largest request %llu) inside %s for an input of %zu bytes", grown, grown / 1048576.0, maxreq, api, input_size));
}

// Exact block holder that is also strict for the empty string: for n == 0 the pointer handed out is the END of a
// 16-byte block, so that reading even one byte is a heap-buffer-overflow.
struct InBuf
{
    uint8_t *base; uint8_t *p; size_t n;
    explicit InBuf(const Bytes &v): n(v.size())
    {
        if(n) { base = (uint8_t *)malloc(n); memcpy(base, v.data(), n); p = base; }
        else { base = (uint8_t *)malloc(16); memset(base, 0x57, 16); p = base + 16; }
    }
    ~InBuf() { free(base); }
private:
    InBuf(const InBuf &); InBuf &operator=(const InBuf &);
};

// ---------------------------------------------------------------------------------------------
// image construction (own serializer; the library's writer is not used for the inputs)
// ---------------------------------------------------------------------------------------------
static const char *const MAGIC_BANK1 = "WOPN2-BANK";   // + NUL = 11 bytes, version 1, no version field
static const char *const MAGIC_BANK2 = "WOPN2-B2NK";   // + NUL, then LE16 version
static const char *const MAGIC_INST1 = "WOPN2-INST";
static const char *const MAGIC_INST2 = "WOPN2-IN2T";
static void put_magic(Bytes &b, const char *m) { for(int i = 0; i < 10; i++) b.push_back((uint8_t)m[i]); b.push_back(0); }

static const int NOTE_OFFSETS[] = {-32768, -32767, -20000, -12400, -12301, -12300, -12289, -12288, -12287, -12200, -1000, -129, -128, -127, -24, -1, 0, 1, 24,
                                   127, 128, 1000, 12200, 12286, 12287, 12288, 12289, 12300, 12301, 12400, 20000, 32766, 32767};
static const int BYTE_EXT[] = {0x00, 0x7F, 0x80, 0xFF};
static const int DELAYS[] = {0, 1, 40000, 65535};
static const int DRUMKEYS[] = {0, 1, 35, 127, 128, 129, 254, 255};

enum { CT_DEFAULT = 0, CT_FF, CT_00, CT_7F, CT_80, CT_RANDOM, CT_EXTREME, CT_COUNT };
static const char *const CT_NAMES[] = {"default", "allFF", "all00", "all7F", "all80", "random", "extreme"};

// 69-byte version-2 bank record (version 1 and OPNI use the first 65 bytes)
static void raw_ins(Rng &r, uint8_t *rec, int content, unsigned id, bool perc, bool name_nonul)
{
    WOPNInstrument in; make_instrument(in, id, perc);
    memset(rec, 0, 69);
    memcpy(rec, in.inst_name, 32);
    rec[32] = (uint8_t)((uint16_t)in.note_offset >> 8); rec[33] = (uint8_t)in.note_offset;
    rec[34] = in.percussion_key_number; rec[35] = in.fbalg; rec[36] = in.lfosens;
    for(int op = 0; op < 4; op++)
    {
        uint8_t *o = rec + 37 + op * 7;
        o[0] = in.operators[op].dtfm_30; o[1] = in.operators[op].level_40; o[2] = in.operators[op].rsatk_50; o[3] = in.operators[op].amdecay1_60;
        o[4] = in.operators[op].decay2_70; o[5] = in.operators[op].susrel_80; o[6] = in.operators[op].ssgeg_90;
    }
    rec[65] = (uint8_t)(in.delay_on_ms >> 8); rec[66] = (uint8_t)in.delay_on_ms; rec[67] = (uint8_t)(in.delay_off_ms >> 8); rec[68] = (uint8_t)in.delay_off_ms;
    switch(content)
    {
    case CT_FF: memset(rec, 0xFF, 69); break;
    case CT_00: memset(rec, 0x00, 69); break;
    case CT_7F: memset(rec, 0x7F, 69); break;
    case CT_80: memset(rec, 0x80, 69); break;
    case CT_RANDOM: for(int i = 0; i < 69; i++) rec[i] = r.byte(); break;
    case CT_EXTREME:
    {
        int no = r.pick(NOTE_OFFSETS); rec[32] = (uint8_t)((uint16_t)(int16_t)no >> 8); rec[33] = (uint8_t)no;
        rec[34] = (uint8_t)r.pick(DRUMKEYS);
        int mode = (int)r.below(3), v = r.pick(BYTE_EXT);
        for(int i = 35; i < 65; i++) rec[i] = (uint8_t)(mode == 0 ? v : mode == 1 ? r.pick(BYTE_EXT) : (r.chance(0.5) ? rec[i] : r.pick(BYTE_EXT)));
        int d1 = r.pick(DELAYS), d2 = r.pick(DELAYS);
        rec[65] = (uint8_t)(d1 >> 8); rec[66] = (uint8_t)d1; rec[67] = (uint8_t)(d2 >> 8); rec[68] = (uint8_t)d2;
        break;
    }
    default: break;
    }
    if(name_nonul) for(int i = 0; i < 32; i++) if(rec[i] == 0) rec[i] = (uint8_t)('A' + (i % 26));
}

struct BankSpec
{
    int magic_kind;          // 0 = BANK (v1), 1 = B2NK + version field
    int version;             // value of the version field (B2NK only)
    unsigned decl_m, decl_p; // declared counts
    unsigned have_m, have_p; // banks actually written
    int flags;               // LFO / chip byte
    int content;             // CT_*
    bool name_nonul;
    int tail;                // bytes added (+) or removed (-) at the end
    bool big;                // image may exceed 64 KiB (64 backed banks)
    BankSpec(): magic_kind(1), version(2), decl_m(1), decl_p(1), have_m(1), have_p(1), flags(0), content(CT_DEFAULT), name_nonul(false), tail(0), big(false) {}
};

static Bytes build_wopn(Rng &r, const BankSpec &s)
{
    Bytes b;
    put_magic(b, s.magic_kind ? MAGIC_BANK2 : MAGIC_BANK1);
    if(s.magic_kind) put_le(b, (uint64_t)(uint16_t)s.version, 2);
    int layout = (s.magic_kind && s.version >= 2) ? 2 : 1;      // the loader treats version 0 like version 1
    put_be(b, s.decl_m, 2); put_be(b, s.decl_p, 2); b.push_back((uint8_t)s.flags);
    unsigned total = s.have_m + s.have_p;
    if(layout == 2)
        for(unsigned i = 0; i < total; i++)
        {
            char nm[40]; snprintf(nm, sizeof(nm), "bank %u", i);
            uint8_t meta[34]; memset(meta, 0, sizeof(meta)); memcpy(meta, nm, strlen(nm));
            if(s.name_nonul) for(int k = 0; k < 32; k++) if(!meta[k]) meta[k] = (uint8_t)('a' + k % 26);
            static const int bsel[] = {0, 0, 0, 1, 2, 127, 128, 255};
            bool first = (i == 0 || i == s.have_m);
            meta[32] = (uint8_t)(first && r.chance(0.7) ? 0 : r.pick(bsel));     // lsb
            meta[33] = (uint8_t)(first && r.chance(0.7) ? 0 : r.pick(bsel));     // msb
            b.insert(b.end(), meta, meta + 34);
        }
    size_t isz = layout == 2 ? 69 : 65;
    for(unsigned i = 0; i < total; i++)
        for(unsigned k = 0; k < 128; k++)
        {
            uint8_t rec[69];
            int ct = s.content;
            if(ct == CT_EXTREME && !r.chance(0.35)) ct = CT_DEFAULT;       // a third of the instruments are extreme
            raw_ins(r, rec, ct, k, i >= s.have_m, s.name_nonul);
            b.insert(b.end(), rec, rec + isz);
        }
    if(s.tail > 0) for(int i = 0; i < s.tail; i++) b.push_back(r.byte());
    if(s.tail < 0) b.resize(b.size() > (size_t)(-s.tail) ? b.size() + s.tail : 0);
    if(b.size() > 65536 && !s.big) b.resize(65536);
    return b;
}

static Bytes build_opni(Rng &r, int magic_kind, int version, int is_drum, int content, bool name_nonul, int tail)
{
    Bytes b;
    put_magic(b, magic_kind ? MAGIC_INST2 : MAGIC_INST1);
    if(magic_kind) put_le(b, (uint64_t)(uint16_t)version, 2);
    b.push_back((uint8_t)is_drum);
    uint8_t rec[69]; raw_ins(r, rec, content, (unsigned)r.below(128), is_drum != 0, name_nonul);
    b.insert(b.end(), rec, rec + 65);
    if(tail > 0) for(int i = 0; i < tail; i++) b.push_back(r.byte());
    if(tail < 0) b.resize(b.size() > (size_t)(-tail) ? b.size() + tail : 0);
    return b;
}

static void mutate(Rng &r, Bytes &b)
{
    int n = 1 + (int)r.below(r.chance(0.7) ? 3 : 10);
    for(int i = 0; i < n && !b.empty(); i++)
    {
        // positions near the header are hit much more often than the bulk of the instrument data
        size_t pos = r.chance(0.45) ? r.below((uint32_t)std::min<size_t>(b.size(), 100)) : r.below((uint32_t)b.size());
        static const uint8_t interesting[] = {0x00, 0x01, 0x02, 0x03, 0x7F, 0x80, 0xFF, 0xFE, 0x40, 0x30};
        switch(r.below(8))
        {
        case 0: b[pos] ^= (uint8_t)(1u << r.below(8)); break;
        case 1: b[pos] = r.byte(); break;
        case 2: b[pos] = r.pick(interesting); break;
        case 3: b.resize(pos); break;
        case 4: { size_t cnt = 1 + r.below(8); b.insert(b.begin() + (long)pos, cnt, r.pick(interesting)); break; }
        case 5: { size_t cnt = std::min<size_t>(1 + r.below(70), b.size() - pos); b.erase(b.begin() + (long)pos, b.begin() + (long)(pos + cnt)); break; }
        case 6: { static const int v16[] = {0, 1, 2, 64, 255, 256, 0x7FFF, 0x8000, 0xFFFF, 0xFFFE, 7, 8};
                  int v = r.pick(v16); bool le = r.chance(0.3); if(pos + 1 < b.size()) { b[pos] = (uint8_t)(le ? v : v >> 8); b[pos + 1] = (uint8_t)(le ? v >> 8 : v); } break; }
        default: { size_t cnt = std::min<size_t>(1 + r.below(69), b.size() - pos); int v = r.pick(BYTE_EXT); for(size_t j = 0; j < cnt; j++) b[pos + j] = (uint8_t)v; break; }
        }
    }
    if(b.size() > 65536) b.resize(65536);
}

static const std::vector<uint8_t> &small_v1_bank()
{
    static Bytes img;
    if(img.empty()) { Rng r(7, 7, 7); BankSpec s; s.magic_kind = 0; img = build_wopn(r, s); }
    return img;
}
static const std::vector<uint8_t> &small_opni(int kind)
{
    static Bytes img[2];
    if(img[kind].empty()) { Rng r(7, 8, (uint64_t)kind); img[kind] = build_opni(r, kind, 2, kind, CT_DEFAULT, false, 0); }
    return img[kind];
}

// bank image likely to be accepted (play stage) or anything (fuzz stage)
static Bytes gen_bank_image(Rng &r, std::string &desc, bool want_accept)
{
    BankSpec s;
    static const int versions[] = {0, 1, 2, 3, 0xFFFF, 2, 2, 2};
    static const unsigned counts[] = {0, 1, 2, 64, 1, 1, 3, 255, 256};
    static const unsigned bigcounts[] = {65535, 65535, 29013, 29014, 7000, 0x8000};     // 65535 banks = 578 MiB of calloc: ~0.1 s each, kept rare
    s.magic_kind = r.chance(0.7) ? 1 : 0;
    s.version = want_accept ? (int)r.below(3) : r.pick(versions);
    if(!want_accept && r.chance(0.05)) s.version = (int)r.below(65536);
    if(want_accept)
    {
        static const unsigned cm[] = {0, 1, 1, 1, 2, 3}; static const unsigned cp[] = {0, 1, 1, 1, 2, 3};
        s.decl_m = r.pick(cm); s.decl_p = r.pick(cp);
        s.have_m = s.decl_m; s.have_p = s.decl_p;
        s.tail = r.chance(0.2) ? r.range(0, 40) : 0;
    }
    else
    {
        s.decl_m = r.chance(0.03) ? r.pick(bigcounts) : r.pick(counts); s.decl_p = r.chance(0.02) ? r.pick(bigcounts) : r.pick(counts);
        if(r.chance(0.02)) { s.decl_m = r.below(65536); }
        unsigned room = 7;
        if((s.decl_m == 64 || s.decl_p == 64) && r.chance(0.25)) { s.big = true; room = 130; }    // "64 banks with the data to back them"
        switch(r.below(5))
        {
        case 0: case 1: s.have_m = std::min(s.decl_m, room); s.have_p = std::min(s.decl_p, room - s.have_m); break;   // backed as far as 64 KiB allow
        case 2: s.have_m = s.have_p = 0; break;                                                                         // header only
        case 3: s.have_m = std::min(s.decl_m, room); s.have_p = std::min(s.decl_p, room - s.have_m); if(s.have_p) s.have_p--; else if(s.have_m) s.have_m--; break;
        default: s.have_m = r.below(3); s.have_p = r.below(3); break;
        }
        static const int tails[] = {0, 0, 0, -1, -2, -34, -69, -70, 1, 5, 200};
        s.tail = r.pick(tails);
    }
    static const int fl[] = {0, 8, 0x0F, 0x10, 0x1F, 0xFF, 0x80, 7};
    s.flags = r.chance(0.8) ? r.pick(fl) : (int)r.below(256);
    s.content = (int)r.below(CT_COUNT);
    if(want_accept && s.content == CT_00) s.content = CT_EXTREME;    // all-zero = every instrument blank: nothing to play
    s.name_nonul = r.chance(0.3);
    desc = vfmt("%swopn magic=%s ver=%d decl=%u+%u have=%u+%u flags=%02x content=%s nonul=%d tail=%d", s.big ? "big " : "", s.magic_kind ? "B2NK" : "BANK", s.version, s.decl_m, s.decl_p, s.have_m, s.have_p,
                s.flags, CT_NAMES[s.content], (int)s.name_nonul, s.tail);
    return build_wopn(r, s);
}

static Bytes gen_opni_image(Rng &r, std::string &desc, bool want_accept)
{
    static const int versions[] = {0, 1, 2, 3, 0xFFFF, 2, 2};
    int kind = r.chance(0.6) ? 1 : 0;
    int ver = want_accept ? (int)r.below(3) : r.pick(versions);
    static const int drums[] = {0, 1, 0xFF, 2, 0x80};
    int drum = r.pick(drums);
    int content = (int)r.below(CT_COUNT);
    if(want_accept && content == CT_00) content = CT_EXTREME;
    static const int tails[] = {0, 0, 0, -1, -2, -4, -5, -64, -65, -66, 1, 4, 30};
    int tail = want_accept ? (r.chance(0.2) ? r.range(0, 8) : 0) : r.pick(tails);
    bool nonul = r.chance(0.3);
    desc = vfmt("opni magic=%s ver=%d drum=%d content=%s nonul=%d tail=%d", kind ? "IN2T" : "INST", ver, drum, CT_NAMES[content], (int)nonul, tail);
    return build_opni(r, kind, ver, drum, content, nonul, tail);
}

static Bytes gen_fuzz_image(Rng &r, std::string &desc, std::string &cls)
{
    int sel = (int)r.below(100);
    Bytes f;
    if(sel < 28) { cls = "hostile-wopn"; f = gen_bank_image(r, desc, false); }
    else if(sel < 40) { cls = "valid-wopn"; f = gen_bank_image(r, desc, true); }
    else if(sel < 58)
    {
        cls = "mutated-wopn";
        std::string d; f = r.chance(0.4) ? default_bank() : r.chance(0.5) ? small_v1_bank() : gen_bank_image(r, d, true);
        size_t before = f.size(); mutate(r, f); desc = vfmt("mutated wopn (%zu->%zu) %s", before, f.size(), d.c_str());
    }
    else if(sel < 68) { cls = "opni"; f = gen_opni_image(r, desc, r.chance(0.3)); }
    else if(sel < 75) { cls = "mutated-opni"; std::string d; f = gen_opni_image(r, d, true); mutate(r, f); desc = "mutated " + d; }
    else if(sel < 88)
    {   // random bytes behind each magic (also magic without its NUL / with a damaged letter)
        static const char *const mg[] = {MAGIC_BANK1, MAGIC_BANK2, MAGIC_INST1, MAGIC_INST2};
        int mi = (int)r.below(4);
        cls = "random-behind-magic";
        put_magic(f, mg[mi]);
        int dmg = (int)r.below(10);
        if(dmg == 0) f[10] = (uint8_t)r.pick(BYTE_EXT);       // the NUL of the magic
        if(dmg == 1) f.resize(10);
        if(dmg == 2) f[r.below(10)] ^= 0x20;
        int n = r.chance(0.6) ? r.range(0, 40) : r.chance(0.7) ? r.range(40, 400) : r.range(400, 20000);
        bool plausible = r.chance(0.5);       // small version + small counts so that random data reaches the instrument parser
        if(plausible && mi == 1) { put_le(f, r.below(3), 2); put_be(f, r.below(3), 2); put_be(f, r.below(3), 2); }
        if(plausible && mi == 0) { put_be(f, r.below(3), 2); put_be(f, r.below(3), 2); }
        if(plausible && mi == 3) { put_le(f, r.below(3), 2); }
        for(int i = 0; i < n; i++) f.push_back(r.chance(0.3) ? (uint8_t)r.pick(BYTE_EXT) : r.byte());
        desc = vfmt("random %d bytes behind magic %d (damage %d, plausible header %d)", n, mi, dmg, (int)plausible);
    }
    else if(sel < 95)
    {   // sizes: empty, tiny prefixes, size-1 / size+1 of valid images
        cls = "sizes";
        const Bytes *src[] = {&default_bank(), &small_v1_bank(), &small_opni(0), &small_opni(1)};
        int si = (int)r.below(4);
        f = *src[si];
        switch(r.below(6))
        {
        case 0: f.clear(); break;
        case 1: f.resize(r.below(20)); break;
        case 2: f.resize(f.size() - 1); break;
        case 3: f.push_back(r.byte()); break;
        case 4: f.resize(r.below((uint32_t)f.size() + 1)); break;
        default: break;
        }
        desc = vfmt("valid image %d resized to %zu", si, f.size());
    }
    else
    {
        cls = "random";
        int n = r.chance(0.5) ? r.range(0, 24) : r.range(24, 600);
        for(int i = 0; i < n; i++) f.push_back(r.byte());
        desc = vfmt("%d random bytes", n);
    }
    if(f.size() > 65536 && desc.compare(0, 4, "big ") != 0) f.resize(65536);
    return f;
}

// ---------------------------------------------------------------------------------------------
// loader oracles
// ---------------------------------------------------------------------------------------------
static const char *const WOPN_ERR_NAMES[] = {"OK", "BAD_MAGIC", "UNEXPECTED_ENDING", "INVALID_BANKS_COUNT", "NEWER_VERSION", "OUT_OF_MEMORY", "NULL_POINTER"};
static const char *errname(int e) { return (e >= 0 && e <= 6) ? WOPN_ERR_NAMES[e] : e == -1 ? "REJECTED" : "UNDEFINED"; }

// Touch everything an accepted bank file owns: counts must describe readable arrays, strings must be terminated.
static void validate_wopn(Case &c, WOPNFile *f, const char *how)
{
    if(f->banks_count_melodic == 0 || f->banks_count_percussion == 0 || !f->banks_melodic || !f->banks_percussive)
    { c.violation("oracle:accepted-bank-unusable", vfmt("%s: accepted WOPNFile has counts %u/%u, arrays %p/%p", how, f->banks_count_melodic, f->banks_count_percussion, (void *)f->banks_melodic, (void *)f->banks_percussive)); return; }
    if(f->version > 2) count("accepted_bank_reports_version_above_2");      // not a clause of the statement: recorded only
    uint64_t h = 0;
    WOPNBank *arr[2] = {f->banks_melodic, f->banks_percussive}; unsigned cnt[2] = {f->banks_count_melodic, f->banks_count_percussion};
    for(int s = 0; s < 2; s++)
        for(unsigned i = 0; i < cnt[s]; i++)
        {
            h = fnv1a(&arr[s][i], sizeof(WOPNBank), h ? h : 1469598103934665603ull);      // ASan: every byte must be addressable
            if(memchr(arr[s][i].bank_name, 0, sizeof(arr[s][i].bank_name)) == NULL) c.violation("oracle:accepted-bank-name-unterminated", vfmt("%s: bank %d/%u name has no NUL", how, s, i));
            for(int k = 0; k < 128; k++)
                if(memchr(arr[s][i].ins[k].inst_name, 0, 32) == NULL) { c.violation("oracle:accepted-instrument-name-unterminated", vfmt("%s: bank %d/%u instrument %d name has no NUL", how, s, i, k)); break; }
        }
    static volatile uint64_t sink; sink = h;
    count("accepted_bank_bytes_hashed", (long long)((cnt[0] + cnt[1]) * sizeof(WOPNBank)));
}

// returns the accepted file (caller frees through free_wopn) or NULL
static WOPNFile *load_wopn(Case &c, Rng &r, const Bytes &img, int *err_out)
{
    InBuf in(img);
    const int SENT = 0x5A5A5A5A;
    int err = SENT;
    bool use_err = !r.chance(0.1);
    WOPNFile *f = NULL;
    alloc_watch_reset(); long long live0 = g_alloc.live;
    TAPI("WOPN_LoadBankFromMem", f = WOPN_LoadBankFromMem(in.p, in.n, use_err ? &err : NULL));
    alloc_check(c, "WOPN_LoadBankFromMem", img.size(), live0);
    if(f)
    {
        if(use_err && err != SENT && err != WOPN_ERR_OK) c.violation("oracle:bank-accepted-with-error-code", vfmt("WOPN_LoadBankFromMem returned a file and set *error = %d", err));
        validate_wopn(c, f, "WOPN_LoadBankFromMem");
        *err_out = 0;
    }
    else
    {
        if(use_err && !(err >= WOPN_ERR_BAD_MAGIC && err <= WOPN_ERR_NULL_POINTER))
            c.violation("oracle:bank-rejected-without-defined-error", vfmt("WOPN_LoadBankFromMem returned NULL and *error = %d (0x%x)", err, (unsigned)err));
        *err_out = use_err ? err : -1;
    }
    return f;
}
static void free_wopn(WOPNFile *f) { if(f) TAPI("WOPN_Free", WOPN_Free(f)); }

// returns the error code; *out (exact heap block) receives the instrument
static int load_opni(Case &c, const Bytes &img, OPNIFile *out)
{
    InBuf in(img);
    OPNIFile *o = (OPNIFile *)malloc(sizeof(OPNIFile));       // exact block: a write past the structure is an ASan report
    memset(o, 0xCD, sizeof(*o));
    int rc = -12345;
    alloc_watch_reset(); long long live0 = g_alloc.live;
    TAPI("WOPN_LoadInstFromMem", rc = WOPN_LoadInstFromMem(o, in.p, in.n));
    alloc_check(c, "WOPN_LoadInstFromMem", img.size(), live0);
    if(rc < WOPN_ERR_OK || rc > WOPN_ERR_NULL_POINTER) c.violation("oracle:inst-undefined-return", vfmt("WOPN_LoadInstFromMem returned %d", rc));
    if(rc == WOPN_ERR_OK)
    {
        if(o->version > 2) count("accepted_inst_reports_version_above_2");  // not a clause of the statement: recorded only
        if(memchr(o->inst.inst_name, 0, 32) == NULL) c.violation("oracle:accepted-instrument-name-unterminated", "OPNI instrument name has no NUL");
    }
    if(out) *out = *o;
    free(o);
    return rc;
}

static int load_api(Case &c, OPN2_MIDIPlayer *d, const Bytes &img, std::string *errtext)
{
    InBuf in(img);
    int rc = -12345;
    alloc_watch_reset(); long long live0 = g_alloc.live;
    TAPI("opn2_openBankData", rc = opn2_openBankData(d, in.p, (long)in.n));
    alloc_check(c, "opn2_openBankData", img.size(), live0);
    if(rc != 0 && rc != -1) c.violation("oracle:openBankData-return-value", vfmt("opn2_openBankData returned %d", rc));
    const char *e = NULL;
    API("opn2_errorInfo", e = opn2_errorInfo(d));
    if(rc == -1 && (!e || !*e)) c.violation("oracle:openBankData-failed-without-error-text", "opn2_openBankData returned -1 and opn2_errorInfo is empty");
    if(errtext) *errtext = (rc == -1 && e) ? e : "";
    return rc;
}

// ---------------------------------------------------------------------------------------------
// playing
// ---------------------------------------------------------------------------------------------
static bool in_list(int v) { for(size_t i = 0; i < sizeof(NOTE_OFFSETS) / sizeof(NOTE_OFFSETS[0]); i++) if(NOTE_OFFSETS[i] == v) return true; return false; }
static bool is_ext(int v) { return v == 0 || v == 0x7F || v == 0x80 || v == 0xFF; }

// The extreme features of an instrument, one string per field that sits at (or beyond) an extreme; an instrument without any is "plain".
// Coverage items are (feature, channel kind + key [+ velocity], controller state): one per feature, so combinations do not multiply.
template<class INS> static std::vector<std::string> ins_features(const INS &in)
{
    std::vector<std::string> f;
    int no = in.note_offset;
    if(no != 0) f.push_back(in_list(no) ? vfmt("noff=%d", no) : no < -12288 ? "noff=<-12288" : no < -127 ? "noff=neg" : no < 0 ? "noff=neg-small" : no < 128 ? "noff=pos-small" : no <= 12288 ? "noff=pos" : "noff=>12288");
    int dk = in.percussion_key_number;
    if(dk != 0) f.push_back(dk == 1 ? "dk=1" : dk < 127 ? "dk=lo" : dk == 127 ? "dk=127" : dk == 128 ? "dk=128" : dk < 255 ? "dk=hi" : "dk=255");
    int vo = in.midi_velocity_offset;
    if(vo != 0) f.push_back(vo == -128 ? "vo=-128" : vo == 127 ? "vo=127" : vo < 0 ? "vo=neg" : "vo=pos");
    int fl = in.inst_flags;
    if(fl != 0) f.push_back(std::string("fl=") + ((fl & ~3) ? "x" : "") + ((fl & 1) ? "P" : "") + ((fl & 2) ? "B" : ""));
    if(in.fbalg > 0x3F) f.push_back(is_ext(in.fbalg) ? vfmt("fbalg=%02X", in.fbalg) : "fbalg=hi");
    if(in.lfosens > 0x3F) f.push_back(is_ext(in.lfosens) ? vfmt("lfo=%02X", in.lfosens) : "lfo=hi");
    int ext[4] = {0, 0, 0, 0}, other = 0;
    const uint8_t *ob = (const uint8_t *)&in.operators[0];
    for(int i = 0; i < 28; i++) { int v = ob[i]; if(v == 0) ext[0]++; else if(v == 0x7F) ext[1]++; else if(v == 0x80) ext[2]++; else if(v == 0xFF) ext[3]++; else other++; }
    if(other == 0) f.push_back(ext[0] == 28 ? "ops=00" : ext[1] == 28 ? "ops=7F" : ext[2] == 28 ? "ops=80" : ext[3] == 28 ? "ops=FF" : "ops=mixed-extremes");
    else if(ext[0] + ext[1] + ext[2] + ext[3] >= 4)
    {   // a register row (or more) at an extreme
        for(int row = 0; row < 7; row++) { int v = ob[row]; if(is_ext(v) && ob[7 + row] == v && ob[14 + row] == v && ob[21 + row] == v) { f.push_back(vfmt("oprow%d=%02X", row, v)); break; } }
    }
    if(in.delay_on_ms == 0 || in.delay_on_ms == 1 || in.delay_on_ms == 40000 || in.delay_on_ms == 65535) f.push_back(vfmt("don=%u", in.delay_on_ms));
    if(in.delay_off_ms == 0 || in.delay_off_ms == 1 || in.delay_off_ms == 40000 || in.delay_off_ms == 65535) f.push_back(vfmt("doff=%u", in.delay_off_ms));
    if(f.empty()) f.push_back("plain");
    return f;
}
static std::string join(const std::vector<std::string> &f) { std::string l; for(size_t i = 0; i < f.size(); i++) l += (i ? "," : "") + f[i]; return l; }
typedef std::vector<std::string> Feats;
static Feats one_feat(const std::string &s) { return Feats(1, s); }

struct Target
{
    int mel_ch;                 // melodic MIDI channel used
    int mel_msb, mel_lsb;       // bank select for it (-1: none)
    int patch;
    int perc_prog;              // program on channel 9 (selects the percussion bank), -1: none
    int exp_noff, exp_fbalg;    // note offset / fbalg of the melodic instrument (harness self-check of the targeting)
    Feats mel_feats;            // extreme features of the melodic instrument played
    Feats perc_feats[128];      // ... of the percussion instrument under each key used
    std::string prefix;         // "", "api:", "opni:" (how the instrument got into the bank)
    std::vector<int> keys;      // keys of the note grid
    Target(): mel_ch(0), mel_msb(-1), mel_lsb(-1), patch(0), perc_prog(-1), exp_noff(1 << 20), exp_fbalg(-1) { mel_feats = one_feat("plain"); for(int k = 0; k < 128; k++) perc_feats[k] = one_feat("plain"); static const int k[] = {0, 1, 60, 126, 127}; keys.assign(k, k + 5); }
};

struct Player
{
    Case &c; OPN2_MIDIPlayer *d; Tap tap; short pcm[1024 + 16]; int period; long steps, keyon_steps; uint64_t keyons_total;
    const Target *t;
    Player(Case &c_, OPN2_MIDIPlayer *d_): c(c_), d(d_), period(64), steps(0), keyon_steps(0), keyons_total(0), t(NULL) { tap.attach(d); }
    uint64_t keyons() const { uint64_t s = 0; for(size_t i = 0; i < tap.ch.size(); i++) s += tap.ch[i].n_keyon; return s; }
    void gen(int frames = 0)
    {
        if(frames <= 0) frames = period;
        int got = 0;
        TAPI("opn2_generate", got = opn2_generate(d, frames * 2, pcm));
        if(got != frames * 2) c.violation("oracle:generate-return", vfmt("opn2_generate(%d) returned %d", frames * 2, got));
        count("frames_generated", frames);
    }
    const Feats &feats(int ch, int key) const { return ch == 9 ? t->perc_feats[key & 127] : t->mel_feats; }
    // keycls = "k<key>[/v<vel>]" or "kheld"; a step counts for the coverage when it produced at least one key-on write (register 0x28, high nibble set)
    void mark(uint64_t k0, int ch, const std::string &keycls, const std::string &ctrl)
    {
        uint64_t k1 = keyons();
        steps++;
        if(k1 <= k0) return;
        keyon_steps++; keyons_total += k1 - k0;
        const Feats &f = feats(ch, atoi(keycls.c_str() + 1));
        for(size_t i = 0; i < f.size(); i++)
        {
            cover(f[i] + "|" + (ch == 9 ? "perc-" : "mel-") + keycls + "|" + ctrl);
            cover("source|" + (t->prefix.empty() ? std::string("image:") : t->prefix) + f[i]);     // how an instrument with this feature got into the bank
        }
    }
    void cc(int ch, int type, int val) { TAPI("opn2_rt_controllerChange", opn2_rt_controllerChange(d, (uint8_t)ch, (uint8_t)type, (uint8_t)val)); }
    void on(int ch, int key, int vel) { int rc = 0; TAPI("opn2_rt_noteOn", rc = opn2_rt_noteOn(d, (uint8_t)ch, (uint8_t)key, (uint8_t)vel)); (void)rc; }
    void off(int ch, int key) { TAPI("opn2_rt_noteOff", opn2_rt_noteOff(d, (uint8_t)ch, (uint8_t)key)); }
    void bend(int ch, int v) { TAPI("opn2_rt_pitchBend", opn2_rt_pitchBend(d, (uint8_t)ch, (uint16_t)v)); }
    void bend_range(int ch, int semis) { cc(ch, 101, 0); cc(ch, 100, 0); cc(ch, 6, semis); }

    void select(const Target &tg)
    {
        t = &tg;
        if(tg.mel_msb >= 0) { cc(tg.mel_ch, 0, tg.mel_msb); cc(tg.mel_ch, 32, tg.mel_lsb); }
        TAPI("opn2_rt_patchChange", opn2_rt_patchChange(d, (uint8_t)tg.mel_ch, (uint8_t)tg.patch));
        if(tg.perc_prog >= 0) TAPI("opn2_rt_patchChange", opn2_rt_patchChange(d, 9, (uint8_t)tg.perc_prog));
    }

    // short play for accepted mutants of the fuzz / sweep stages
    void play_light(const Target &tg)
    {
        select(tg);
        for(int pass = 0; pass < 2; pass++)
        {
            int ch = pass ? 9 : tg.mel_ch;
            for(size_t i = 0; i < tg.keys.size(); i++)
            {
                int key = tg.keys[i]; if(pass == 0 && i > 1) break;
                uint64_t k0 = keyons(); on(ch, key, 127); gen(32); mark(k0, ch, vfmt("k%d/v127", key), "light");
                k0 = keyons(); bend_range(ch, 24); bend(ch, 16383); gen(32); mark(k0, ch, vfmt("k%d", key), "light-bend");
                bend(ch, 8192);
            }
            cc(ch, 1, 127); uint64_t k0 = keyons(); gen(32); mark(k0, ch, "kheld", "light-cc1");
            for(size_t i = 0; i < tg.keys.size(); i++) off(ch, tg.keys[i]);
        }
        TAPI("opn2_panic", opn2_panic(d)); gen(16);
    }

    // the full script of the play stage for one MIDI channel
    void play_channel(const Target &tg, int ch, Rng &r)
    {
        static const int vels[] = {1, 127};
        // A. note grid
        for(size_t i = 0; i < tg.keys.size(); i++)
            for(int v = 0; v < 2; v++)
            {
                uint64_t k0 = keyons(); on(ch, tg.keys[i], vels[v]); gen(); mark(k0, ch, vfmt("k%d/v%d", tg.keys[i], vels[v]), "plain");
            }
        // B. pitch bend x bend range with three notes held (the grid left all keys held; release all but 0, 60, 127)
        for(size_t i = 0; i < tg.keys.size(); i++) if(tg.keys[i] != 0 && tg.keys[i] != 60 && tg.keys[i] != 127) off(ch, tg.keys[i]);
        static const int ranges[] = {0, 2, 24, 127}; static const int bends[] = {0, 8192, 16383};
        for(int ri = 0; ri < 4; ri++)
            for(int bi = 0; bi < 3; bi++)
            {
                uint64_t k0 = keyons(); bend_range(ch, ranges[ri]); bend(ch, bends[bi]); gen(); mark(k0, ch, "kheld", vfmt("bend=%d/range=%d", bends[bi], ranges[ri]));
            }
        // leave one of the extreme bends standing for the rest of the script in some cases
        if(r.chance(0.6)) { bend_range(ch, 2); bend(ch, 8192); }
        // C. vibrato (CC1): several periods so that updateVibrato runs with a moving phase
        { uint64_t k0 = keyons(); cc(ch, 1, 127); gen(); gen(); gen(); mark(k0, ch, "kheld", "cc1=127");
          k0 = keyons(); cc(ch, 1, 0); gen(); mark(k0, ch, "kheld", "cc1=0"); }
        // D. portamento: CC5 + CC65, then a second note far away / next to the first; glide runs in the following periods
        static const int rates[] = {0, 1, 127};
        for(int pi = 0; pi < 3; pi++)
        {
            static const int pairs[3][2] = {{0, 127}, {127, 0}, {60, 61}};
            cc(ch, 5, rates[pi]); if(r.chance(0.5)) cc(ch, 37, (int)r.below(128)); cc(ch, 65, 127);
            on(ch, pairs[pi][0], 127); gen();
            uint64_t k0 = keyons(); on(ch, pairs[pi][1], 127); gen(); gen(512); gen(); mark(k0, ch, vfmt("k%d", pairs[pi][1]), vfmt("porta=%d", rates[pi]));
        }
        cc(ch, 65, 0);
        // E. volume / expression / brightness at their ends, also a fresh note-on while they are at 0
        static const int vcc[] = {7, 11, 74};
        for(int ci = 0; ci < 3; ci++)
            for(int v = 0; v < 2; v++)
            {
                uint64_t k0 = keyons(); cc(ch, vcc[ci], v ? 127 : 0); gen(); mark(k0, ch, "kheld", vfmt("cc%d=%d", vcc[ci], v ? 127 : 0));
                k0 = keyons(); on(ch, 60, v ? 1 : 127); gen(); mark(k0, ch, "k60", vfmt("noteon@cc%d=%d", vcc[ci], v ? 127 : 0));
            }
    }

    void verify_target(const Target &tg)
    {   // self-check: is the instrument the label describes the one that reached a chip channel?
        if(tg.exp_fbalg < 0) return;
        uint64_t k0 = keyons(); on(tg.mel_ch, 64, 100);
        if(keyons() > k0)
        {
            std::vector<OpnTimbre> &cache = VA::insCache(P(d)->m_synth.get()); bool found = false;
            for(size_t i = 0; i < cache.size(); i++) if(cache[i].noteOffset == tg.exp_noff && cache[i].fbalg == tg.exp_fbalg) found = true;
            count(found ? "melodic_target_confirmed_in_chip_cache" : "melodic_target_NOT_in_chip_cache");
            if(!found && g_w.optnum("trace", 0)) fprintf(stderr, "[trace] case %ld: target ch=%d msb=%d lsb=%d patch=%d noff=%d fbalg=%d (%s) not in chip cache\n", c.k, tg.mel_ch, tg.mel_msb, tg.mel_lsb, tg.patch, tg.exp_noff, tg.exp_fbalg, join(tg.mel_feats).c_str());
        }
        off(tg.mel_ch, 64);
    }

    void play_full(const Target &tg, Rng &r)
    {
        select(tg);
        verify_target(tg);
        int first = r.chance(0.5) ? tg.mel_ch : 9, second = first == 9 ? tg.mel_ch : 9;
        play_channel(tg, first, r);
        if(r.chance(0.5)) for(int k = 0; k < 128; k++) if(k == 0 || k == 1 || k == 60 || k == 61 || k == 126 || k == 127) off(first, k);   // else: keep the voices busy
        gen();
        play_channel(tg, second, r);
        if(r.chance(0.3))
        {   // bytes outside the MIDI data range (the real-time API takes 8-bit values): key / velocity / controller value / program >= 128, channel >= 16
            for(int pass = 0; pass < 2; pass++)
            {
                int ch = pass ? 9 : tg.mel_ch;
                uint64_t k0 = keyons(); on(ch, 128 + (int)r.below(128), 128 + (int)r.below(128)); gen(); mark(k0, ch, "k255", "out-of-range-note");
                static const int vcc[] = {7, 11, 74, 1, 5, 65, 6};
                cc(ch, r.pick(vcc), 128 + (int)r.below(128)); gen();
                k0 = keyons(); on(ch, 60, 255); gen(); mark(k0, ch, "k60", "out-of-range-cc");
                k0 = keyons(); on(16 + ch, 1, 127); on(240 + ch, 126, 127); gen(); mark(k0, ch, "k1", "out-of-range-channel");
            }
            TAPI("opn2_rt_patchChange", opn2_rt_patchChange(d, (uint8_t)tg.mel_ch, (uint8_t)(128 + r.below(128))));
            uint64_t k0 = keyons(); on(tg.mel_ch, 60, 127); gen(); mark(k0, tg.mel_ch, "k60", "out-of-range-program");
            off(tg.mel_ch, 255); off(9, 255);
        }
        for(size_t i = 0; i < tg.keys.size(); i++) { off(tg.mel_ch, tg.keys[i]); off(9, tg.keys[i]); }
        off(tg.mel_ch, 61); off(9, 61);
        gen();
        TAPI("opn2_panic", opn2_panic(d));
        gen();
    }
};

static OPN2_MIDIPlayer *make_instance(Case &c, Rng &r, bool light, std::string &cfg)
{
    static const long rates[] = {8000, 11025, 22050, 44100, 32000, 16000};
    long rate = light ? 8000 : r.pick(rates);
    if(light && r.chance(0.3)) rate = 44100;
    OPN2_MIDIPlayer *d = NULL;
    TAPI("opn2_init", d = opn2_init(rate));
    if(!d) { c.violation("oracle:init-failed", "opn2_init returned NULL"); return NULL; }
    // every bundled core interprets the operator bytes itself: the two cheap ones in half of the cases, the others in the rest
    static const int other_cores[] = {4, 5, 3, 6, 4, 5, 3, 6, 1, 8};
    int chips = r.chance(0.5) ? 1 : 2, emu = r.chance(0.5) ? (r.chance(0.5) ? OPNMIDI_EMU_MAME : OPNMIDI_EMU_GENS) : (int)r.pick(other_cores), rc = 0;
    TAPI("opn2_setNumChips", rc = opn2_setNumChips(d, chips));
    TAPI("opn2_switchEmulator", rc = opn2_switchEmulator(d, emu));
    cfg = vfmt("rate=%ld chips=%d emu=%d", rate, chips, emu);
    return d;
}

static void random_settings(OPN2_MIDIPlayer *d, Rng &r, std::string &cfg)
{
    int vm = r.chance(0.4) ? 0 : (int)r.below(6);
    TAPI("opn2_setVolumeRangeModel", opn2_setVolumeRangeModel(d, vm));
    int sm = (int)r.below(2), sp = (int)r.below(2), fb = (int)r.below(2), aa = (int)r.below(2);
    TAPI("opn2_setScaleModulators", opn2_setScaleModulators(d, sm));
    TAPI("opn2_setSoftPanEnabled", opn2_setSoftPanEnabled(d, sp));
    TAPI("opn2_setFullRangeBrightness", opn2_setFullRangeBrightness(d, fb));
    TAPI("opn2_setAutoArpeggio", opn2_setAutoArpeggio(d, aa));
    cfg += vfmt(" vm=%d smod=%d softpan=%d frb=%d arp=%d", vm, sm, sp, fb, aa);
}

// choose what to play on an accepted bank file: prefer instruments that differ from the generated default bank
static void target_from_wopn(Rng &r, const WOPNFile *f, Target &t, int want_mel_idx = -1, int want_perc_idx = -1)
{
    static WOPNFile *def = NULL;
    if(!def) { int e = 0; Bytes b = default_bank(); def = WOPN_LoadBankFromMem(b.data(), b.size(), &e); }
    t.mel_ch = r.chance(0.5) ? 0 : r.range(1, 8);
    // melodic bank reachable through CC0/CC32
    unsigned bi = 0; std::vector<unsigned> reach;
    for(unsigned i = 0; i < f->banks_count_melodic; i++) if(f->banks_melodic[i].bank_midi_msb < 128 && f->banks_melodic[i].bank_midi_lsb < 128) reach.push_back(i);
    if(!reach.empty()) { bi = r.pick(reach); t.mel_msb = f->banks_melodic[bi].bank_midi_msb; t.mel_lsb = f->banks_melodic[bi].bank_midi_lsb; }
    std::vector<int> diff;
    for(int k = 0; k < 128; k++) if(def && memcmp(&f->banks_melodic[bi].ins[k].note_offset, &def->banks_melodic[0].ins[k].note_offset, sizeof(WOPNInstrument) - 32) != 0 && !(f->banks_melodic[bi].ins[k].inst_flags & WOPN_Ins_IsBlank)) diff.push_back(k);
    t.patch = want_mel_idx >= 0 ? want_mel_idx : !diff.empty() ? r.pick(diff) : (int)r.below(128);
    t.mel_feats = ins_features(f->banks_melodic[bi].ins[t.patch]);
    t.exp_noff = f->banks_melodic[bi].ins[t.patch].note_offset; t.exp_fbalg = f->banks_melodic[bi].ins[t.patch].fbalg;
    // percussion bank: selected by the program on channel 9 = bank number (msb must be 0)
    unsigned pj = 0; reach.clear();
    for(unsigned i = 0; i < f->banks_count_percussion; i++) if(f->banks_percussive[i].bank_midi_msb == 0 && f->banks_percussive[i].bank_midi_lsb < 128) reach.push_back(i);
    if(!reach.empty()) { pj = r.pick(reach); t.perc_prog = f->banks_percussive[pj].bank_midi_lsb; }
    if(want_perc_idx >= 0 && std::find(t.keys.begin(), t.keys.end(), want_perc_idx) == t.keys.end()) t.keys.push_back(want_perc_idx);
    for(int k = 0; k < 128; k++) t.perc_feats[k] = one_feat("other-key");
    for(size_t i = 0; i < t.keys.size(); i++) t.perc_feats[t.keys[i]] = ins_features(f->banks_percussive[pj].ins[t.keys[i]]);
    t.perc_feats[60] = ins_features(f->banks_percussive[pj].ins[60]); t.perc_feats[61] = ins_features(f->banks_percussive[pj].ins[61]);
}

// ---------------------------------------------------------------------------------------------
// instruments written through opn2_setInstrument
// ---------------------------------------------------------------------------------------------
static void base_api_instrument(OPN2_Instrument &o, unsigned id, bool perc)
{
    WOPNInstrument in; make_instrument(in, id, perc);
    memset(&o, 0, sizeof(o));
    o.version = 0; o.note_offset = in.note_offset; o.midi_velocity_offset = 0; o.percussion_key_number = 0; o.inst_flags = 0;
    o.fbalg = in.fbalg; o.lfosens = in.lfosens;
    memcpy(o.operators, in.operators, sizeof(o.operators));
    o.delay_on_ms = in.delay_on_ms; o.delay_off_ms = in.delay_off_ms;
}

static void extreme_api_instrument(Rng &r, OPN2_Instrument &o, std::string &what)
{
    if(r.chance(0.08))
    {   // the whole structure from the four extreme bytes
        uint8_t *p = (uint8_t *)&o; int v = r.pick(BYTE_EXT); bool mixed = r.chance(0.5);
        for(size_t i = 0; i < sizeof(o); i++) p[i] = (uint8_t)(mixed ? r.pick(BYTE_EXT) : v);
        o.version = 0; if(r.chance(0.7)) o.inst_flags &= (uint8_t)~2;
        what = "whole-struct"; return;
    }
    int nf = 1 + (int)r.below(3);
    for(int i = 0; i < nf; i++)
    {
        switch(r.below(9))
        {
        case 0: case 1: o.note_offset = (int16_t)(r.chance(0.85) ? r.pick(NOTE_OFFSETS) : r.range(-32768, 32767)); what += "note_offset,"; break;
        case 2: o.percussion_key_number = (uint8_t)(r.chance(0.7) ? r.pick(DRUMKEYS) : (int)r.below(256)); what += "drumkey,"; break;
        case 3:
        {
            uint8_t *ob = (uint8_t *)&o.operators[0]; int mode = (int)r.below(3), v = r.pick(BYTE_EXT);
            if(mode == 0) memset(ob, v, 28);
            else if(mode == 1) for(int k = 0; k < 28; k++) ob[k] = (uint8_t)r.pick(BYTE_EXT);
            else { int row = (int)r.below(7); for(int op = 0; op < 4; op++) ob[op * 7 + row] = (uint8_t)v; }
            what += "operators,"; break;
        }
        case 4: o.fbalg = (uint8_t)(r.chance(0.6) ? r.pick((const int[]){0, 7, 0x38, 0x3F, 0x7F, 0x80, 0xFF, 0x47}) : (int)r.below(256)); what += "fbalg,"; break;
        case 5: o.lfosens = (uint8_t)(r.chance(0.6) ? r.pick((const int[]){0, 7, 0x30, 0x37, 0x3F, 0x7F, 0x80, 0xC0, 0xFF}) : (int)r.below(256)); what += "lfosens,"; break;
        case 6: o.delay_on_ms = (uint16_t)r.pick(DELAYS); o.delay_off_ms = (uint16_t)r.pick(DELAYS); what += "delays,"; break;
        case 7: o.inst_flags = (uint8_t)r.below(256); if(r.chance(0.7)) o.inst_flags &= (uint8_t)~2; what += "flags,"; break;
        default: o.midi_velocity_offset = (int8_t)(r.chance(0.7) ? r.pick((const int[]){-128, -127, -64, -1, 1, 64, 126, 127}) : r.range(-128, 127)); what += "veloffset,"; break;
        }
    }
}

// ---------------------------------------------------------------------------------------------
// stages
// ---------------------------------------------------------------------------------------------
static void dump_input(Case &c, const Bytes &img)
{
    if(c.replay_path.empty()) return;
    FILE *f = fopen((c.replay_path + ".input").c_str(), "wb"); if(f) { fwrite(img.data(), 1, img.size(), f); fclose(f); }
}

// all three loaders on one image; accepted banks get a light play. Returns signature pieces.
static void load_everything(Case &c, Rng &r, const Bytes &img, const std::string &cls, const std::string &desc, int mut_mel_idx, int mut_perc_idx, bool play)
{
    int werr = -2;
    if(img.size() > 65536) count("images_over_64KiB");
    WOPNFile *wf = load_wopn(c, r, img, &werr);
    OPNIFile oi; int irc = load_opni(c, img, &oi);
    std::string cfg, etext;
    OPN2_MIDIPlayer *d = make_instance(c, r, true, cfg);
    int arc = -2;
    if(d)
    {
        // half of the loads replace a bank that is already there, half go into a fresh instance
        bool held = false;
        if(r.chance(0.5))
        {
            int rc0 = load_api(c, d, default_bank(), NULL); if(rc0 != 0) c.violation("oracle:default-bank-rejected", "generated default bank was rejected");
            if(r.chance(0.3))
            {   // notes sounding while the image is loaded; they are released afterwards whatever the outcome
                held = true; int rc = 0;
                TAPI("opn2_rt_noteOn", rc = opn2_rt_noteOn(d, 0, 60, 100)); TAPI("opn2_rt_noteOn", rc = opn2_rt_noteOn(d, 9, 40, 100)); (void)rc;
                TAPI("opn2_rt_controllerChange", opn2_rt_controllerChange(d, 0, 64, 127)); TAPI("opn2_rt_noteOn", rc = opn2_rt_noteOn(d, 0, 64, 100)); TAPI("opn2_rt_noteOff", opn2_rt_noteOff(d, 0, 64));
            }
        }
        arc = load_api(c, d, img, &etext);
        if(held)
        {
            short pcm[64];
            TAPI("opn2_rt_noteOff", opn2_rt_noteOff(d, 0, 60)); TAPI("opn2_rt_noteOff", opn2_rt_noteOff(d, 9, 40)); TAPI("opn2_rt_controllerChange", opn2_rt_controllerChange(d, 0, 64, 0));
            int got = 0; TAPI("opn2_generate", got = opn2_generate(d, 64, pcm)); (void)got;
            count("loads_with_notes_held");
        }
        if((arc == 0) != (wf != NULL)) count("api_and_wopn_loader_disagree");
        if(arc == 0 && wf && play)
        {
            Player p(c, d);
            Target t; target_from_wopn(r, wf, t, mut_mel_idx, mut_perc_idx);
            p.play_light(t);
            count("light_plays"); count("keyon_writes_seen", (long long)p.keyons_total);
        }
        else if(irc == WOPN_ERR_OK && play)
        {   // accepted OPNI: write it through the instrument API into the default bank and play it
            int rc0 = load_api(c, d, default_bank(), NULL); (void)rc0;
            OPN2_Instrument ai; memset(&ai, 0, sizeof(ai));
            ai.note_offset = oi.inst.note_offset; ai.midi_velocity_offset = oi.inst.midi_velocity_offset; ai.percussion_key_number = oi.inst.percussion_key_number;
            ai.inst_flags = oi.inst.inst_flags; ai.fbalg = oi.inst.fbalg; ai.lfosens = oi.inst.lfosens; memcpy(ai.operators, oi.inst.operators, sizeof(ai.operators));
            ai.delay_on_ms = oi.inst.delay_on_ms; ai.delay_off_ms = oi.inst.delay_off_ms;
            OPN2_BankId id; id.percussive = 0; id.msb = 0; id.lsb = 0; OPN2_Bank bk; int rc = -1;
            TAPI("opn2_getBank", rc = opn2_getBank(d, &id, 0, &bk));
            if(rc == 0) { TAPI("opn2_setInstrument", rc = opn2_setInstrument(d, &bk, 5, &ai)); }
            id.percussive = 1; int rc2 = -1; OPN2_Bank pk;
            TAPI("opn2_getBank", rc2 = opn2_getBank(d, &id, 0, &pk));
            if(rc2 == 0) { TAPI("opn2_setInstrument", rc2 = opn2_setInstrument(d, &pk, 60, &ai)); }
            if(rc == 0 && rc2 == 0)
            {
                Player p(c, d); Target t; t.patch = 5; t.perc_prog = 0; t.keys.clear(); t.keys.push_back(60); t.keys.push_back(127);
                t.prefix = "opni:"; t.mel_feats = ins_features(ai); for(int k = 0; k < 128; k++) t.perc_feats[k] = one_feat("default-bank"); t.perc_feats[60] = t.mel_feats;
                p.play_light(t);
                count("light_plays_opni"); count("keyon_writes_seen", (long long)p.keyons_total);
            }
        }
        else if(arc != 0 && play && r.chance(0.3))
        {   // a rejected image must leave the instance usable (with the previous bank or with none)
            Player p(c, d); Target t; t.patch = (int)r.below(128); t.mel_feats = one_feat("after-reject"); for(int k = 0; k < 128; k++) t.perc_feats[k] = one_feat("after-reject");
            p.play_light(t);
            count("light_plays_after_reject"); count("keyon_writes_seen", (long long)p.keyons_total);
        }
        TAPI("opn2_close", opn2_close(d));
    }
    free_wopn(wf);
    std::string eclass = etext.substr(0, 40);
    count(("bank_loader_" + std::string(wf || werr == 0 ? "accepted" : werr == -1 ? "rejected_error_pointer_null" : std::string("rejected_") + errname(werr))).c_str());
    count((std::string("inst_loader_") + (irc == 0 ? "accepted" : std::string("rejected_") + errname(irc))).c_str());
    count(arc == 0 ? "api_loader_accepted" : "api_loader_rejected");
    // non-trivial: the image got past the magic check of one of the loaders (the API loader reports the bank loader's verdict as text)
    bool bank_past_magic = arc == 0 || wf != NULL || (werr > 0 && werr != WOPN_ERR_BAD_MAGIC) || (werr == -1 && etext.find("magic") == std::string::npos);
    c.nontrivial = img.size() >= 11 && (bank_past_magic || irc != WOPN_ERR_BAD_MAGIC);
    c.sig = cls + "|" + errname(werr) + "|" + errname(irc) + "|" + vfmt("%d", arc) + "|" + eclass;
    cover("load|" + c.sig);
    c.sample(std::string("{\"input\":") + jstr(desc) + ",\"class\":" + jstr(cls) + ",\"size\":" + vfmt("%zu", img.size()) + ",\"head_hex\":" + jstr(hexs(img, 24)) +
             ",\"bank_loader\":" + jstr(wf || werr == 0 ? "accepted" : errname(werr)) + ",\"inst_loader\":" + jstr(errname(irc)) + ",\"openBankData\":" + vfmt("%d", arc) +
             ",\"error_text\":" + jstr(etext) + ",\"instance\":" + jstr(cfg) + "}");
}

static void stage_fuzz(Case &c)
{
    Rng &r = c.rng;
    std::string desc, cls;
    Bytes img = gen_fuzz_image(r, desc, cls);
    dump_input(c, img);
    load_everything(c, r, img, cls, desc, -1, -1, r.chance(0.5));
    // NULL pointer with size 0: documented error code of the two WOPN loaders
    if(r.chance(0.02))
    {
        int err = 0x5A5A; WOPNFile *f = NULL;
        TAPI("WOPN_LoadBankFromMem", f = WOPN_LoadBankFromMem(NULL, 0, &err));
        if(f || err != WOPN_ERR_NULL_POINTER) c.violation("oracle:bank-rejected-without-defined-error", vfmt("WOPN_LoadBankFromMem(NULL, 0) returned %p, *error = %d", (void *)f, err));
        free_wopn(f);
        OPNIFile o; int rc = -9;
        TAPI("WOPN_LoadInstFromMem", rc = WOPN_LoadInstFromMem(&o, NULL, 0));
        if(rc != WOPN_ERR_NULL_POINTER) c.violation("oracle:inst-undefined-return", vfmt("WOPN_LoadInstFromMem(NULL, 0) returned %d", rc));
        std::string cfg; OPN2_MIDIPlayer *d = make_instance(c, r, true, cfg);
        if(d)
        {
            int arc = -9; TAPI("opn2_openBankData", arc = opn2_openBankData(d, NULL, 0));
            const char *e = NULL; API("opn2_errorInfo", e = opn2_errorInfo(d));
            if(arc != 0 && arc != -1) c.violation("oracle:openBankData-return-value", vfmt("opn2_openBankData(NULL, 0) returned %d", arc));
            if(arc == -1 && (!e || !*e)) c.violation("oracle:openBankData-failed-without-error-text", "opn2_openBankData(NULL, 0) returned -1 and opn2_errorInfo is empty");
            TAPI("opn2_close", opn2_close(d));
        }
        cover("load|null-pointer");
    }
}

// sweep space ------------------------------------------------------------------------------------
struct SweepFile { Bytes img; std::string name; std::vector<uint32_t> pos; bool bank; int layout; };
static std::vector<SweepFile> g_sweep;
static std::vector<size_t> g_sweep_start;     // first case index of each file
static size_t g_sweep_total = 0;
static void build_sweep()
{
    if(!g_sweep.empty()) return;
    size_t step = (size_t)g_w.optnum("step", 37);
    for(int i = 0; i < 4; i++)
    {
        SweepFile s;
        switch(i)
        {
        case 0: s.img = default_bank(); s.name = "wopn-v2-1+1"; s.bank = true; s.layout = 2; break;
        case 1: s.img = small_opni(1); s.name = "opni-v2"; s.bank = false; s.layout = 2; break;
        case 2: s.img = small_v1_bank(); s.name = "wopn-v1-1+1"; s.bank = true; s.layout = 1; break;
        default: s.img = small_opni(0); s.name = "opni-v1"; s.bank = false; s.layout = 1; break;
        }
        size_t n = s.img.size();
        if(!s.bank) for(size_t p = 0; p < n; p++) s.pos.push_back((uint32_t)p);
        else
        {
            size_t isz = s.layout == 2 ? 69 : 65, hdr = s.layout == 2 ? 18 + 68 : 16;
            size_t dense_end = hdr + 2 * isz, last = n - isz;
            for(size_t p = 0; p < n; p++)
                if(p < dense_end || p >= last || ((p - dense_end) % step) == 0 || (p >= hdr + 128 * isz - 2 && p < hdr + 128 * isz + 3)) s.pos.push_back((uint32_t)p);
        }
        g_sweep.push_back(s);
    }
    size_t at = 0;
    for(size_t i = 0; i < g_sweep.size(); i++) { g_sweep_start.push_back(at); at += (g_sweep[i].pos.size() + 1) + g_sweep[i].pos.size() * 4; }
    g_sweep_total = at;
}

static void stage_sweep(Case &c)
{
    build_sweep();
    if((size_t)c.k >= g_sweep_total) { c.skip = true; return; }
    size_t fi = 0; while(fi + 1 < g_sweep.size() && (size_t)c.k >= g_sweep_start[fi + 1]) fi++;
    const SweepFile &s = g_sweep[fi];
    size_t idx = (size_t)c.k - g_sweep_start[fi], ntr = s.pos.size() + 1;
    Bytes img; std::string desc; size_t off = 0; std::string kind;
    if(idx < ntr)
    {
        size_t len = idx < s.pos.size() ? s.pos[idx] : s.img.size();      // every swept offset as a prefix length, plus the full image
        img.assign(s.img.begin(), s.img.begin() + (long)len); off = len; kind = "trunc";
        desc = vfmt("%s truncated to %zu/%zu", s.name.c_str(), len, s.img.size());
    }
    else
    {
        size_t j = idx - ntr; off = s.pos[j / 4];
        img = s.img; uint8_t v = (uint8_t)BYTE_EXT[j % 4];
        if(img[off] == v) img[off] ^= 0x55; else img[off] = v;
        kind = "subst";
        desc = vfmt("%s byte %zu := %02x (was %02x)", s.name.c_str(), off, img[off], s.img[off]);
    }
    dump_input(c, img);
    // which instrument holds the substituted byte (so that the light play uses exactly that one)
    int mel = -1, perc = -1; std::string region = "header";
    if(s.bank)
    {
        size_t isz = s.layout == 2 ? 69 : 65, hdr = s.layout == 2 ? 18 + 68 : 16;
        if(off >= hdr) { size_t ii = (off - hdr) / isz, fo = (off - hdr) % isz; if(ii < 128) mel = (int)ii; else if(ii < 256) perc = (int)(ii - 128);
            region = fo < 32 ? "ins-name" : fo < 34 ? "ins-noteoffset" : fo < 35 ? "ins-drumkey" : fo < 37 ? "ins-fbalg-lfo" : fo < 65 ? "ins-operators" : "ins-delays"; }
        else if(off >= 18 && s.layout == 2) region = (off - 18) % 34 < 32 ? "bank-name" : "bank-msb-lsb";
        else region = off < 11 ? "magic" : (s.layout == 2 && off < 13) ? "version" : (off < (size_t)(s.layout == 2 ? 17 : 15)) ? "counts" : "flags";
    }
    else region = off < 11 ? "magic" : (s.layout == 2 && off < 13) ? "version" : off < (size_t)(s.layout == 2 ? 14 : 12) ? "drumflag" : "instrument";
    load_everything(c, c.rng, img, "sweep-" + s.name + "-" + kind + "-" + region, desc, mel, perc, kind == "subst");
    c.nontrivial = true;
}

static void stage_play(Case &c)
{
    Rng &r = c.rng;
    std::string cfg, desc;
    int cls = (int)r.below(100);
    Bytes img;            // bank image under test (class bank) or the default bank
    WOPNFile *wf = NULL; OPNIFile oi; bool have_opni = false;
    std::string kind = cls < 40 ? "api-instrument" : cls < 80 ? "bank-image" : "opni-image";
    if(kind == "bank-image")
    {
        for(int attempt = 0; attempt < 6 && !wf; attempt++)
        {
            std::string d;
            if(r.chance(0.5)) img = gen_bank_image(r, d, true);
            else { img = r.chance(0.5) ? default_bank() : small_v1_bank(); size_t before = img.size(); mutate(r, img); d = vfmt("mutated valid bank (%zu->%zu)", before, img.size()); }
            int werr = 0; wf = load_wopn(c, r, img, &werr);
            desc = d;
            if(!wf) count("play_candidate_rejected");
        }
        if(!wf) { c.inconclusive = true; c.sig = "play|no-accepted-bank"; return; }
    }
    else if(kind == "opni-image")
    {
        for(int attempt = 0; attempt < 6 && !have_opni; attempt++)
        {
            std::string d; Bytes o = gen_opni_image(r, d, true); if(r.chance(0.4)) { mutate(r, o); d = "mutated " + d; }
            int rc = load_opni(c, o, &oi); have_opni = (rc == WOPN_ERR_OK); desc = d; if(have_opni) img = o; else count("play_candidate_rejected");
        }
        if(!have_opni) { c.inconclusive = true; c.sig = "play|no-accepted-opni"; return; }
    }
    dump_input(c, img);
    OPN2_MIDIPlayer *d = make_instance(c, r, false, cfg);
    if(!d) { free_wopn(wf); return; }
    Target t;
    bool ok = true;
    if(kind == "bank-image")
    {
        int arc = load_api(c, d, img, NULL);
        if(arc != 0) { count("api_and_wopn_loader_disagree"); c.inconclusive = true; ok = false; }
        else target_from_wopn(r, wf, t);
    }
    else
    {
        int arc = load_api(c, d, default_bank(), NULL);
        if(arc != 0) { c.violation("oracle:default-bank-rejected", "generated default bank was rejected"); ok = false; }
    }
    if(ok) random_settings(d, r, cfg);
    if(ok && kind != "bank-image")
    {
        OPN2_Instrument *ai = (OPN2_Instrument *)malloc(sizeof(OPN2_Instrument));     // exact block
        t.mel_ch = r.chance(0.5) ? 0 : r.range(1, 8);
        t.patch = (int)r.below(128);
        std::string what;
        if(kind == "opni-image")
        {
            memset(ai, 0, sizeof(*ai));
            ai->note_offset = oi.inst.note_offset; ai->midi_velocity_offset = oi.inst.midi_velocity_offset; ai->percussion_key_number = oi.inst.percussion_key_number;
            ai->inst_flags = oi.inst.inst_flags; ai->fbalg = oi.inst.fbalg; ai->lfosens = oi.inst.lfosens; memcpy(ai->operators, oi.inst.operators, sizeof(ai->operators));
            ai->delay_on_ms = oi.inst.delay_on_ms; ai->delay_off_ms = oi.inst.delay_off_ms;
            what = "opni";
        }
        else { base_api_instrument(*ai, (unsigned)t.patch, false); extreme_api_instrument(r, *ai, what); desc = "opn2_setInstrument fields: " + what; }
        // bank churn before the instrument is written (a third of the cases): banks that share a hash bucket are created and
        // removed in varying orders, absent ones are looked up, and real-time creation runs into the end of the reserved capacity;
        // every bank reference a successful call hands out is written through
        if(r.chance(0.33))
        {
            const int lsb = (int)r.pick((const int[]){5, 9, 33}), par = (int)r.below(2);
            OPN2_Instrument *ti = (OPN2_Instrument *)malloc(sizeof(OPN2_Instrument)); base_api_instrument(*ti, 3, false);
            auto bank = [&](int msb, int flags) -> int
            {
                OPN2_BankId bid; bid.percussive = 0; bid.msb = (uint8_t)msb; bid.lsb = (uint8_t)lsb; OPN2_Bank bb; memset(&bb, 0, sizeof(bb)); int brc = -1;
                TAPI("opn2_getBank", brc = opn2_getBank(d, &bid, flags, &bb));
                if(brc == 0 && flags) { int src = -1; TAPI("opn2_setInstrument", src = opn2_setInstrument(d, &bb, (unsigned)r.below(128), ti)); (void)src; }
                return brc;
            };
            auto drop = [&](int msb)
            {
                OPN2_BankId bid; bid.percussive = 0; bid.msb = (uint8_t)msb; bid.lsb = (uint8_t)lsb; OPN2_Bank bb; int brc = -1;
                TAPI("opn2_getBank", brc = opn2_getBank(d, &bid, 0, &bb));
                if(brc == 0) { TAPI("opn2_removeBank", brc = opn2_removeBank(d, &bb)); }
            };
            if(r.chance(0.5)) { int rr = 0; TAPI("opn2_reserveBanks", rr = opn2_reserveBanks(d, (unsigned)r.range(0, 6))); (void)rr; }
            std::vector<int> live;
            for(int step = 0, n = r.range(4, 14); step < n; step++)
            {
                int k = (int)r.below(10);
                if(k < 4 || live.empty()) { int msb = 10 + par + 2 * (int)r.below(12); if(bank(msb, OPNMIDI_Bank_Create) == 0 && std::find(live.begin(), live.end(), msb) == live.end()) live.push_back(msb); }
                else if(k < 7) { size_t j = r.chance(0.5) ? 0 : r.below((uint32_t)live.size()); drop(live[j]); live.erase(live.begin() + (long)j); }
                else if(k < 9) (void)bank(10 + par + 2 * (int)r.below(12), 0);            // lookup, present or absent
                else for(int q = 0; q < 9; q++) { int msb = 40 + par + 2 * q; if(bank(msb, OPNMIDI_Bank_CreateRt) != 0) break; if(std::find(live.begin(), live.end(), msb) == live.end()) live.push_back(msb); }
            }
            free(ti);
            count("bank_churn_preludes");
        }
        // destination banks: the loaded 0:0 banks, or freshly created ones selected through CC0/CC32
        OPN2_BankId id; id.percussive = 0; id.msb = 0; id.lsb = 0;
        bool fresh = r.chance(0.3);
        if(fresh) { id.msb = (uint8_t)r.pick((const int[]){1, 64, 125}); id.lsb = (uint8_t)r.pick((const int[]){0, 1, 127}); t.mel_msb = id.msb; t.mel_lsb = id.lsb; }
        OPN2_Bank bk; int rc = -1;
        TAPI("opn2_getBank", rc = opn2_getBank(d, &id, fresh ? OPNMIDI_Bank_Create : 0, &bk));
        if(rc == 0) TAPI("opn2_setInstrument", rc = opn2_setInstrument(d, &bk, (unsigned)t.patch, ai));
        OPN2_BankId pid; pid.percussive = 1; pid.msb = 0; pid.lsb = 0; OPN2_Bank pk; int rc2 = -1;
        if(fresh && r.chance(0.5)) { pid.lsb = (uint8_t)r.pick((const int[]){1, 64, 127}); }
        TAPI("opn2_getBank", rc2 = opn2_getBank(d, &pid, OPNMIDI_Bank_Create, &pk));
        t.perc_prog = pid.lsb;
        t.prefix = kind == "opni-image" ? "opni:" : "api:";
        t.mel_feats = ins_features(*ai); t.exp_noff = ai->note_offset; t.exp_fbalg = ai->fbalg;
        for(int k = 0; k < 128; k++) t.perc_feats[k] = one_feat("unwritten-key");
        for(int k = 0; k < 128 && rc2 == 0; k++)
        {   // percussion: instrument index = key; the same extreme instrument under every key of the grid (and 61 for the glide pair)
            if(k == 0 || k == 1 || k == 60 || k == 61 || k == 126 || k == 127) { TAPI("opn2_setInstrument", rc2 = opn2_setInstrument(d, &pk, (unsigned)k, ai)); t.perc_feats[k] = t.mel_feats; }
        }
        if(rc != 0 || rc2 != 0) { c.inconclusive = true; ok = false; count("setInstrument_failed"); }
        else
        {   // read back through the exact block: the stored instrument is what was written (precondition of "written through the API")
            OPN2_Instrument *bi = (OPN2_Instrument *)malloc(sizeof(OPN2_Instrument)); memset(bi, 0xCD, sizeof(*bi)); int rc3 = -1;
            TAPI("opn2_getInstrument", rc3 = opn2_getInstrument(d, &bk, (unsigned)t.patch, bi));
            if(rc3 != 0) { c.inconclusive = true; ok = false; }
            free(bi);
        }
        count(("written_" + kind).c_str());
        free(ai);
    }
    if(ok)
    {
        Player p(c, d);
        static const int periods[] = {16, 32, 64, 64, 128, 512};
        p.period = r.pick(periods);
        p.play_full(t, r);
        count("full_plays"); count("play_steps", p.steps); count("play_steps_with_keyon", p.keyon_steps); count("keyon_writes_seen", (long long)p.keyons_total);
        count("register_writes_seen", (long long)p.tap.writes);
        c.nontrivial = p.keyon_steps > 0;
        if(!c.nontrivial) count("plays_without_keyon");
        c.sig = "play|" + kind + "|" + t.prefix + join(t.mel_feats) + "|" + join(t.perc_feats[60]);
        c.sample(std::string("{\"kind\":") + jstr(kind) + ",\"input\":" + jstr(desc) + ",\"instance\":" + jstr(cfg) + ",\"melodic\":" + jstr(vfmt("ch=%d msb=%d lsb=%d patch=%d ", t.mel_ch, t.mel_msb, t.mel_lsb, t.patch) + t.prefix + join(t.mel_feats)) +
                 ",\"percussion\":" + jstr(vfmt("prog=%d key60: ", t.perc_prog) + join(t.perc_feats[60])) + ",\"steps\":" + vfmt("%ld", p.steps) + ",\"steps_with_keyon\":" + vfmt("%ld", p.keyon_steps) + "}");
    }
    TAPI("opn2_close", opn2_close(d));
    free_wopn(wf);
}

static void harness_init()
{
    default_bank(); small_v1_bank(); small_opni(0); small_opni(1);
    g_slow_limit = (double)g_w.optnum("slow_ms", 1000) / 1000.0;
}

static void run_case(Case &c)
{
    if(g_w.stage.compare(0, 5, "sweep") == 0) stage_sweep(c);
    else if(g_w.stage.compare(0, 4, "play") == 0) stage_play(c);
    else stage_fuzz(c);
}
