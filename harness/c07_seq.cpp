// C07 — the sequencer delivers every file event once, in order, at the right time.
// Generated SMF (format 0/1) + independent reference interpretation (vsmf.hpp) vs the raw-event-hook stream.
// Stages/drive modes: tick-exact (opn2_tickEvents called with exactly the returned delay), tick-fixed (fixed step),
// audio (opn2_play with arbitrary request sizes, frame positions through hook H3); gating masks; length.
#include "vseq.hpp"

static const char *harness_name() { return "c07_seq"; }
static void harness_init() { default_bank(); }

struct Gate { std::vector<int> track_on; int solo; bool chan_on[16]; };

static std::string cls_name(int c) { static const char *n[] = {"noteon", "noteoff", "ctrl", "noteat", "sysex", "meta", "eot"}; return n[c]; }

// Compare one track's delivered events with its expected list, tick group by tick group.
// Returns false after reporting the first discrepancy.
static bool match_track(Case &c, const std::vector<XE> &exp, const std::vector<DEv> &del, int track, const TempoMap &tm, double mult,
                        int drive, double g, long rate, double &worst_dt, const std::string &ctx)
{
    size_t di = 0;
    bool sounding[16][128]; memset(sounding, 0, sizeof(sounding));
    size_t i = 0;
    uint64_t last_nonlone_tick = 0;
    while(i < exp.size())
    {
        size_t j = i; while(j < exp.size() && exp[j].tick == exp[i].tick) j++;
        size_t n = j - i;
        if(di + n > del.size())
        {
            c.violation("oracle:C07:event-not-delivered", vfmt("track %d: %zu expected events at tick %llu but only %zu delivered events left (first missing: %s); %s", track, n, (unsigned long long)exp[i].tick, del.size() - di, exp[i + (del.size() - di)].e.str().c_str(), ctx.c_str()));
            return false;
        }
        // multiset equality of the group
        std::vector<int> used(n, 0);
        std::vector<int> pos_of_expected(n, -1);        // delivered position (0..n-1) of expected k
        for(size_t d = 0; d < n; d++)
        {
            bool found = false;
            for(size_t k = 0; k < n && !found; k++) if(!used[k] && exp[i + k].e.same(del[di + d])) { used[k] = 1; pos_of_expected[k] = (int)d; found = true; }
            if(!found)
            {
                c.violation("oracle:C07:unexpected-or-misplaced-event", vfmt("track %d tick %llu: delivered %s is not among the %zu events the file has at this tick (expected first: %s); %s", track, (unsigned long long)exp[i].tick, del[di + d].str().c_str(), n, exp[i].e.str().c_str(), ctx.c_str()));
                return false;
            }
        }
        // order relations inside the tick
        bool lone_eot = (n == 1 && exp[i].cls == CL_EOT);
        for(size_t a = 0; a < n; a++) for(size_t b = a + 1; b < n; b++)
        {
            const XE &A = exp[i + a], &B = exp[i + b];
            bool inverted = pos_of_expected[a] > pos_of_expected[b];
            // R1: same class keeps file order (note-offs: only for the same key)
            if(A.cls == B.cls && A.cls != CL_NOTEOFF && (A.cls != CL_META || A.e.subtype == B.e.subtype) && inverted)
            { c.violation("oracle:C07:same-class-order-inverted:" + cls_name(A.cls), vfmt("track %d tick %llu: %s and %s delivered in reverse file order; %s", track, (unsigned long long)A.tick, A.e.str().c_str(), B.e.str().c_str(), ctx.c_str())); return false; }
            if(A.cls == CL_NOTEOFF && B.cls == CL_NOTEOFF && A.e.channel == B.e.channel && A.e.data[0] == B.e.data[0] && inverted)
            { c.violation("oracle:C07:same-class-order-inverted:noteoff-same-key", vfmt("track %d tick %llu: two note-offs of key %d swapped; %s", track, (unsigned long long)A.tick, A.e.data[0], ctx.c_str())); return false; }
            // R2: controllers / program / bend / channel pressure before note-ons of the tick
            if(A.cls == CL_NOTEON && B.cls == CL_CTRL && !inverted)
            { c.violation("oracle:C07:controller-after-noteon-in-same-tick", vfmt("track %d tick %llu: %s stays after note-on %s; %s", track, (unsigned long long)A.tick, B.e.str().c_str(), A.e.str().c_str(), ctx.c_str())); return false; }
            if(A.cls == CL_CTRL && B.cls == CL_NOTEON && inverted)
            { c.violation("oracle:C07:controller-after-noteon-in-same-tick", vfmt("track %d tick %llu: %s moved behind note-on %s; %s", track, (unsigned long long)A.tick, A.e.str().c_str(), B.e.str().c_str(), ctx.c_str())); return false; }
        }
        // R3 / R4: note-offs relative to note-ons
        for(size_t a = 0; a < n; a++) if(exp[i + a].cls == CL_NOTEOFF)
        {
            const XE &A = exp[i + a];
            int ch = A.e.channel, key = A.e.data[0] & 127;
            bool first_off_of_key = true;
            for(size_t b = 0; b < a; b++) if(exp[i + b].cls == CL_NOTEOFF && exp[i + b].e.channel == ch && (exp[i + b].e.data[0] & 127) == key) first_off_of_key = false;
            if(sounding[ch][key] && first_off_of_key)
            {   // R3: before every note-on of the tick
                for(size_t b = 0; b < n; b++) if(exp[i + b].cls == CL_NOTEON && pos_of_expected[b] < pos_of_expected[a])
                { c.violation("oracle:C07:noteoff-of-sounding-note-after-noteon", vfmt("track %d tick %llu: note-off of sounding key %d delivered after note-on %s; %s", track, (unsigned long long)A.tick, key, exp[i + b].e.str().c_str(), ctx.c_str())); return false; }
            }
            else if(!sounding[ch][key])
            {   // R4: a note started in this tick is released after its own note-on when the file says so
                for(size_t b = 0; b < a; b++) if(exp[i + b].cls == CL_NOTEON && exp[i + b].e.channel == ch && (exp[i + b].e.data[0] & 127) == key && pos_of_expected[b] > pos_of_expected[a])
                { c.violation("oracle:C07:zero-length-note-off-before-its-noteon", vfmt("track %d tick %llu: key %d note-off delivered before the note-on that precedes it in the file; %s", track, (unsigned long long)A.tick, key, ctx.c_str())); return false; }
            }
        }
        // R5: the note-ons and note-offs of one key keep their file order inside the tick (after the note-off that shuts a note sounding
        // since an earlier tick, which R3 puts in front)
        for(size_t a = 0; a < n; a++) if(exp[i + a].cls == CL_NOTEON || exp[i + a].cls == CL_NOTEOFF)
        {
            const XE &A = exp[i + a];
            int ch = A.e.channel, key = A.e.data[0] & 127;
            bool first_of_key = true;
            for(size_t b = 0; b < a; b++) if((exp[i + b].cls == CL_NOTEON || exp[i + b].cls == CL_NOTEOFF) && exp[i + b].e.channel == ch && (exp[i + b].e.data[0] & 127) == key) first_of_key = false;
            if(!first_of_key) continue;
            bool skip_first_off = sounding[ch][key];
            int prev_pos = -1; size_t prev_b = 0; int nkey = 0;
            for(size_t b = a; b < n; b++) if((exp[i + b].cls == CL_NOTEON || exp[i + b].cls == CL_NOTEOFF) && exp[i + b].e.channel == ch && (exp[i + b].e.data[0] & 127) == key)
            {
                nkey++;
                if(skip_first_off && exp[i + b].cls == CL_NOTEOFF) { skip_first_off = false; continue; }
                if(pos_of_expected[b] < prev_pos)
                { c.violation("oracle:C07:same-key-note-order-changed", vfmt("track %d tick %llu: key %d: %s precedes %s in the file but was delivered after it (key %s before this tick); %s", track, (unsigned long long)A.tick, key, exp[i + prev_b].e.str().c_str(), exp[i + b].e.str().c_str(), sounding[ch][key] ? "sounding" : "silent", ctx.c_str())); return false; }
                prev_pos = pos_of_expected[b]; prev_b = b;
            }
            if(nkey >= 3) count("ticks_with_a_key_struck_or_released_three_times");
        }
        // update the sounding state in the order the statement prescribes: the first note-off of a key that was sounding before the tick
        // takes effect first (R3), everything else in file order (R5)
        {
            bool start[16][128]; memcpy(start, sounding, sizeof(start));
            bool first_off_done[16][128]; memset(first_off_done, 0, sizeof(first_off_done));
            for(size_t a = 0; a < n; a++) { const XE &A = exp[i + a]; if(A.cls == CL_NOTEOFF) { int ch = A.e.channel, key = A.e.data[0] & 127; if(start[ch][key] && !first_off_done[ch][key]) { first_off_done[ch][key] = true; sounding[ch][key] = false; } } }
            memset(first_off_done, 0, sizeof(first_off_done));
            for(size_t a = 0; a < n; a++)
            {
                const XE &A = exp[i + a];
                int ch = A.e.channel, key = A.cls == CL_NOTEON || A.cls == CL_NOTEOFF ? (A.e.data[0] & 127) : 0;
                if(A.cls == CL_NOTEON) sounding[ch][key] = true;
                if(A.cls == CL_NOTEOFF) { if(start[ch][key] && !first_off_done[ch][key]) { first_off_done[ch][key] = true; continue; } sounding[ch][key] = false; }
            }
        }
        // timing of the group
        uint64_t tick_eff = lone_eot ? last_nonlone_tick : exp[i].tick;     // a lone End-of-Track is delivered with the preceding row
        if(!lone_eot) last_nonlone_tick = exp[i].tick;
        double T = (double)tm.seconds(tick_eff) / mult;
        for(size_t d = 0; d < n; d++)
        {
            const DEv &e = del[di + d];
            if(drive == 0)
            {
                double dt = fabs(e.acc_t - T);
                if(dt > worst_dt) worst_dt = dt;
                double tol = g * 0.5 / mult + 1e-9 * (double)(e.call + 10) + T * 1e-12;   // granularity is compared with song time inside the library
                if(dt > tol) { c.violation("oracle:C07:delivery-time-off:tick-exact", vfmt("track %d tick %llu: %s delivered at %.9f s, reference %.9f s (diff %.3g, tolerance %.3g); %s", track, (unsigned long long)exp[i].tick, e.str().c_str(), e.acc_t, T, e.acc_t - T, tol, ctx.c_str())); return false; }
            }
            else if(drive == 1)
            {
                double eps = 1e-9 * (double)(e.call + 10) + T * 1e-12;
                bool early = e.acc_t < T - g * 0.5 / mult - eps;
                bool late = e.call > 1 && e.prev_acc_t >= T - g * 0.5 / mult + eps;
                if(early) { c.violation("oracle:C07:delivery-time-off:fixed-step:early", vfmt("track %d tick %llu: %s delivered in the call at %.9f s, reference %.9f s, granularity %.3g; %s", track, (unsigned long long)exp[i].tick, e.str().c_str(), e.acc_t, T, g, ctx.c_str())); return false; }
                if(late) { c.violation("oracle:C07:delivery-time-off:fixed-step:late", vfmt("track %d tick %llu: %s delivered in the call at %.9f s although the previous call at %.9f s already covered reference %.9f s (granularity %.3g); %s", track, (unsigned long long)exp[i].tick, e.str().c_str(), e.acc_t, e.prev_acc_t, T, g, ctx.c_str())); return false; }
            }
            else
            {
                double F = (double)e.frames, ref = (double)rate * T;
                double slack = 1.0 + ref * 1e-9;
                if(F > ref + 1.0 + slack) { c.violation("oracle:C07:delivery-time-off:audio:late", vfmt("track %d tick %llu: %s handed over after %.0f frames, reference %.2f frames; %s", track, (unsigned long long)exp[i].tick, e.str().c_str(), F, ref, ctx.c_str())); return false; }
                if(F < ref - 512.0 - 1.0 - slack) { c.violation("oracle:C07:delivery-time-off:audio:early", vfmt("track %d tick %llu: %s handed over after %.0f frames, reference %.2f frames (more than one 512-frame period early); %s", track, (unsigned long long)exp[i].tick, e.str().c_str(), F, ref, ctx.c_str())); return false; }
                double dt = (ref - F); if(dt > worst_dt) worst_dt = dt;
            }
        }
        di += n; i = j;
    }
    if(di != del.size())
    {
        c.violation("oracle:C07:extra-event-delivered", vfmt("track %d: %zu delivered events beyond the file's %zu (first extra: %s); %s", track, del.size() - di, exp.size(), del[di].str().c_str(), ctx.c_str()));
        return false;
    }
    return true;
}

static void run_case(Case &c)
{
    Rng &r = c.rng;
    SongOpts so; so.max_tracks = 8; so.max_events = (int)g_w.optnum("maxevents", 40); so.tempo_changes = true; so.lone_eot = true; so.big_deltas = r.chance(0.1);
    so.game_ccs = r.chance(0.5) ? 0 : r.chance(0.5) ? 1 : 2;
    so.devices = r.chance(0.3);       // tracks name their MIDI port (FF 09): their channels are 16+ inside the player
    so.empty_tracks = true;
    Song song = gen_song(r, so);
    // keep songs short in real time: slow tempi with big divisions make audio-driven runs expensive
    std::vector<uint8_t> file = serialize_song(song);
    TempoMap tm; tm.build(song);
    int nt = (int)song.tracks.size();
    uint64_t last_tick = 0, last_nonlone = 0;
    for(int t = 0; t < nt; t++)
    {
        const std::vector<SEv> &ev = song.tracks[(size_t)t].ev;
        for(size_t i = 0; i < ev.size(); i++) { last_tick = std::max(last_tick, ev[i].tick); if(!ev[i].is_eot()) last_nonlone = std::max(last_nonlone, ev[i].tick); }
    }
    double ref_len = (double)tm.seconds(last_nonlone);
    int drive = g_w.stage == "tick-exact" ? 0 : g_w.stage == "tick-fixed" ? 1 : 2;
    static const double mults[] = {1.0, 1.0, 0.5, 2.0, 3.7, 0.25};
    double mult = r.pick(mults);
    if(drive == 2 && ref_len / mult > 20.0) { mult = ref_len / 10.0; }          // cap audio work
    if(ref_len / mult > 3600.0) mult = ref_len / 600.0;
    long rate = r.pick((const long[]){8000, 11025, 22050, 44100, 48000});
    double g = drive == 2 ? 1.0 / rate : r.pick((const double[]){1e-6, 1e-4, 1e-3, 0.01});
    double dt_fixed = r.pick((const double[]){1e-3, 5e-3, 0.02, 0.1});
    if(drive == 1 && ref_len / mult / dt_fixed > 200000) dt_fixed = ref_len / mult / 100000;
    if(drive == 1 && r.chance(0.5)) g = dt_fixed;

    OPN2_MIDIPlayer *d = NULL;
    API("opn2_init", d = opn2_init(rate));
    if(!d) { c.violation("oracle:init-failed", "opn2_init returned NULL"); return; }
    int rc = 0;
    API("opn2_setNumChips", rc = opn2_setNumChips(d, 1));
    API("opn2_switchEmulator", rc = opn2_switchEmulator(d, OPNMIDI_EMU_GENS));
    { ExactBuf b(default_bank()); API("opn2_openBankData", rc = opn2_openBankData(d, b.p, (long)b.n)); }
    Capture cap; cap.attach(d);
    if(r.chance(0.35))
    {   // the device has played (part of) another song before: nothing of its per-track play state may survive the load
        Rng rp(r.next(), 11, 0);
        SongOpts po; po.max_tracks = 8; po.max_events = 20; po.tempo_changes = true; po.devices = rp.chance(0.5);
        Song prev = gen_song(rp, po);
        std::vector<uint8_t> pf = serialize_song(prev);
        int rc0 = 0;
        { ExactBuf in(pf); API("opn2_openData", rc0 = opn2_openData(d, in.p, (unsigned long)in.n)); }
        if(rc0 == 0)
        {
            double plen = 0; API("opn2_totalTimeLength", plen = opn2_totalTimeLength(d));
            double until = rp.chance(0.3) ? plen + 1.0 : rp.unit() * plen, acc = 0, dly = 0; long g0 = 0;
            while(g0++ < 200000 && acc < until) { double nd = 0; API("opn2_tickEvents", nd = opn2_tickEvents(d, dly, 1e-6)); acc += dly; dly = std::min(nd, 5.0); int e0 = 0; API("opn2_atEnd", e0 = opn2_atEnd(d)); if(e0) break; }
            count("loads_after_a_partly_played_song");
        }
        cap.clear();
    }
    { ExactBuf in(file); API("opn2_openData", rc = opn2_openData(d, in.p, (unsigned long)in.n)); }
    if(rc != 0) { c.violation("oracle:C07:wellformed-file-rejected", vfmt("generated SMF (%zu bytes, format %d, %d tracks, division %d) rejected: %s", file.size(), song.format, nt, song.division, opn2_errorInfo(d))); opn2_close(d); return; }
    API("opn2_setTempo", opn2_setTempo(d, mult));

    // gating
    Gate gate; gate.solo = -1; gate.track_on.assign((size_t)nt, 1); for(int i = 0; i < 16; i++) gate.chan_on[i] = true;
    bool gated = r.chance(0.4);
    if(gated)
    {
        for(int t = 0; t < nt; t++) if(r.chance(0.3)) { gate.track_on[(size_t)t] = 0; API("opn2_setTrackOptions", rc = opn2_setTrackOptions(d, (size_t)t, OPNMIDI_TrackOption_Off)); if(rc != 0) c.violation("oracle:C07:track-option-rejected", vfmt("setTrackOptions(%d, off) returned %d", t, rc)); }
        if(r.chance(0.3)) { gate.solo = (int)r.below((uint32_t)nt); API("opn2_setTrackOptions", rc = opn2_setTrackOptions(d, (size_t)gate.solo, OPNMIDI_TrackOption_Solo)); }
        for(int ch = 0; ch < 16; ch++) if(r.chance(0.15)) { gate.chan_on[ch] = false; API("opn2_setChannelEnabled", rc = opn2_setChannelEnabled(d, (size_t)ch, 0)); }
    }
    auto track_enabled = [&](int t) { return gate.track_on[(size_t)t] && (gate.solo < 0 || gate.solo == t); };

    double len = 0; API("opn2_totalTimeLength", len = opn2_totalTimeLength(d));
    if(getenv("VERIF_SONG_DUMP")) for(int t = 0; t < nt; t++) for(size_t i = 0; i < song.tracks[(size_t)t].ev.size(); i++) { const SEv &e = song.tracks[(size_t)t].ev[i];
        if(e.is_tempo() || e.is_eot() || i + 2 >= song.tracks[(size_t)t].ev.size()) fprintf(stderr, "[song] trk %d tick %llu st %02x meta %02x data %s t=%.9f\n", t, (unsigned long long)e.tick, e.status, e.meta, hexs(e.data, 8).c_str(), (double)tm.seconds(e.tick)); }
    if(getenv("VERIF_TICK_DUMP")) { unsigned long long want = strtoull(getenv("VERIF_TICK_DUMP"), NULL, 10); for(int t = 0; t < nt; t++) for(size_t i = 0; i < song.tracks[(size_t)t].ev.size(); i++) { const SEv &e = song.tracks[(size_t)t].ev[i];
        if(e.tick == want) fprintf(stderr, "[tick] trk %d idx %zu st %02x meta %02x data %s\n", t, i, e.status, e.meta, hexs(e.data, 8).c_str()); } }
    if(getenv("VERIF_LEN_TRACE")) fprintf(stderr, "[len] case %ld div %d tracks %d len-ref %.3g ref %.6f\n", c.k, song.division, nt, len - (ref_len + 1.0), ref_len);
    if(fabs(len - (ref_len + 1.0)) > 1e-6 + ref_len * 1e-9)
        c.violation("oracle:C07:reported-length", vfmt("opn2_totalTimeLength %.9f, reference (last event %.9f s + 1 s) = %.9f; format %d tracks %d division %d", len, ref_len, ref_len + 1.0, song.format, nt, song.division));

    // which port does a track play on? Port 0 = no port name, or the first name that is played in the whole song (the player numbers
    // the names in the order they are first met); decided only where the file leaves no doubt
    std::vector<int> port0((size_t)nt, 1);       // 1 surely port 0, 0 surely another port, -1 not decided here
    {
        std::string first_name; uint64_t first_tick = ~0ull; bool any = false;
        for(int t = 0; t < nt; t++) for(size_t i = 0; track_enabled(t) && i < song.tracks[(size_t)t].ev.size(); i++)      // a gated track's port names are not played
        {
            const SEv &e = song.tracks[(size_t)t].ev[i];
            if(e.status == 0xFF && e.meta == 0x09 && e.tick < first_tick) { first_tick = e.tick; first_name.assign(e.data.begin(), e.data.end()); any = true; }
        }
        for(int t = 0; t < nt && any; t++)
        {
            const std::vector<SEv> &ev = song.tracks[(size_t)t].ev;
            int names = 0, same = 0; bool at_start = false, seen_chan = false;
            for(size_t i = 0; i < ev.size(); i++)
            {
                if(ev[i].status == 0xFF && ev[i].meta == 0x09) { if(!names && ev[i].tick == 0 && !seen_chan) at_start = true; names++; if(std::string(ev[i].data.begin(), ev[i].data.end()) == first_name) same++; }
                else if(ev[i].is_chan()) seen_chan = true;
            }
            if(names == 0 || same == names) port0[(size_t)t] = (first_tick == 0 || names == 0) ? 1 : -1;
            else if(same == 0 && at_start) port0[(size_t)t] = 0;
            else port0[(size_t)t] = -1;
            if(names && first_tick != 0) port0[(size_t)t] = -1;      // numbering depends on what is played first: leave it
        }
    }
    size_t cap_seen = 0; bool gating_note_seen = false, enabled_note_missing = false;
    auto after_call = [&]()
    {
        OPNMIDIplay *p = P(d);
        // the last note event handed over in this call
        const DEv *last = NULL;
        for(size_t i = cap_seen; i < cap.ev.size(); i++) if(cap.ev[i].type == 0x9 || cap.ev[i].type == 0x8) last = &cap.ev[i];
        // ... with nothing behind it that could end it again (all-notes-off controllers, resets, port changes, end of track)
        if(last) for(size_t i = (size_t)(last - &cap.ev[0]) + 1; i < cap.ev.size(); i++) if(cap.ev[i].type == 0xFF || cap.ev[i].type == 0xF0 || cap.ev[i].type == 0xF7 || ((cap.ev[i].channel & 7) == (last->channel & 7))) { last = NULL; break; }
        cap_seen = cap.ev.size();
        if(gated && !gating_note_seen)
            for(int ch = 0; ch < 16 && ch < (int)p->m_midiChannels.size(); ch++)
            {
                bool off = !gate.chan_on[ch] || !track_enabled(ch % 8 < nt ? ch % 8 : 0);
                if(off && ch % 8 < nt && !p->m_midiChannels[(size_t)ch].activenotes.empty())
                { gating_note_seen = true; c.violation("oracle:C07:gated-channel-holds-note", vfmt("MIDI channel %d (track %d %s, channel %s) holds an active note", ch, ch % 8, track_enabled(ch % 8) ? "enabled" : "disabled", gate.chan_on[ch] ? "enabled" : "disabled")); }
            }
        // and the other way round: the note-on of an enabled track on a channel that is not disabled starts a note
        if(!last || last->type != 0x9 || last->data.size() < 2 || enabled_note_missing) return;
        int ch = last->channel, t = ch % 8, key = last->data[0] & 127;
        if(t >= nt || !track_enabled(t) || port0[(size_t)t] < 0) return;
        if(port0[(size_t)t] == 1 && !gate.chan_on[ch]) return;               // a disabled channel of the first port: silent (checked above)
        std::vector<OPNMIDIplay::OpnChannel> &cc = VA::chipChannels(p);
        size_t busy = 0; for(size_t i = 0; i < cc.size(); i++) if(!cc[i].users.empty()) busy++;
        if(busy >= cc.size()) return;                                          // polyphony exhausted: C06's business
        bool found = false;
        for(size_t m = (size_t)ch; m < p->m_midiChannels.size() && !found; m += 16)
            if(!p->m_midiChannels[m].find_activenote((unsigned)key).is_end()) found = true;
        count("noteons_of_enabled_channels_checked");
        if(port0[(size_t)t] == 0) count("noteons_on_further_ports_checked");
        if(!found)
        {
            if(getenv("VERIF_C07_DBG")) { fprintf(stderr, "[dbg] channels %zu first-port-status:", p->m_midiChannels.size()); for(int q = 0; q < nt; q++) fprintf(stderr, " %d", port0[(size_t)q]); fprintf(stderr, "\n"); for(int q = 0; q < nt; q++) for(size_t i = 0; i < song.tracks[(size_t)q].ev.size(); i++) { const SEv &e = song.tracks[(size_t)q].ev[i]; if(e.status == 0xFF && e.meta == 0x09) fprintf(stderr, "[dbg] trk %d idx %zu tick %llu name %s\n", q, i, (unsigned long long)e.tick, std::string(e.data.begin(), e.data.end()).c_str()); } for(size_t m = 0; m < p->m_midiChannels.size(); m++) if(!p->m_midiChannels[m].activenotes.empty()) fprintf(stderr, "[dbg] midi channel %zu has notes\n", m); }
            enabled_note_missing = true;
            c.violation(vfmt("oracle:C07:note-of-enabled-channel-not-started:%s", port0[(size_t)t] == 0 ? (gate.chan_on[ch] ? "further-port" : "further-port:same-number-disabled-on-first-port") : "first-port"),
                        vfmt("track %d (enabled, %s) note-on channel %d key %d was handed over but no MIDI channel %d(+16k) holds the note afterwards although %zu of %zu chip channels are free; channel %d of the first port is %s",
                             t, port0[(size_t)t] == 0 ? "on a further MIDI port" : "first port", ch, key, ch, cc.size() - busy, cc.size(), ch, gate.chan_on[ch] ? "enabled" : "disabled"));
        }
    };

    // The measured playback may be a replay: the song has been played (partly or to its end) before and was rewound. Everything the
    // statement says holds for that playback as well (tick-driven only: through the audio call a rewind keeps the unplayed delay of the
    // old position, which no property pins down).
    if(drive != 2 && r.chance(0.3))
    {
        const double until = r.chance(0.4) ? 1e300 : r.unit() * len / mult;
        double acc = 0, dly = 0; long g0 = 0;
        while(g0++ < 2000000)
        {
            double nd = 0; API("opn2_tickEvents", nd = opn2_tickEvents(d, dly, g)); acc += dly;
            int e0 = 0; API("opn2_atEnd", e0 = opn2_atEnd(d));
            if(e0 || acc >= until) break;
            dly = nd;
        }
        API("opn2_positionRewind", opn2_positionRewind(d));
        cap.clear();
        count("replays_after_a_rewind");
    }
    // drive
    short pcm[2 * 4096 + 16];
    long guard = 0;
    if(drive == 0)
    {
        double delay = 0;
        while(guard++ < 2000000)
        {
            cap.prev_acc_t = cap.acc_t; cap.acc_t += delay; cap.call++;
            double nd = 0; API("opn2_tickEvents", nd = opn2_tickEvents(d, delay, g));
            after_call();
            int end = 0; API("opn2_atEnd", end = opn2_atEnd(d));
            if(end) break;
            delay = nd;
        }
    }
    else if(drive == 1)
    {
        bool first = true;
        while(guard++ < 2000000)
        {
            double step = first ? 0.0 : dt_fixed; first = false;
            cap.prev_acc_t = cap.acc_t; cap.acc_t += step; cap.call++;
            double nd = 0; API("opn2_tickEvents", nd = opn2_tickEvents(d, step, g)); (void)nd;
            after_call();
            int end = 0; API("opn2_atEnd", end = opn2_atEnd(d));
            if(end) break;
        }
    }
    else
    {
        while(guard++ < 200000)
        {
            int want = r.chance(0.05) ? 8192 : (r.chance(0.3) ? 2 * (int)r.range(1, 40) + (int)r.below(2) : 2 * (int)r.range(1, 2100) + (int)r.below(2));
            if(want > 8192) want = 8192;
            cap.call++;
            int got = 0; API("opn2_play", got = opn2_play(d, want, pcm));
            after_call();
            int end = 0; API("opn2_atEnd", end = opn2_atEnd(d));
            if(end || got == 0) break;
        }
    }
    if(guard >= (drive == 2 ? 200000 : 2000000)) { c.inconclusive = true; count("inconclusive_song_did_not_end"); }

    // split the delivered stream by track
    std::vector<std::vector<DEv> > del((size_t)nt);
    std::vector<DEv> eots;
    size_t begin_markers = 0;
    for(size_t i = 0; i < cap.ev.size(); i++)
    {
        const DEv &e = cap.ev[i];
        if(is_song_begin_marker(e)) { begin_markers++; if(e.acc_t != 0 && drive != 2) c.violation("oracle:C07:song-begin-marker-not-at-zero", vfmt("synthetic song-begin marker delivered at %.9f", e.acc_t)); continue; }
        if(e.type == 0xFF && e.subtype == 0x09) { count("port_name_events_delivered"); continue; }     // not attributed (names are shared between tracks)
        int t = track_of(e, nt);
        if(e.type == 0xFF && e.subtype == 0xE1 && e.data.empty() && song.hmi_track >= 0) { t = song.hmi_track; count("cc110_loop_start_markers_delivered"); }
        if(t == -2) { eots.push_back(e); continue; }
        if(t < 0 || t >= nt) { c.violation("oracle:C07:unexpected-or-misplaced-event", vfmt("delivered event %s cannot be attributed to any track of the file (tracks %d)", e.str().c_str(), nt)); continue; }
        del[(size_t)t].push_back(e);
    }
    count("events_delivered", (long long)cap.ev.size());
    if(begin_markers > 1) c.violation("oracle:C07:extra-event-delivered", vfmt("%zu song-begin markers delivered", begin_markers));

    double worst = 0;
    std::string ctx = vfmt("format %d, %d tracks, division %d, running status %d, tempo x%.3g, drive %s, g %.3g, rate %ld, gated %d", song.format, nt, song.division, song.running_status ? 1 : 0, mult,
                           drive == 0 ? "tick-exact" : drive == 1 ? "tick-fixed" : "audio", g, rate, gated ? 1 : 0);
    size_t eots_expected = 0;
    size_t total_expected = 0;
    int tempo_events = 0;
    for(int t = 0; t < nt && !c.inconclusive; t++)
    {
        std::vector<XE> exp;
        const std::vector<SEv> &ev = song.tracks[(size_t)t].ev;
        bool en = track_enabled(t);
        for(size_t i = 0; i < ev.size(); i++)
        {
            if(ev[i].status == 0xFF && ev[i].meta == 0x09) continue;
            XE x = expected_of(ev[i], t);
            // the first CC110 of a file is the sequencer's loop start marker: handed over as the internal marker event, not as a controller
            if(x.cls == CL_CTRL && x.e.type == 0xB && x.e.data.size() == 2 && x.e.data[0] == 110 && song.hmi_track == t) { x.cls = CL_META; x.e.type = 0xFF; x.e.subtype = 0xE1; x.e.data.clear(); }
            if(x.cls == CL_EOT) { if(en) eots_expected++; continue; }
            if(ev[i].is_tempo()) tempo_events++;
            if(!en && !(t == 0 && ev[i].is_tempo())) continue;     // gated tracks deliver nothing, except track 0's tempo events
            exp.push_back(x);
        }
        total_expected += exp.size();
        if(!match_track(c, exp, del[(size_t)t], t, tm, mult, drive, g, rate, worst, ctx)) break;
    }
    if(!c.inconclusive && g_w.violations_in_case == 0)
    {
        if(eots.size() != eots_expected) c.violation("oracle:C07:end-of-track-count", vfmt("%zu End-of-Track events delivered, %zu enabled tracks; %s", eots.size(), eots_expected, ctx.c_str()));
    }
    count("events_compared", (long long)total_expected);
    count("worst_timing_error_ns_or_frames_max1", 0);
    API("opn2_close", opn2_close(d));

    c.nontrivial = total_expected >= 20;
    int divc = song.division < 24 ? 0 : song.division < 200 ? 1 : song.division < 2000 ? 2 : 3;
    c.sig = vfmt("t%d|d%d|tempo%d|gate%d|drive%d|m%d", nt, divc, std::min(tempo_events, 3), gated ? (gate.solo >= 0 ? 2 : 1) : 0, drive, mult == 1.0 ? 0 : 1);
    if(c.nontrivial) cover(c.sig);
    c.sample(std::string("{\"file_bytes\":") + vfmt("%zu", file.size()) + ",\"head_hex\":" + jstr(hexs(file, 32)) + ",\"context\":" + jstr(ctx) + ",\"events_expected\":" + vfmt("%zu", total_expected) +
             ",\"events_delivered\":" + vfmt("%zu", cap.ev.size()) + ",\"worst_timing_error\":" + vfmt("%.3g", worst) + "}");
}
