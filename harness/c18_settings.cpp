// C18 — settings are transactional: accepted values stick, rejected values change nothing.
// One case = one instance driven through a random history of setters (in-range, boundary, invalid arguments), resets,
// emulator switches, valid and hostile bank / music loads, next to a MODEL of the documented semantics (DESIGN.md A.7).
// After every call: return-value class, getter vector against the model's prediction, SysEx device-id probe; after
// resets / switches / loads / failures: callback probes (note, debug, raw event, loop start / end through a looped one-bar
// song) and - scheduled - a differential probe: a FRESH instance configured only with what the model believes is in force
// plays the same short phrase; register-write logs (hook H1) must be equal and, when the chips of the instance under test
// have just been re-created, the PCM must be bit-identical.
#include "vsmf.hpp"
#include "vconv.hpp"
#include <limits.h>

// The GENS core reads some emulator state before writing it: fresh heap memory is constant-filled so that two instances
// with the same history render the same PCM (as in the C13 harness).
extern "C" const char *__asan_default_options() { return "max_malloc_fill_size=268435456:malloc_fill_byte=0"; }

static const char *harness_name() { return "c18_settings"; }

typedef std::vector<uint8_t> Bytes;

// ------------------------------------------------------------------------------------------------------------
// generated banks (header carries non-default LFO / chip type, bank ids and instruments differ per image) and songs
// ------------------------------------------------------------------------------------------------------------
struct BankDef { Bytes img; int lfo_en, lfo_freq, chip_type; std::vector<OPN2_BankId> present, absent; };
static std::vector<BankDef> g_banks;

static OPN2_BankId mkid(int perc, int msb, int lsb) { OPN2_BankId id; id.percussive = (uint8_t)perc; id.msb = (uint8_t)msb; id.lsb = (uint8_t)lsb; return id; }

static void build_banks()
{
    static const int lfo[4] = {0x00, 0x08 | 5, 0x08 | 2, 0x03};
    static const int chip[4] = {0, 0, 1, 1};
    for(int k = 0; k < 4; k++)
    {
        int nm = (k == 1 || k == 2) ? 2 : 1, np = (k == 3) ? 2 : 1;
        WOPNFile *f = WOPN_Init((uint16_t)nm, (uint16_t)np);
        f->version = 2; f->lfo_freq = (uint8_t)lfo[k]; f->chip_type = (uint8_t)chip[k];
        BankDef b; b.lfo_en = (lfo[k] & 8) ? 1 : 0; b.lfo_freq = lfo[k] & 7; b.chip_type = chip[k];
        for(int s = 0; s < 2; s++)
        {
            int n = s ? np : nm;
            WOPNBank *arr = s ? f->banks_percussive : f->banks_melodic;
            for(int i = 0; i < n; i++)
            {
                int msb = 0, lsb = 0;
                if(i == 1) { if(s == 0 && k == 1) msb = 1; else if(s == 0) lsb = 5; else lsb = 2; }
                arr[i].bank_midi_msb = (uint8_t)msb; arr[i].bank_midi_lsb = (uint8_t)lsb;
                snprintf(arr[i].bank_name, sizeof(arr[i].bank_name), "b%d.%d.%d", k, s, i);
                b.present.push_back(mkid(s, msb, lsb));
                for(unsigned j = 0; j < 128; j++)
                {
                    WOPNInstrument &in = arr[i].ins[j];
                    unsigned id = j + 131u * (unsigned)k + 17u * (unsigned)i;
                    make_instrument(in, id, s != 0);
                    in.lfosens = (uint8_t)(((id * 7) & 0x07) | (((id >> 1) & 3) << 4));   // the LFO is audible
                    if(id & 1) in.operators[3].amdecay1_60 |= 0x80;
                    in.delay_on_ms = 40; in.delay_off_ms = 12;                           // short release: cheap to drain
                }
            }
        }
        static const int cand[][3] = {{0, 0, 0}, {0, 1, 0}, {0, 0, 5}, {1, 0, 0}, {1, 0, 2}, {0, 3, 3}, {1, 0, 9}};
        for(size_t q = 0; q < sizeof(cand) / sizeof(cand[0]); q++)
        {
            bool have = false;
            for(size_t p = 0; p < b.present.size(); p++) if(b.present[p].percussive == cand[q][0] && b.present[p].msb == cand[q][1] && b.present[p].lsb == cand[q][2]) have = true;
            if(!have) b.absent.push_back(mkid(cand[q][0], cand[q][1], cand[q][2]));
        }
        size_t sz = WOPN_CalculateBankFileSize(f, 2);
        b.img.resize(sz);
        WOPN_SaveBankToMem(f, b.img.data(), sz, 2, 0);
        WOPN_Free(f);
        g_banks.push_back(b);
    }
}

struct SongDef { Bytes smf; int notes_track[2]; int ch_of_track[2]; double seconds; };
static std::vector<SongDef> g_songs;

static void build_songs()
{
    for(int v = 0; v < 2; v++)
    {
        Song s; s.format = 1; s.division = 96; s.running_status = false; s.tracks.resize(2);
        SongDef sd; sd.seconds = 1.0;                      // one 4/4 bar at 250000 us per quarter
        sd.ch_of_track[0] = v ? 2 : 0; sd.ch_of_track[1] = v ? 3 : 1;
        sd.notes_track[0] = v ? 4 : 3; sd.notes_track[1] = v ? 1 : 2;
        for(int t = 0; t < 2; t++)
        {
            std::vector<SEv> &ev = s.tracks[(size_t)t].ev;
            uint8_t ch = (uint8_t)sd.ch_of_track[t];
            if(t == 0) ev.push_back(mk_tempo(0, 250000));
            ev.push_back(mk_chan(0, (uint8_t)(0xC0 | ch), 5 + 3 * t + v));
            int n = sd.notes_track[t], step = 384 / n;
            for(int i = 0; i < n; i++)
            {
                ev.push_back(mk_chan((uint64_t)(i * step), (uint8_t)(0x90 | ch), 50 + 2 * i + 12 * t, 100));
                ev.push_back(mk_chan((uint64_t)((i + 1) * step), (uint8_t)(0x80 | ch), 50 + 2 * i + 12 * t, 0));
            }
            ev.push_back(mk_meta(384, 0x2F, Bytes()));
        }
        sd.smf = serialize_song(s);
        g_songs.push_back(sd);
    }
}

static std::string g_emu_name[9];
static void harness_init()
{
    build_banks(); build_songs();
    // reference: the name a fresh instance reports after switching to each core (7 = VGM dumper is never used)
    OPN2_MIDIPlayer *d = opn2_init(8000);
    if(d)
    {
        opn2_setNumChips(d, 1);
        for(int e = 0; e <= 8; e++) if(e != 7 && opn2_switchEmulator(d, e) == 0) g_emu_name[e] = opn2_chipEmulatorName(d);
        opn2_close(d);
    }
}

static Bytes hostile_bank(int kind, long param)
{
    Bytes b = g_banks[(size_t)(param & 3)].img;
    Rng r(77, 18, (uint64_t)param);
    switch(kind)
    {
    case 0: { b.clear(); int n = r.range(1, 64); for(int i = 0; i < n; i++) b.push_back((uint8_t)(r.byte() | 1)); if(b.size() > 4) { b[0] = 'X'; } return b; }   // garbage
    case 1: b.resize(13 + r.below((uint32_t)b.size() - 14)); return b;         // truncated (header complete)
    case 2: b[r.below(10)] ^= 0x20; return b;                                   // wrong magic
    case 3: b[11] = 3; return b;                                                // newer version
    case 4: b.clear(); return b;                                                // empty
    default: b.resize(r.below(13)); return b;                                   // cut inside the header
    }
}

static Bytes hostile_music(int kind, long param)
{
    Rng r(78, 18, (uint64_t)param);
    Bytes f = g_songs[(size_t)(param & 1)].smf;
    switch(kind)
    {
    case 0: { f.clear(); put_str(f, "ZZ"); int n = r.range(14, 60); for(int i = 0; i < n; i++) f.push_back(0xFF); return f; }      // no known format
    case 1: f.resize(r.below(14)); return f;                                    // cut inside MThd
    case 2: f[3] = 'x'; return f;                                               // wrong magic
    case 3: f.resize(14 + 8 + r.below(10)); return f;                           // first track cut short
    case 4: { size_t at = 14 + 8 + 4; f[at + 3] = 0xFF; f[at + 4] = 0x51; f[at + 5] = 0xFF; f[at + 6] = 0xFF; f[at + 7] = 0xFF; f[at + 8] = 0x7F; return f; }   // meta length runs past the track: late failure
    case 5: f.clear(); return f;                                                // empty
    default: { f.clear(); put_str(f, "RIFF"); put_le(f, 4, 4); put_str(f, "RMID"); for(int i = 0; i < 6; i++) f.push_back(r.byte()); return f; }
    }
}

// ------------------------------------------------------------------------------------------------------------
// callbacks (two user-data slots so that a stale pointer is seen as well)
// ------------------------------------------------------------------------------------------------------------
struct Cnt { long raw, raw_on[16], note, dbg, ls, le; Cnt() { memset(this, 0, sizeof(*this)); } };
static void cb_raw(void *ud, OPN2_UInt8 type, OPN2_UInt8, OPN2_UInt8 ch, const OPN2_UInt8 *d, size_t n) { Cnt *c = (Cnt *)ud; c->raw++; if(type == 0x9 && ch < 16 && n >= 2 && d && d[1] > 0) c->raw_on[ch]++; }
static void cb_note(void *ud, int, int, int, int, double) { ((Cnt *)ud)->note++; }
static void cb_dbg(void *ud, const char *, ...) { ((Cnt *)ud)->dbg++; }
static void cb_ls(void *ud) { ((Cnt *)ud)->ls++; }
static void cb_le(void *ud) { ((Cnt *)ud)->le++; }
enum { H_RAW, H_NOTE, H_DBG, H_LS, H_LE, H_COUNT };
static const char *hook_name[H_COUNT] = {"raw-event-hook", "note-hook", "debug-message-hook", "loop-start-hook", "loop-end-hook"};
static const char *hook_api[H_COUNT] = {"opn2_setRawEventHook", "opn2_setNoteHook", "opn2_setDebugMessageHook", "opn2_setLoopStartHook", "opn2_setLoopEndHook"};
static long hook_count(const Cnt &c, int h) { return h == H_RAW ? c.raw : h == H_NOTE ? c.note : h == H_DBG ? c.dbg : h == H_LS ? c.ls : c.le; }

// ------------------------------------------------------------------------------------------------------------
// operations
// ------------------------------------------------------------------------------------------------------------
enum Kind { K_NUMCHIPS, K_EMU, K_PCMRATE, K_DEVID, K_LFOEN, K_LFOFREQ, K_CHIPTYPE, K_VOLMODEL, K_ALLOC, K_ARP, K_SCALEMOD, K_FULLBRIGHT, K_SOFTPAN,
            K_LOOPEN, K_LOOPCOUNT, K_HOOKSONLY, K_TEMPO, K_TRACKOPT, K_CHANEN, K_HOOK, K_BANK, K_BANKBAD, K_MUSIC, K_MUSICBAD, K_RESET, K_GETTERS, K_COUNT };
static const char *kind_api[K_COUNT] = {"opn2_setNumChips", "opn2_switchEmulator", "opn2_setRunAtPcmRate", "opn2_setDeviceIdentifier", "opn2_setLfoEnabled", "opn2_setLfoFrequency",
    "opn2_setChipType", "opn2_setVolumeRangeModel", "opn2_setChannelAllocMode", "opn2_setAutoArpeggio", "opn2_setScaleModulators", "opn2_setFullRangeBrightness", "opn2_setSoftPanEnabled",
    "opn2_setLoopEnabled", "opn2_setLoopCount", "opn2_setLoopHooksOnly", "opn2_setTempo", "opn2_setTrackOptions", "opn2_setChannelEnabled", "opn2_set*Hook", "opn2_openBankData", "opn2_openBankData",
    "opn2_openData", "opn2_openData", "opn2_reset", "getters"};
static const char *kind_event[K_COUNT] = {"setNumChips", "switch", "setRunAtPcmRate", "setDeviceIdentifier", "setLfoEnabled", "setLfoFrequency", "setChipType", "setVolumeRangeModel",
    "setChannelAllocMode", "setAutoArpeggio", "setScaleModulators", "setFullRangeBrightness", "setSoftPanEnabled", "setLoopEnabled", "setLoopCount", "setLoopHooksOnly", "setTempo",
    "setTrackOptions", "setChannelEnabled", "setHook", "bankload", "rejected-bankload", "musicload", "rejected-musicload", "reset", "getters"};
// a: main argument; b: second argument; SAME = "the value the model holds" (follow-ups: same bank / emulator / song)
static const long SAME = -424242;
struct Op { int kind; long a, b; bool probe, cbprobe; };
static const double g_tempos[] = {1.0, 0.5, 2.0, 4.0, 0.0, -1.0};

static std::string op_str(const Op &o)
{
    std::string arg;
    if(o.a == SAME) arg = "same"; else if(o.kind == K_TEMPO) arg = vfmt("%g", g_tempos[o.a]); else if(o.kind == K_HOOK) arg = vfmt("%s,%s", hook_name[o.a], o.b < 0 ? "NULL" : o.b ? "fnB" : "fnA");
    else if(o.kind == K_TRACKOPT || o.kind == K_CHANEN || o.kind == K_BANKBAD || o.kind == K_MUSICBAD) arg = vfmt("%ld,%ld", o.a, o.b); else if(o.kind == K_RESET || o.kind == K_GETTERS) arg = ""; else arg = vfmt("%ld", o.a);
    return std::string(kind_event[o.kind]) + "(" + arg + ")" + (o.probe ? "+P" : "") + (o.cbprobe ? "" : "-cb");
}

// ------------------------------------------------------------------------------------------------------------
// model + observation vector
// ------------------------------------------------------------------------------------------------------------
enum { O_CHIPS, O_OBTAINED, O_LFOEN, O_LFOFREQ, O_CHIPTYPE, O_VOL, O_ALLOC, O_ARP, O_LOOPEN, O_LOOPCNT, O_HOOKSONLY, O_TRACKS, O_EMU, NOBS };
static const char *obs_name[NOBS] = {"numChips", "numChipsObtained", "lfoEnabled", "lfoFrequency", "chipType", "volumeModel", "channelAllocMode", "autoArpeggio",
                                     "loopEnabled", "loopCount", "loopHooksOnly", "trackCount", "emulator"};
static const long DONTCARE = -987654;
struct Obs { long v[NOBS]; std::string emu; };

struct Model
{
    long rate; int emu, chips, pcmrate, devid; long chips_req;   // chips: obtained = in force; chips_req: what opn2_getNumChips reports
    int bank;                       // -1: none loaded
    long chipType, vol, lfoEn, lfoFreq;     // overrides: -1 / 0 = bank default
    long alloc, arp; int scaleMod, fullBright, softPan;
    int loopEn, hooksOnly; long loopCount, loopCntInternal; double tempo;
    int hook[H_COUNT];              // -1 NULL, 0/1 user-data slot
    int song;                       // -1 none, -2 unknown content
    int trackOff[2], solo, chanOff[16]; bool switches_known;   // false after a reported discrepancy, until the next load
    long nb_lfoEn, nb_lfoFreq, nb_chipType, nb_vol;   // what an instance without bank reports (adopted at the start)
    long d_lfoEn() const { return lfoEn < 0 ? (bank >= 0 ? g_banks[(size_t)bank].lfo_en : nb_lfoEn) : lfoEn; }
    long d_lfoFreq() const { return lfoFreq < 0 ? (bank >= 0 ? g_banks[(size_t)bank].lfo_freq : nb_lfoFreq) : lfoFreq; }
    long d_chipType() const { return chipType < 0 ? (bank >= 0 ? g_banks[(size_t)bank].chip_type : nb_chipType) : chipType; }
    long d_vol() const { return vol == 0 ? (bank >= 0 ? (long)OPNMIDI_VolumeModel_Generic : nb_vol) : vol; }
    void song_reset() { trackOff[0] = trackOff[1] = 0; solo = -1; for(int i = 0; i < 16; i++) chanOff[i] = 0; switches_known = true; }
    long passes() const { return (!loopEn || hooksOnly) ? 1 : (loopCount < 0 ? -1 : std::max(loopCount, 1L)); }
    bool track_plays(int t) const { return (solo < 0 || solo == t) && !trackOff[t]; }
    Obs predict() const
    {
        Obs o; o.v[O_CHIPS] = chips_req; o.v[O_OBTAINED] = chips; o.v[O_LFOEN] = d_lfoEn(); o.v[O_LFOFREQ] = d_lfoFreq(); o.v[O_CHIPTYPE] = d_chipType(); o.v[O_VOL] = d_vol();
        o.v[O_ALLOC] = alloc; o.v[O_ARP] = arp; o.v[O_LOOPEN] = loopEn; o.v[O_LOOPCNT] = loopCntInternal; o.v[O_HOOKSONLY] = hooksOnly;
        o.v[O_TRACKS] = song >= 0 ? 2 : song == -1 ? 0 : DONTCARE; o.v[O_EMU] = 0; o.emu = g_emu_name[emu];
        return o;
    }
    std::string nondefault() const
    {
        std::string s;
        if(chips != 2) s += "chips,"; if(emu != 0) s += "emu,"; if(pcmrate) s += "pcmrate,"; if(devid) s += "devid,"; if(bank >= 0) s += "bank,"; if(chipType >= 0) s += "chiptype,"; if(vol) s += "vol,";
        if(lfoEn >= 0) s += "lfoen,"; if(lfoFreq >= 0) s += "lfofreq,"; if(alloc != -1) s += "alloc,"; if(arp) s += "arp,"; if(scaleMod) s += "scalemod,"; if(fullBright) s += "bright,"; if(softPan) s += "softpan,";
        if(loopEn) s += "loopen,"; if(loopCount != -1) s += "loopcount,"; if(hooksOnly) s += "hooksonly,"; if(tempo != 1.0) s += "tempo,"; if(song >= 0) s += "song,";
        for(int h = 0; h < H_COUNT; h++) if(hook[h] >= 0) { s += "hooks,"; break; }
        return s;
    }
};

struct Ctx
{
    Case *c; OPN2_MIDIPlayer *d; Tap tap; Model m; Cnt cnt[2];
    bool fresh_chips;               // the chips were re-created and nothing was played or rendered since
    int dbg_serial;
    bool prev_failed; int prev_kind; long prev_arg; std::string prev_api;
    std::vector<std::string> trail; std::set<std::string> reported;
    long n_failed, n_probes, n_ops;
    Ctx(): c(NULL), d(NULL), fresh_chips(true), dbg_serial(0), prev_failed(false), prev_kind(-1), prev_arg(0), n_failed(0), n_probes(0), n_ops(0) {}
    std::string tail(size_t n = 12) const { std::string s; for(size_t i = trail.size() > n ? trail.size() - n : 0; i < trail.size(); i++) s += trail[i] + " "; return s; }
    void violation(const std::string &key, const std::string &detail)
    {
        if(!reported.insert(key).second) return;      // one witness per key and case
        c->violation(key, detail + vfmt("; rate %ld; history tail: ", m.rate) + tail(g_w.optnum("fulltrail", 0) ? 100000 : 12));
    }
};

// what the call in progress is, for key construction
struct OpInfo
{
    int kind; std::string api, event; bool failed; std::set<int> targets; int target_hook; bool target_devid, target_song;
    OpInfo(): kind(-1), failed(false), target_hook(-1), target_devid(false), target_song(false) {}
};

static std::set<int> targets_of(int kind)
{
    std::set<int> t;
    switch(kind)
    {
    case K_NUMCHIPS: t.insert(O_CHIPS); t.insert(O_OBTAINED); break;
    case K_EMU: t.insert(O_EMU); break;
    case K_LFOEN: t.insert(O_LFOEN); break;
    case K_LFOFREQ: t.insert(O_LFOFREQ); break;
    case K_CHIPTYPE: t.insert(O_CHIPTYPE); break;
    case K_VOLMODEL: t.insert(O_VOL); break;
    case K_ALLOC: t.insert(O_ALLOC); break;
    case K_ARP: t.insert(O_ARP); break;
    case K_LOOPEN: t.insert(O_LOOPEN); break;
    case K_LOOPCOUNT: t.insert(O_LOOPCNT); break;
    case K_HOOKSONLY: t.insert(O_HOOKSONLY); break;
    case K_BANK: t.insert(O_LFOEN); t.insert(O_LFOFREQ); t.insert(O_CHIPTYPE); t.insert(O_VOL); break;   // the per-bank overrides return to the image's values
    default: break;
    }
    return t;
}

// key of a discrepancy in `field` seen after the call described by oi
static std::string key_for(const Ctx &x, const OpInfo &oi, const std::string &field, bool is_target, bool is_callback, bool prev_target)
{
    if(oi.failed) return "oracle:C18:failed-call-changed:" + oi.api + ":" + field;
    if(is_target) return "oracle:C18:getter-after-success:" + oi.api;
    if(x.prev_failed && prev_target) return "oracle:C18:rejected-value-applied-later:" + x.prev_api + ":" + oi.event;
    if(is_callback) return "oracle:C18:callback-lost-across:" + oi.event + ":" + field;
    if(field == "device-id") return "oracle:C18:device-id-lost-across:" + oi.event;
    return "oracle:C18:setting-lost-across:" + oi.event + ":" + field;
}

static Obs observe(Ctx &x)
{
    Obs o; OPN2_MIDIPlayer *d = x.d; int v = 0; const char *s = NULL; size_t n = 0;
    API("opn2_getNumChips", v = opn2_getNumChips(d)); o.v[O_CHIPS] = v;
    API("opn2_getNumChipsObtained", v = opn2_getNumChipsObtained(d)); o.v[O_OBTAINED] = v;
    API("opn2_getLfoEnabled", v = opn2_getLfoEnabled(d)); o.v[O_LFOEN] = v;
    API("opn2_getLfoFrequency", v = opn2_getLfoFrequency(d)); o.v[O_LFOFREQ] = v;
    API("opn2_getChipType", v = opn2_getChipType(d)); o.v[O_CHIPTYPE] = v;
    API("opn2_getVolumeRangeModel", v = opn2_getVolumeRangeModel(d)); o.v[O_VOL] = v;
    API("opn2_getChannelAllocMode", v = opn2_getChannelAllocMode(d)); o.v[O_ALLOC] = v;
    API("opn2_getAutoArpeggio", v = opn2_getAutoArpeggio(d)); o.v[O_ARP] = v;
    o.v[O_LOOPEN] = VA::seqLoopEnabled(P(d)) ? 1 : 0; o.v[O_LOOPCNT] = VA::seqLoopCount(P(d)); o.v[O_HOOKSONLY] = VA::seqLoopHooksOnly(P(d)) ? 1 : 0;
    API("opn2_trackCount", n = opn2_trackCount(d)); o.v[O_TRACKS] = (long)n;
    API("opn2_chipEmulatorName", s = opn2_chipEmulatorName(d)); o.emu = s ? s : "(null)"; o.v[O_EMU] = 0;
    count("getter_vectors_taken");
    return o;
}

static std::string obs_val(const Obs &o, int f) { return f == O_EMU ? o.emu : vfmt("%ld", o.v[f]); }
static bool obs_eq(const Obs &a, const Obs &b, int f) { if(f == O_EMU) return a.emu == b.emu; return a.v[f] == DONTCARE || b.v[f] == DONTCARE || a.v[f] == b.v[f]; }

// adopt what the instance reports (three-valued outcomes, and after a reported discrepancy: follow the implementation)
static void adopt(Model &m, const Obs &o, int f)
{
    switch(f)
    {
    case O_CHIPS: m.chips_req = o.v[O_CHIPS]; break;
    case O_OBTAINED: if(o.v[O_OBTAINED] >= 1 && o.v[O_OBTAINED] <= 100) m.chips = (int)o.v[O_OBTAINED]; break;
    case O_LFOEN: m.lfoEn = o.v[f]; break;
    case O_LFOFREQ: m.lfoFreq = o.v[f]; break;
    case O_CHIPTYPE: m.chipType = o.v[f]; break;
    case O_VOL: m.vol = o.v[f]; break;
    case O_ALLOC: m.alloc = o.v[f]; break;
    case O_ARP: m.arp = o.v[f]; break;
    case O_LOOPEN: m.loopEn = (int)o.v[f]; break;
    case O_LOOPCNT: m.loopCntInternal = o.v[f]; break;
    case O_HOOKSONLY: m.hooksOnly = (int)o.v[f]; break;
    case O_TRACKS: if(o.v[f] == 0) m.song = -1; else if(m.song >= 0 && o.v[f] != 2) m.song = -2; else if(m.song == -1) m.song = -2; break;
    case O_EMU: for(int e = 0; e <= 8; e++) if(e != 7 && g_emu_name[e] == o.emu) { m.emu = e; break; } break;
    }
}

static void compare_obs(Ctx &x, const OpInfo &oi, const Obs &got, const Obs &pre)
{
    Obs exp = x.m.predict();
    std::set<int> prev_t = targets_of(x.prev_kind);
    for(int f = 0; f < NOBS; f++)
    {
        bool bad = !obs_eq(got, exp, f), changed = oi.failed && !obs_eq(got, pre, f);
        if(!bad && !changed) continue;
        if(oi.failed && f == O_TRACKS && oi.kind == K_MUSICBAD) { adopt(x.m, got, f); count("rejected_music_dropped_the_loaded_song"); continue; }   // whether the old song survives a rejected load is not stated
        std::string key = key_for(x, oi, obs_name[f], oi.targets.count(f) != 0, false, prev_t.count(f) != 0);
        x.violation(key, vfmt("%s: %s is %s after %s, model expects %s, before the call it was %s", oi.failed ? "call reported failure" : "call reported success / returns nothing", obs_name[f], obs_val(got, f).c_str(),
                              x.trail.back().c_str(), obs_val(exp, f).c_str(), obs_val(pre, f).c_str()));
        adopt(x.m, got, f);
    }
    count("getter_vectors_compared");
}

// ------------------------------------------------------------------------------------------------------------
// SysEx device-id probe (universal real-time master volume; leaves the master volume at its default)
// ------------------------------------------------------------------------------------------------------------
static int send_mv(Ctx &x, int dd, int mm)
{
    uint8_t m[8] = {0xF0, 0x7F, (uint8_t)dd, 0x04, 0x01, 0x00, (uint8_t)mm, 0xF7};
    ExactBuf b(m, 8); int rc = -9;
    API("opn2_rt_systemExclusive", rc = opn2_rt_systemExclusive(x.d, b.p, b.n));
    return rc;
}
static void probe_devid(Ctx &x, const OpInfo &oi)
{
    int id = x.m.devid, other = id == 0 ? 5 : 0;
    int a = send_mv(x, id, 0x40), b = send_mv(x, other, 0x20);
    if(a != 1 || b != 0)
    {
        int now = -1; for(int t = 0; t < 128 && now < 0; t++) if(t != 0x7F && send_mv(x, t, 0x40) == 1) now = t;
        // the rejected identifier of the preceding call in force now?
        bool prev_t = x.prev_kind == K_DEVID && now > 0 && (now == (int)(x.prev_arg & 0x7F) || now == (int)(x.prev_arg & 0x0F));
        x.violation(key_for(x, oi, "device-id", oi.target_devid, false, prev_t),
                    vfmt("master-volume SysEx addressed to the configured device id %d returned %d (expected 1), addressed to id %d returned %d (expected 0), the id in force is %d after %s", id, a, other, b, now, x.trail.back().c_str()));
        if(now >= 0) x.m.devid = now;
    }
    int r = send_mv(x, 0x7F, 0x7F);
    if(r != 1) count("sysex_broadcast_restore_refused");
    count("sysex_probes");
}

// ------------------------------------------------------------------------------------------------------------
// callback probes
// ------------------------------------------------------------------------------------------------------------
static void check_hook(Ctx &x, const OpInfo &oi, int h, const Cnt before[2], bool must_fire, const char *how)
{
    int slot = x.m.hook[h];
    long d0 = hook_count(x.cnt[0], h) - hook_count(before[0], h), d1 = hook_count(x.cnt[1], h) - hook_count(before[1], h);
    bool ok = true;
    for(int s = 0; s < 2; s++) { long dl = s ? d1 : d0; if(s == slot) { if(must_fire && dl < 1) ok = false; } else if(dl != 0) ok = false; }
    count("callbacks_probed");
    if(ok) return;
    std::string key = (!oi.failed && !(oi.target_hook == h) && slot < 0) ? std::string("oracle:C18:unregistered-callback-fired:") + oi.event + ":" + hook_name[h]
                                                                           : key_for(x, oi, hook_name[h], oi.target_hook == h, true, x.prev_kind == K_HOOK);
    if(oi.failed) key = "oracle:C18:failed-call-changed:" + oi.api + ":" + hook_name[h];
    x.violation(key, vfmt("%s: registered with user data %s, calls on slot A %ld, on slot B %ld (%s) after %s", hook_name[h], slot < 0 ? "NULL (unregistered)" : slot ? "B" : "A", d0, d1, how, x.trail.back().c_str()));
    x.m.hook[h] = d0 > 0 ? 0 : d1 > 0 ? 1 : -1;
}

static void probe_rt_hooks(Ctx &x, const OpInfo &oi)
{
    OPN2_MIDIPlayer *d = x.d;
    Cnt before[2] = {x.cnt[0], x.cnt[1]};
    int msb = 2 + x.dbg_serial % 118, lsb = (x.dbg_serial / 118) % 128; x.dbg_serial++;
    API("opn2_rt_controllerChange", opn2_rt_controllerChange(d, 5, 0, (uint8_t)msb));
    API("opn2_rt_controllerChange", opn2_rt_controllerChange(d, 5, 32, (uint8_t)lsb));
    API("opn2_rt_patchChange", opn2_rt_patchChange(d, 5, 1));
    int on = 0; API("opn2_rt_noteOn", on = opn2_rt_noteOn(d, 5, 64, 90)); (void)on;
    API("opn2_rt_noteOff", opn2_rt_noteOff(d, 5, 64));
    API("opn2_rt_controllerChange", opn2_rt_controllerChange(d, 5, 0, 0));
    API("opn2_rt_controllerChange", opn2_rt_controllerChange(d, 5, 32, 0));
    x.fresh_chips = false;
    check_hook(x, oi, H_DBG, before, true, vfmt("note-on on the missing bank %d:%d", msb, lsb).c_str());
    check_hook(x, oi, H_NOTE, before, x.m.bank >= 0, "opn2_rt_noteOn + opn2_rt_noteOff");
}

static uint64_t total_keyons(const Tap &t) { uint64_t n = 0; for(size_t i = 0; i < t.ch.size(); i++) n += t.ch[i].n_keyon; return n; }

// play the loaded song (tick-driven) from its begin to its end / over 6 passes, then panic + rewind
static void probe_song(Ctx &x, const OpInfo &oi)
{
    if(x.m.song < 0) return;
    OPN2_MIDIPlayer *d = x.d;
    const SongDef &sd = g_songs[(size_t)x.m.song];
    Cnt before[2] = {x.cnt[0], x.cnt[1]};
    long P = x.m.passes();
    long per_pass = 0; for(int t = 0; t < 2; t++) if(x.m.track_plays(t) && !x.m.chanOff[sd.ch_of_track[t]]) per_pass += sd.notes_track[t];
    uint64_t k0 = total_keyons(x.tap);
    double delay = 0, acc = 0, t_end = -1; bool ended = false; long guard = 0;
    // "without end" is watched over 6.5 passes (DESIGN.md section 7); a finite count must end within count + 2.5 passes
    // (a finite count is given the time of the slowest tempo multiplier in use, so that a lost multiplier is told from a lost count)
    double tlimit = P < 0 ? 6.5 * sd.seconds / x.m.tempo : ((double)P + 2.5) * sd.seconds / std::min(x.m.tempo, 0.5);
    while(guard++ < 20000)
    {
        acc += delay;
        double nd = 0; API("opn2_tickEvents", nd = opn2_tickEvents(d, delay, 1e-6));
        int end = 0; API("opn2_atEnd", end = opn2_atEnd(d));
        if(end) { ended = true; t_end = acc; break; }
        if(acc > tlimit) break;
        delay = nd > 0 ? nd : 1e-4;
    }
    long keyons = (long)(total_keyons(x.tap) - k0);
    API("opn2_panic", opn2_panic(d));
    API("opn2_positionRewind", opn2_positionRewind(d));
    x.fresh_chips = false;
    count("song_probes");
    bool loop_target = oi.kind == K_LOOPEN || oi.kind == K_LOOPCOUNT || oi.kind == K_HOOKSONLY;
    bool prev_loop = x.prev_kind == K_LOOPEN || x.prev_kind == K_LOOPCOUNT || x.prev_kind == K_HOOKSONLY;
    std::string ctxs = vfmt("model: loop %s, count %ld, hooks-only %d, tempo x%g => %ld pass(es) of %ld note(s); observed %ld key-on(s), %s after %.3f s of driver time", x.m.loopEn ? "on" : "off", x.m.loopCount, x.m.hooksOnly,
                            x.m.tempo, P, per_pass, keyons, ended ? "ended" : "not ended", acc);
    bool known = x.m.switches_known && per_pass > 0;
    long passes_by_time = ended ? (long)floor(t_end * x.m.tempo / sd.seconds + 0.5) : -1;
    bool passes_bad = false, notes_bad = false, tempo_bad = false;
    if(P < 0) { passes_bad = ended; notes_bad = !ended && known && (keyons < 6 * per_pass || keyons > 7 * per_pass); }
    else if(!ended) passes_bad = true;
    else
    {
        bool time_ok = passes_by_time == P && fabs(t_end - (double)P * sd.seconds / x.m.tempo) <= 0.02 * t_end + 0.01;
        if(!known) passes_bad = !time_ok;
        else if(keyons == P * per_pass) tempo_bad = !time_ok;
        else if(time_ok || keyons % per_pass != 0) notes_bad = true;
        else passes_bad = true;           // driver time and key-ons both tell another number of passes
    }
    bool pass_bad = passes_bad || notes_bad || tempo_bad;
    if(pass_bad)
    {
        // which part of the model is contradicted: the number of passes, the notes per pass (track / channel switches) or the tempo multiplier
        if(notes_bad) x.m.switches_known = false;
        std::string field = passes_bad ? "loop-passes" : notes_bad ? "track-or-channel-switches" : "tempo";
        bool is_t = passes_bad ? loop_target : notes_bad ? (oi.kind == K_TRACKOPT || oi.kind == K_CHANEN) : oi.kind == K_TEMPO;
        bool prev_t = passes_bad ? prev_loop : notes_bad ? (x.prev_kind == K_TRACKOPT || x.prev_kind == K_CHANEN) : x.prev_kind == K_TEMPO;
        std::string key;
        if(x.prev_kind == K_MUSICBAD && x.prev_failed && oi.kind == K_MUSIC && !oi.failed && passes_bad) key = "oracle:C18:rejected-music-broke-instance:valid-file-does-not-play-to-its-end";
        else key = key_for(x, oi, field, is_t, false, prev_t);
        x.violation(key, "looped probe song: " + ctxs + " after " + x.trail.back());
        if(tempo_bad && t_end > 0) x.m.tempo = (double)P * sd.seconds / t_end;     // reported once: follow the implementation
    }
    // callbacks
    if(x.m.track_plays(0) || x.m.track_plays(1)) check_hook(x, oi, H_RAW, before, true, "raw events of the probe song"); else check_hook(x, oi, H_RAW, before, false, "probe song with all tracks muted");
    if(x.m.hook[H_RAW] >= 0 && !pass_bad && P >= 0 && known)
    {
        const Cnt &c = x.cnt[x.m.hook[H_RAW]], &b = before[x.m.hook[H_RAW]];
        for(int t = 0; t < 2; t++)
        {
            long got = c.raw_on[sd.ch_of_track[t]] - b.raw_on[sd.ch_of_track[t]], want = x.m.track_plays(t) ? P * sd.notes_track[t] : 0;
            if(got != want) x.m.switches_known = false;
            if(got != want) x.violation(key_for(x, oi, "track-or-channel-switches", oi.kind == K_TRACKOPT, false, x.prev_kind == K_TRACKOPT),
                                        vfmt("raw-event hook saw %ld note-on events of track %d, expected %ld; %s", got, t, want, ctxs.c_str()));
        }
    }
    check_hook(x, oi, H_LS, before, x.m.loopEn != 0, "loop-start callback during the looped probe song");
    check_hook(x, oi, H_LE, before, x.m.loopEn != 0, "loop-end callback during the looped probe song");
}

// ------------------------------------------------------------------------------------------------------------
// differential probe
// ------------------------------------------------------------------------------------------------------------
static const int CHUNK = 512;      // frames per audio call: one period, the carry of the period splitter stays 0

static void phrase(OPN2_MIDIPlayer *d, bool audio, std::vector<short> &pcm)
{
    #define CC(ch, n, v) API("opn2_rt_controllerChange", opn2_rt_controllerChange(d, ch, n, v))
    #define ON(ch, k, v) do { int r_ = 0; API("opn2_rt_noteOn", r_ = opn2_rt_noteOn(d, ch, k, v)); (void)r_; } while(0)
    #define OFF(ch, k) API("opn2_rt_noteOff", opn2_rt_noteOff(d, ch, k))
    #define GEN() do { if(audio) { short b_[CHUNK * 2]; int g_ = 0; API("opn2_generate", g_ = opn2_generate(d, CHUNK * 2, b_)); pcm.insert(pcm.end(), b_, b_ + (g_ > 0 ? g_ : 0)); } } while(0)
    static const int chans[] = {0, 1, 9};
    for(int i = 0; i < 3; i++) { CC((uint8_t)chans[i], 0, 0); CC((uint8_t)chans[i], 32, 0); }
    API("opn2_rt_patchChange", opn2_rt_patchChange(d, 0, 3));
    API("opn2_rt_patchChange", opn2_rt_patchChange(d, 1, 17));
    API("opn2_rt_patchChange", opn2_rt_patchChange(d, 9, 0));
    CC(0, 7, 100); CC(0, 10, 30); CC(0, 74, 90); CC(0, 11, 110); CC(1, 7, 80); CC(1, 10, 100);
    ON(0, 60, 100); ON(0, 64, 90); ON(0, 67, 80); ON(1, 48, 127); ON(9, 38, 100);
    GEN();
    API("opn2_rt_pitchBend", opn2_rt_pitchBend(d, 0, 0x2800));
    CC(0, 74, 40); CC(0, 7, 60); CC(1, 1, 64); CC(1, 10, 0);
    OFF(0, 64); ON(0, 72, 70); ON(9, 42, 110);
    GEN();
    OFF(0, 60); OFF(0, 67); OFF(0, 72); OFF(1, 48); OFF(9, 38); OFF(9, 42);
    GEN();
    #undef CC
    #undef ON
    #undef OFF
    #undef GEN
}

struct Render { std::vector<RegWrite> log; std::vector<short> pcm; std::vector<uint8_t> lfo; };

// a write that is overwritten by the very next register write (no key event, no sample in between) has no effect: the
// library programs the pan/LFO-sensitivity register twice per note, the first time with the channel's previous pan bits
static std::vector<RegWrite> canon(const std::vector<RegWrite> &in)
{
    std::vector<RegWrite> out;
    for(size_t i = 0; i < in.size(); i++)
    {
        const RegWrite &w = in[i];
        if(w.port != 0xFF && w.reg != 0x28)
        {
            size_t j = i + 1; while(j < in.size() && in[j].port == 0xFF) j++;
            if(j < in.size() && in[j].chip == w.chip && in[j].port == w.port && in[j].reg == w.reg) continue;
        }
        out.push_back(w);
    }
    return out;
}

static std::string reg_group(const RegWrite &w)
{
    if(w.port == 0xFF) return "soft-pan";
    unsigned r = w.reg;
    if(r == 0x22) return "reg22-lfo"; if(r == 0x28) return "reg28-key";
    if(r >= 0x30 && r < 0xA0) return vfmt("reg%X0-operator", r >> 4);
    if(r >= 0xA0 && r < 0xB0) return "regA0-frequency"; if(r >= 0xB0 && r < 0xB4) return "regB0-feedback-algorithm"; if(r >= 0xB4 && r < 0xB8) return "regB4-pan-lfo-sensitivity";
    return vfmt("reg%02X", r);
}

// "" when equal, else the class of the first difference
static std::string diff_render(const Render &a, const Render &b, bool pcm_too, std::string &detail)
{
    size_t n = std::min(a.log.size(), b.log.size());
    for(size_t i = 0; i < n; i++)
    {
        const RegWrite &p = a.log[i], &q = b.log[i];
        if(p.chip == q.chip && p.port == q.port && p.reg == q.reg && p.val == q.val) continue;
        detail = vfmt("write #%zu of the phrase: instance under test chip %u port %u reg %02X = %02X, fresh instance chip %u port %u reg %02X = %02X", i, p.chip, p.port, p.reg, p.val, q.chip, q.port, q.reg, q.val);
        if(p.chip != q.chip) return "chip-assignment";
        if(p.port != q.port || p.reg != q.reg) return "write-order:" + reg_group(p);
        return reg_group(p);
    }
    if(a.log.size() != b.log.size()) { detail = vfmt("the phrase wrote %zu registers on the instance under test, %zu on the fresh one", a.log.size(), b.log.size()); return "write-count"; }
    if(a.lfo != b.lfo) { detail = vfmt("LFO register 0x22 of chip 0: %02X under test, %02X fresh", a.lfo.empty() ? 0 : a.lfo[0], b.lfo.empty() ? 0 : b.lfo[0]); return "reg22-lfo"; }
    if(pcm_too)
    {
        if(a.pcm.size() != b.pcm.size()) { detail = vfmt("%zu vs %zu samples", a.pcm.size(), b.pcm.size()); return "pcm"; }
        for(size_t i = 0; i < a.pcm.size(); i++) if(a.pcm[i] != b.pcm[i]) { detail = vfmt("first differing sample %zu: %d under test, %d fresh (register logs equal)", i, a.pcm[i], b.pcm[i]); return "pcm"; }
    }
    return "";
}

static void render_on(OPN2_MIDIPlayer *d, Tap &tap, int chips, bool audio, Render &out)
{
    tap.log.clear(); tap.keep_log = true;
    phrase(d, audio, out.pcm);
    tap.keep_log = false;
    out.log = canon(tap.log); tap.log.clear();
    out.lfo.assign(tap.lfo_reg, tap.lfo_reg + std::min(chips, 128));
}

// a fresh instance configured only with what the model holds
// order 0: the last re-initialising step is opn2_setNumChips (partial reset); order 1: it is the bank load / chip type (full set-up)
static OPN2_MIDIPlayer *build_fresh(const Model &m, Tap &tap, int order = 0)
{
    OPN2_MIDIPlayer *d = NULL; int rc = 0;
    API("opn2_init", d = opn2_init(m.rate));
    if(!d) return NULL;
    tap.attach(d);
    API("opn2_setNumChips", rc = opn2_setNumChips(d, 1));
    API("opn2_switchEmulator", rc = opn2_switchEmulator(d, m.emu));
    if(m.pcmrate) API("opn2_setRunAtPcmRate", rc = opn2_setRunAtPcmRate(d, 1));
    if(order == 1) API("opn2_setNumChips", rc = opn2_setNumChips(d, m.chips));
    if(m.bank >= 0) { ExactBuf b(g_banks[(size_t)m.bank].img); API("opn2_openBankData", rc = opn2_openBankData(d, b.p, (long)b.n)); }
    if(m.chipType >= 0 || (order == 1 && m.bank < 0)) API("opn2_setChipType", opn2_setChipType(d, (int)m.chipType));
    if(order == 0) API("opn2_setNumChips", rc = opn2_setNumChips(d, m.chips));
    if(m.vol != 0) API("opn2_setVolumeRangeModel", opn2_setVolumeRangeModel(d, (int)m.vol));
    if(m.lfoEn >= 0) API("opn2_setLfoEnabled", opn2_setLfoEnabled(d, (int)m.lfoEn));
    if(m.lfoFreq >= 0) API("opn2_setLfoFrequency", opn2_setLfoFrequency(d, (int)m.lfoFreq));
    if(m.scaleMod) API("opn2_setScaleModulators", opn2_setScaleModulators(d, 1));
    if(m.fullBright) API("opn2_setFullRangeBrightness", opn2_setFullRangeBrightness(d, 1));
    if(m.softPan) API("opn2_setSoftPanEnabled", opn2_setSoftPanEnabled(d, 1));
    if(m.alloc != -1) API("opn2_setChannelAllocMode", opn2_setChannelAllocMode(d, (int)m.alloc));
    if(m.arp) API("opn2_setAutoArpeggio", opn2_setAutoArpeggio(d, 1));
    if(m.devid > 0 && m.devid < 16) API("opn2_setDeviceIdentifier", rc = opn2_setDeviceIdentifier(d, (unsigned)m.devid));
    (void)rc;
    return d;
}

static bool render_fresh(const Model &m, bool audio, Render &out, int order = 0)
{
    Tap tap; OPN2_MIDIPlayer *f = build_fresh(m, tap, order);
    if(!f) return false;
    render_on(f, tap, m.chips, audio, out);
    API("opn2_close", opn2_close(f));
    return true;
}

// on a mismatch: which single setting, changed in the fresh configuration, reproduces the instance under test?
static std::string diagnose(const Model &m, const Render &under_test, bool audio, bool pcm_too, Model *matching = NULL)
{
    struct Alt { const char *name; Model mm; };
    std::vector<Alt> alts;
    #define ALT(n, stmt) do { Alt a_; a_.name = n; a_.mm = m; { Model &q = a_.mm; stmt; } alts.push_back(a_); } while(0)
    ALT("softPan", q.softPan = !q.softPan); ALT("scaleModulators", q.scaleMod = !q.scaleMod); ALT("fullRangeBrightness", q.fullBright = !q.fullBright);
    ALT("runAtPcmRate", q.pcmrate = !q.pcmrate); ALT("autoArpeggio", q.arp = !q.arp);
    for(long v = -1; v <= 2; v++) if(v != m.alloc) ALT("channelAllocMode", q.alloc = v);
    for(long v = 1; v <= 5; v++) if(v != m.d_vol()) ALT("volumeModel", q.vol = v);
    ALT("lfoEnabled", q.lfoEn = !m.d_lfoEn());
    for(long v = 0; v <= 7; v++) if(v != m.d_lfoFreq()) ALT("lfoFrequency", q.lfoFreq = v);
    ALT("chipType", q.chipType = !m.d_chipType());
    for(int v = -1; v < (int)g_banks.size(); v++) if(v != m.bank) ALT("bank", q.bank = v);
    if(m.chips != 2) ALT("numChips", q.chips = 2); if(m.chips > 1) ALT("numChips", q.chips = m.chips - 1); if(m.chips < 8) ALT("numChips", q.chips = m.chips + 1);
    static const int emus[] = {0, 2, 3, 4, 5, 6};
    for(size_t i = 0; i < 6; i++) if(emus[i] != m.emu) ALT("emulator", q.emu = emus[i]);
    #undef ALT
    for(size_t i = 0; i < alts.size(); i++)
    {
        Render r; std::string dt;
        if(!render_fresh(alts[i].mm, audio, r)) continue;
        if(diff_render(under_test, r, pcm_too, dt).empty()) { if(matching) *matching = alts[i].mm; return alts[i].name; }
    }
    return "";
}

static void probe_differential(Ctx &x, const OpInfo &oi)
{
    OPN2_MIDIPlayer *d = x.d;
    bool audio = x.m.chips <= 8;
    // the YMFM cores (3, 6) apply register writes through a timed queue: how many writes preceded the phrase shifts the signal
    bool pcm_ok = x.fresh_chips && audio && (x.m.emu == 0 || x.m.emu == 2 || x.m.emu == 4 || x.m.emu == 5);
    API("opn2_rt_resetState", opn2_rt_resetState(d));
    API("opn2_panic", opn2_panic(d));
    if(!x.fresh_chips && audio)
    {   // let the release times of earlier notes run out (<= 12 ms per instrument): channel choice no longer depends on them
        short buf[CHUNK * 2]; int g = 0;
        API("opn2_generate", g = opn2_generate(d, CHUNK * 2, buf)); (void)g;
        if((double)CHUNK / (double)x.m.rate < 0.03) { API("opn2_generate", g = opn2_generate(d, CHUNK * 2, buf)); API("opn2_generate", g = opn2_generate(d, CHUNK * 2, buf)); }
    }
    if(!x.fresh_chips && !audio) { count("probes_skipped_many_chips_after_notes"); return; }
    if(P(d)->m_setup.carry != 0.0) { count("probes_skipped_fractional_period_carry"); return; }
    Render a, b;
    render_on(d, x.tap, x.m.chips, audio, a);
    x.fresh_chips = false;
    API("opn2_rt_resetState", opn2_rt_resetState(d));
    API("opn2_panic", opn2_panic(d));
    if(!render_fresh(x.m, audio, b)) { x.c->violation("oracle:init-failed", "opn2_init returned NULL for the reference instance"); return; }
    x.n_probes++; count("probes_rendered"); count(pcm_ok ? "probes_pcm_compared" : "probes_registers_only"); count("probe_register_writes_compared", (long long)a.log.size());
    cover(vfmt("probe|%s|e%d|c%d|%s|%s", pcm_ok ? "pcm" : "reg", x.m.emu, std::min(x.m.chips, 9), oi.failed ? "after-failure" : x.prev_failed ? "after-follow-up" : "routine", oi.event.c_str()));
    std::string detail, cls = diff_render(a, b, pcm_ok, detail);
    if(cls.empty()) return;
    if(cls == "pcm")
    {   // inconclusive unless a setting that only the signal shows explains it
        Model alt = x.m;
        std::string who = diagnose(x.m, a, audio, true, &alt);
        if(who.empty())
        {
            // a reference whose last configuration step was a full set-up instead of a partial reset
            Render b2; std::string d2;
            if(render_fresh(x.m, audio, b2, 1) && diff_render(a, b2, true, d2).empty())
            {
                x.violation("oracle:C18:behaviour-differs-from-fresh:pcm", vfmt("probe phrase: register logs equal, PCM differs from a fresh instance configured like the model whose last configuration step was opn2_setNumChips (%s) but equals "
                            "one whose last step was the bank load / opn2_setChipType: a setting that only the signal shows (run-at-PCM-rate %d, emulator %d, chip type %ld) depends on which re-initialisation ran last; after %s",
                            detail.c_str(), x.m.pcmrate, x.m.emu, x.m.d_chipType(), x.trail.back().c_str()));
                return;
            }
            count("pcm_differs_but_registers_equal");
            if(getenv("VERIF_C18_DEBUG")) fprintf(stderr, "[c18] case %ld pcm differs, registers equal: %s; emu %d chips %d pcmrate %d chipType %ld; tail: %s\n", x.c->k, detail.c_str(), x.m.emu, x.m.chips, x.m.pcmrate, x.m.d_chipType(), x.tail(8).c_str());
            return;
        }
        x.violation(key_for(x, oi, who, false, false, false), vfmt("probe phrase: PCM differs from a fresh instance configured like the model (%s), register logs equal; a fresh instance with a different %s setting reproduces the instance under test; after %s",
                    detail.c_str(), who.c_str(), x.trail.back().c_str()));
        x.m = alt;      // reported once: follow the implementation from here on
        return;
    }
    Model alt = x.m;
    std::string who = diagnose(x.m, a, audio, pcm_ok, &alt);
    std::string key;
    if(oi.kind == K_BANKBAD && oi.failed && (who == "bank" || who.empty())) key = "oracle:C18:rejected-bank-replaced-bank";
    else if(!who.empty()) key = key_for(x, oi, who, false, false, false);
    else key = "oracle:C18:behaviour-differs-from-fresh:" + cls;
    x.violation(key, vfmt("probe phrase differs from a fresh instance configured like the model: %s%s; after %s (%s)", detail.c_str(),
                          who.empty() ? "" : vfmt("; a fresh instance with a different %s setting reproduces the instance under test", who.c_str()).c_str(), x.trail.back().c_str(), oi.failed ? "call failed" : "call succeeded"));
    if(!who.empty() && who != "bank" && who != "numChips" && who != "emulator") x.m = alt;      // reported once: follow the implementation from here on
}

// ------------------------------------------------------------------------------------------------------------
// one step of a history
// ------------------------------------------------------------------------------------------------------------
static bool documented(int kind, long v)
{
    switch(kind)
    {
    case K_LFOEN: return v >= -1 && v <= 1;
    case K_LFOFREQ: return v >= -1 && v <= 7;
    case K_CHIPTYPE: return v >= -1 && v <= 1;
    case K_VOLMODEL: return v >= 0 && v <= 5;
    case K_ALLOC: return v >= -1 && v <= 2;
    case K_ARP: return v == 0 || v == 1;
    default: return true;
    }
}

static void check_error_text(Ctx &x, const OpInfo &oi)
{
    const char *e = NULL; API("opn2_errorInfo", e = opn2_errorInfo(x.d));
    if(!e || !*e) x.violation("oracle:C18:error-text-empty:" + oi.api, "the call reported failure but opn2_errorInfo is empty after " + x.trail.back());
}

static void check_banks_present(Ctx &x, const OpInfo &oi)
{
    if(x.m.bank < 0) return;
    const BankDef &b = g_banks[(size_t)x.m.bank];
    for(size_t i = 0; i < b.present.size() + b.absent.size(); i++)
    {
        bool want = i < b.present.size(); const OPN2_BankId &id = want ? b.present[i] : b.absent[i - b.present.size()];
        OPN2_Bank bk; int rc = 0; API("opn2_getBank", rc = opn2_getBank(x.d, &id, 0, &bk));
        if((rc == 0) != want)
            x.violation(oi.kind == K_BANKBAD ? std::string("oracle:C18:rejected-bank-replaced-bank") : key_for(x, oi, "bank", oi.kind == K_BANK, false, false),
                        vfmt("bank (percussive %d, msb %d, lsb %d) of the loaded image %d: lookup returned %d, expected %s; after %s", id.percussive, id.msb, id.lsb, x.m.bank, rc, want ? "0 (present)" : "-1 (absent)", x.trail.back().c_str()));
    }
}

static void step(Ctx &x, const Op &op)
{
    OPN2_MIDIPlayer *d = x.d; Model &m = x.m;
    OpInfo oi; oi.kind = op.kind; oi.api = kind_api[op.kind]; oi.event = kind_event[op.kind]; oi.targets = targets_of(op.kind);
    x.trail.push_back(op_str(op)); x.n_ops++;
    Obs pre = observe(x);
    int rc = 0; bool has_rc = false, expect_fail = false, threeval_rc = false, adopt_targets = false, recreates = false, skipped = false;
    long a = op.a;
    switch(op.kind)
    {
    case K_NUMCHIPS: has_rc = true; expect_fail = a < 1 || a > 100; API("opn2_setNumChips", rc = opn2_setNumChips(d, (int)a)); if(rc == 0) { m.chips = (int)a; m.chips_req = a; recreates = true; } break;
    case K_EMU:
        if(a == SAME) a = m.emu;
        has_rc = true; expect_fail = !(a >= 0 && a <= 8); API("opn2_switchEmulator", rc = opn2_switchEmulator(d, (int)a)); if(rc == 0) { m.emu = (int)a; recreates = true; } break;
    case K_PCMRATE: has_rc = true; API("opn2_setRunAtPcmRate", rc = opn2_setRunAtPcmRate(d, (int)a)); if(rc == 0) { m.pcmrate = a != 0; recreates = true; } break;
    case K_DEVID: has_rc = true; oi.target_devid = true; expect_fail = (unsigned long)a > 15; API("opn2_setDeviceIdentifier", rc = opn2_setDeviceIdentifier(d, (unsigned)a)); if(rc == 0) m.devid = (int)(a & 15); break;
    case K_LFOEN: API("opn2_setLfoEnabled", opn2_setLfoEnabled(d, (int)a)); if(documented(op.kind, a)) m.lfoEn = a; else adopt_targets = true; break;
    case K_LFOFREQ: API("opn2_setLfoFrequency", opn2_setLfoFrequency(d, (int)a)); if(documented(op.kind, a)) m.lfoFreq = a; else adopt_targets = true; break;
    case K_CHIPTYPE: API("opn2_setChipType", opn2_setChipType(d, (int)a)); if(documented(op.kind, a)) m.chipType = a; else adopt_targets = true; recreates = true; break;
    case K_VOLMODEL: API("opn2_setVolumeRangeModel", opn2_setVolumeRangeModel(d, (int)a)); if(documented(op.kind, a)) m.vol = a; else adopt_targets = true; break;
    case K_ALLOC: API("opn2_setChannelAllocMode", opn2_setChannelAllocMode(d, (int)a)); if(documented(op.kind, a)) m.alloc = a; else adopt_targets = true; break;
    case K_ARP: API("opn2_setAutoArpeggio", opn2_setAutoArpeggio(d, (int)a)); if(documented(op.kind, a)) m.arp = a; else adopt_targets = true; break;
    case K_SCALEMOD: API("opn2_setScaleModulators", opn2_setScaleModulators(d, (int)a)); m.scaleMod = a != 0; break;
    case K_FULLBRIGHT: API("opn2_setFullRangeBrightness", opn2_setFullRangeBrightness(d, (int)a)); m.fullBright = a != 0; break;
    case K_SOFTPAN: API("opn2_setSoftPanEnabled", opn2_setSoftPanEnabled(d, (int)a)); m.softPan = a != 0; break;
    case K_LOOPEN: API("opn2_setLoopEnabled", opn2_setLoopEnabled(d, (int)a)); m.loopEn = a != 0; break;
    case K_LOOPCOUNT:   // takes effect for the loaded song at its next (re)start: the driver rewinds
        API("opn2_setLoopCount", opn2_setLoopCount(d, (int)a)); m.loopCount = a; adopt_targets = true;
        API("opn2_positionRewind", opn2_positionRewind(d)); break;
    case K_HOOKSONLY: API("opn2_setLoopHooksOnly", opn2_setLoopHooksOnly(d, (int)a)); m.hooksOnly = a != 0; break;
    case K_TEMPO: { double t = g_tempos[a]; API("opn2_setTempo", opn2_setTempo(d, t)); if(t > 0) m.tempo = t; break; }     // <= 0: "rejected" by a function that returns nothing: nothing may change
    case K_TRACKOPT:
    {
        if(m.song == -2) { skipped = true; break; }
        size_t tc = m.song >= 0 ? 2 : 0; size_t t = a == -1 ? ~(size_t)0 : (size_t)a; unsigned o = (unsigned)op.b, en = o & 3;
        if((en == OPNMIDI_TrackOption_Solo && t >= tc) || en == 0) { skipped = true; break; }      // not specified
        has_rc = true; oi.target_song = true;
        if((o & ~3u) != 0) threeval_rc = true; else expect_fail = t >= tc;
        API("opn2_setTrackOptions", rc = opn2_setTrackOptions(d, t, o));
        if(rc == 0 && t < tc) { if(en == OPNMIDI_TrackOption_On) m.trackOff[t] = 0; else if(en == OPNMIDI_TrackOption_Off) m.trackOff[t] = 1; else m.solo = (int)t; }
        break;
    }
    case K_CHANEN:
    {
        size_t ch = a == -1 ? ~(size_t)0 : (size_t)a; has_rc = true; oi.target_song = true; expect_fail = ch >= 16;
        API("opn2_setChannelEnabled", rc = opn2_setChannelEnabled(d, ch, (int)op.b));
        if(rc == 0 && ch < 16) m.chanOff[ch] = op.b ? 0 : 1;
        break;
    }
    case K_HOOK:
    {
        int h = (int)a, slot = (int)op.b; void *ud = slot < 0 ? (void *)&x.cnt[0] : (void *)&x.cnt[slot]; oi.target_hook = h; oi.api = hook_api[h];
        switch(h)
        {
        case H_RAW: API("opn2_setRawEventHook", opn2_setRawEventHook(d, slot < 0 ? NULL : cb_raw, ud)); break;
        case H_NOTE: API("opn2_setNoteHook", opn2_setNoteHook(d, slot < 0 ? NULL : cb_note, ud)); break;
        case H_DBG: API("opn2_setDebugMessageHook", opn2_setDebugMessageHook(d, slot < 0 ? NULL : cb_dbg, ud)); break;
        case H_LS: API("opn2_setLoopStartHook", opn2_setLoopStartHook(d, slot < 0 ? NULL : cb_ls, ud)); break;
        default: API("opn2_setLoopEndHook", opn2_setLoopEndHook(d, slot < 0 ? NULL : cb_le, ud)); break;
        }
        m.hook[h] = slot;
        break;
    }
    case K_BANK:
    {
        if(a == SAME) a = m.bank >= 0 ? m.bank : 0;
        has_rc = true; ExactBuf b(g_banks[(size_t)a].img);
        API("opn2_openBankData", rc = opn2_openBankData(d, b.p, (long)b.n));
        if(rc == 0) { m.bank = (int)a; m.chipType = -1; m.vol = 0; m.lfoEn = -1; m.lfoFreq = -1; recreates = true; }   // the per-bank overrides go back to the bank's own values
        break;
    }
    case K_BANKBAD:
    {
        has_rc = true; expect_fail = true; Bytes img = hostile_bank((int)a, op.b); ExactBuf b(img);
        API("opn2_openBankData", rc = opn2_openBankData(d, b.p, (long)b.n));
        if(rc == 0) { count("hostile_bank_accepted"); x.c->inconclusive = true; }
        break;
    }
    case K_MUSIC:
    {
        if(a == SAME) a = m.song >= 0 ? m.song : 0;
        has_rc = true; if(m.bank < 0) threeval_rc = true; ExactBuf b(g_songs[(size_t)a].smf);
        API("opn2_openData", rc = opn2_openData(d, b.p, (unsigned long)b.n));
        if(rc == 0) { m.song = (int)a; m.song_reset(); recreates = true; }
        else if(x.prev_failed && x.prev_kind == K_MUSICBAD && m.bank >= 0)
            x.violation("oracle:C18:rejected-music-broke-instance:valid-file-rejected", vfmt("a well-formed SMF loaded right after a rejected music file returned %d (%s)", rc, opn2_errorInfo(d)));
        break;
    }
    case K_MUSICBAD:
    {
        has_rc = true; expect_fail = true; Bytes f = hostile_music((int)a, op.b); ExactBuf b(f);
        API("opn2_openData", rc = opn2_openData(d, b.p, (unsigned long)b.n));
        if(rc == 0) { count("hostile_music_accepted"); m.song = -2; m.song_reset(); recreates = true; }
        break;
    }
    case K_RESET: API("opn2_reset", opn2_reset(d)); recreates = true; break;
    default: break;
    }
    if(skipped) { x.trail.back() += "[skipped]"; x.prev_failed = false; x.prev_kind = -1; return; }
    oi.failed = has_rc && rc != 0;
    // return-value class
    if(has_rc && !threeval_rc)
    {
        if(expect_fail && rc >= 0 && op.kind != K_BANKBAD && op.kind != K_MUSICBAD)
            x.violation("oracle:C18:invalid-argument-accepted:" + oi.api, vfmt("%s returned %d for an argument documented to fail", x.trail.back().c_str(), rc));
        if(!expect_fail && rc != 0 && !(op.kind == K_MUSIC && x.prev_failed && x.prev_kind == K_MUSICBAD))
            x.violation("oracle:C18:valid-argument-rejected:" + oi.api, vfmt("%s returned %d (%s)", x.trail.back().c_str(), rc, opn2_errorInfo(d)));
    }
    if(recreates && !oi.failed) x.fresh_chips = true;
    Obs post = observe(x);
    if(adopt_targets && !oi.failed) { for(std::set<int>::iterator i = oi.targets.begin(); i != oi.targets.end(); ++i) adopt(m, post, *i); count("three_valued_adoptions"); }
    compare_obs(x, oi, post, pre);
    if(oi.failed)
    {
        x.n_failed++; count("failed_calls_checked");
        if(op.kind == K_MUSICBAD && m.song >= 0) count("rejected_music_kept_the_loaded_song");
        if(op.kind == K_BANKBAD || op.kind == K_MUSICBAD) check_error_text(x, oi);
    }
    if(op.kind == K_BANKBAD || op.kind == K_BANK) check_banks_present(x, oi);
    probe_devid(x, oi);
    std::string outcome = oi.failed ? "fail" : has_rc ? "ok" : (documented(op.kind, a) ? "void" : "void-3v");
    cover(vfmt("op|%s|%s|after-%s", kind_event[op.kind], outcome.c_str(), x.prev_failed ? (std::string("failed-") + kind_event[x.prev_kind]).c_str() : "ok"));
    { std::string nd = m.nondefault(); size_t p = 0; while(p < nd.size()) { size_t q = nd.find(',', p); cover(vfmt("nd|%s|%s|%s", kind_event[op.kind], outcome.c_str(), nd.substr(p, q - p).c_str())); p = q + 1; } }
    if(op.probe || (oi.failed && op.kind == K_BANKBAD)) probe_differential(x, oi);
    if(op.cbprobe) { probe_rt_hooks(x, oi); probe_song(x, oi); }
    x.prev_failed = oi.failed; x.prev_kind = op.kind; x.prev_arg = op.a; x.prev_api = oi.api;
}

// ------------------------------------------------------------------------------------------------------------
// history generation
// ------------------------------------------------------------------------------------------------------------
static Op mk(int kind, long a = 0, long b = 0) { Op o; o.kind = kind; o.a = a; o.b = b; o.probe = false; o.cbprobe = true; return o; }

static bool certain_failure(const Op &o)
{
    switch(o.kind)
    {
    case K_NUMCHIPS: return o.a < 1 || o.a > 100;
    case K_EMU: return o.a != SAME && !(o.a >= 0 && o.a <= 8);
    case K_DEVID: return (unsigned long)o.a > 15;
    case K_CHANEN: return o.a < 0 || o.a >= 16;
    case K_TRACKOPT: return (o.a < 0 || o.a >= 2) && (o.b == 1 || o.b == 2);
    case K_BANKBAD: case K_MUSICBAD: return true;
    default: return false;
    }
}

static Op gen_op(Rng &r)
{
    static const int w[K_COUNT] = {8, 8, 3, 7, 4, 4, 4, 4, 3, 2, 2, 2, 2, 3, 3, 2, 2, 4, 4, 8, 5, 6, 4, 6, 5, 1};
    int total = 0; for(int i = 0; i < K_COUNT; i++) total += w[i];
    int p = (int)r.below((uint32_t)total), kind = 0; while(p >= w[kind]) { p -= w[kind]; kind++; }
    static const int emus_ok[] = {0, 2, 4, 5, 0, 2, 4, 5, 3, 6};
    switch(kind)
    {
    case K_NUMCHIPS: return mk(kind, r.chance(0.5) ? r.pick((const long[]){1, 1, 2, 2, 3, 4, 6, 100}) : r.pick((const long[]){0, -1, 101, 102, 1000, INT_MIN, INT_MAX, -100}));
    case K_EMU: return mk(kind, r.chance(0.55) ? (long)r.pick(emus_ok) : r.pick((const long[]){-1, 9, 10, 31, 32, 33, 63, 64, 100, INT_MAX, INT_MIN, 39, 40, 71, 255}));
    case K_PCMRATE: return mk(kind, (long)r.below(2));
    case K_DEVID: return mk(kind, r.chance(0.6) ? (long)r.below(16) : r.pick((const long[]){16, 17, 31, 127, 128, 255, 256, 0x7FFFFFFF, 0xFFFFFFFFl, 0x80000003l}));
    case K_LFOEN: return mk(kind, r.chance(0.8) ? r.range(-1, 1) : r.pick((const long[]){2, 5, -2, INT_MAX, INT_MIN, 255}));
    case K_LFOFREQ: return mk(kind, r.chance(0.8) ? r.range(-1, 7) : r.pick((const long[]){8, 9, 200, 255, 256, -2, INT_MAX, INT_MIN}));
    case K_CHIPTYPE: return mk(kind, r.chance(0.8) ? r.range(-1, 1) : r.pick((const long[]){2, 5, -2, 100}));
    case K_VOLMODEL: return mk(kind, r.chance(0.8) ? r.range(0, 5) : r.pick((const long[]){6, 7, 99, -1, INT_MAX, INT_MIN}));
    case K_ALLOC: return mk(kind, r.chance(0.8) ? r.range(-1, 2) : r.pick((const long[]){3, 7, -2, INT_MAX, INT_MIN}));
    case K_ARP: return mk(kind, r.chance(0.85) ? (long)r.below(2) : r.pick((const long[]){2, -1, INT_MIN}));
    case K_SCALEMOD: case K_FULLBRIGHT: case K_SOFTPAN: case K_HOOKSONLY: return mk(kind, (long)r.below(2));
    case K_LOOPEN: return mk(kind, r.chance(0.7) ? 1 : 0);
    case K_LOOPCOUNT: return mk(kind, r.pick((const long[]){1, 2, 2, 3, -1}));
    case K_TEMPO: return mk(kind, (long)r.below(6));
    case K_TRACKOPT: return mk(kind, r.pick((const long[]){0, 1, 0, 1, 2, 5, -1}), r.pick((const long[]){1, 2, 1, 2, 3, 1 | 4, 2 | 8, 1 | 0x100}));
    case K_CHANEN: return mk(kind, r.chance(0.6) ? (long)r.below(4) : r.pick((const long[]){15, 16, 17, 255, -1}), (long)r.below(2));
    case K_HOOK: return mk(kind, (long)r.below(H_COUNT), r.chance(0.25) ? -1 : (long)r.below(2));
    case K_BANK: return mk(kind, (long)r.below(4));
    case K_BANKBAD: return mk(kind, (long)r.below(6), (long)r.below(1000));
    case K_MUSIC: return mk(kind, (long)r.below(2));
    case K_MUSICBAD: return mk(kind, (long)r.below(7), (long)r.below(1000));
    default: return mk(kind);
    }
}

static std::vector<Op> gen_history(Rng &r, int n)
{
    std::vector<Op> ops;
    // head: a configuration to lose
    static const int emus_ok[] = {0, 2, 4, 5};
    ops.push_back(mk(K_EMU, r.pick(emus_ok)));
    if(r.chance(0.7)) ops.push_back(mk(K_NUMCHIPS, r.range(1, 4)));
    if(r.chance(0.9)) ops.push_back(mk(K_BANK, (long)r.below(4)));
    for(int h = 0; h < H_COUNT; h++) if(r.chance(0.75)) ops.push_back(mk(K_HOOK, h, (long)r.below(2)));
    if(r.chance(0.75)) ops.push_back(mk(K_LOOPEN, 1));
    if(r.chance(0.75)) ops.push_back(mk(K_LOOPCOUNT, r.range(2, 3)));
    if(r.chance(0.8)) ops.push_back(mk(K_DEVID, r.range(1, 15)));
    if(r.chance(0.8)) ops.push_back(mk(K_MUSIC, (long)r.below(2)));
    if(r.chance(0.5)) ops.push_back(mk(K_SOFTPAN, 1));
    if(r.chance(0.5)) ops.push_back(mk(K_SCALEMOD, 1));
    if(r.chance(0.4)) ops.push_back(mk(K_FULLBRIGHT, 1));
    if(r.chance(0.4)) ops.push_back(mk(K_PCMRATE, 1));
    for(size_t i = 0; i < ops.size(); i++) ops[i].cbprobe = ops[i].kind == K_MUSIC || r.chance(0.3);
    ops.back().probe = true; ops.back().cbprobe = true;     // baseline: everything configured so far is in force
    while((int)ops.size() < n)
    {
        Op o = gen_op(r);
        bool fail = certain_failure(o);
        bool resetlike = o.kind == K_RESET || o.kind == K_EMU || o.kind == K_BANK || o.kind == K_MUSIC || o.kind == K_NUMCHIPS || o.kind == K_PCMRATE || o.kind == K_CHIPTYPE;
        bool no_getter = o.kind == K_SCALEMOD || o.kind == K_FULLBRIGHT || o.kind == K_SOFTPAN;
        // every re-initialising call, every failing call and every setter without getter is followed by the differential probe (exact attribution)
        o.probe = (fail || resetlike || no_getter) ? true : r.chance(0.08);
        bool plain_void = o.kind >= K_LFOEN && o.kind <= K_SOFTPAN;
        o.cbprobe = plain_void ? r.chance(0.15) : true;
        if(fail && !ops.empty() && r.chance(0.5) && ops.back().kind != K_MUSICBAD && ops.back().kind != K_MUSIC && ops.back().kind != K_TRACKOPT && ops.back().kind != K_CHANEN && ops.back().kind != K_LOOPCOUNT) ops.back().cbprobe = false;     // keep the chips untouched before the failing call: PCM comparable
        ops.push_back(o);
        if(fail && r.chance(0.5))
        {   // a rejected-but-remembered value only shows after the next re-application
            Op f;
            switch(r.below(4)) { case 0: f = mk(K_RESET); break; case 1: f = mk(K_BANK, SAME); break; case 2: f = mk(K_EMU, SAME); break; default: f = mk(K_MUSIC, SAME); break; }
            if(o.kind == K_MUSICBAD && r.chance(0.6)) f = mk(K_MUSIC, r.chance(0.5) ? SAME : (long)r.below(2));
            f.probe = true; f.cbprobe = true;
            ops.push_back(f);
        }
    }
    return ops;
}

// ------------------------------------------------------------------------------------------------------------
static bool open_instance(Case &c, Ctx &x, long rate)
{
    x.c = &c;
    API("opn2_init", x.d = opn2_init(rate));
    if(!x.d) { c.violation("oracle:init-failed", "opn2_init returned NULL"); return false; }
    x.tap.attach(x.d);
    Model &m = x.m;
    m.rate = rate; m.pcmrate = 0; m.devid = 0; m.bank = -1; m.chipType = -1; m.vol = 0; m.lfoEn = -1; m.lfoFreq = -1; m.scaleMod = m.fullBright = m.softPan = 0;
    m.loopCount = -1; m.tempo = 1.0; for(int h = 0; h < H_COUNT; h++) m.hook[h] = -1; m.song = -1; m.song_reset();
    // everything a fresh instance reports is adopted as the starting point
    Obs o = observe(x);
    m.chips = (int)o.v[O_OBTAINED]; m.chips_req = o.v[O_CHIPS]; m.emu = 0; adopt(m, o, O_EMU);
    m.nb_lfoEn = o.v[O_LFOEN]; m.nb_lfoFreq = o.v[O_LFOFREQ]; m.nb_chipType = o.v[O_CHIPTYPE]; m.nb_vol = o.v[O_VOL];
    m.alloc = o.v[O_ALLOC]; m.arp = o.v[O_ARP]; m.loopEn = (int)o.v[O_LOOPEN]; m.loopCntInternal = o.v[O_LOOPCNT]; m.hooksOnly = (int)o.v[O_HOOKSONLY];
    if(o.v[O_CHIPS] != o.v[O_OBTAINED] || o.emu != g_emu_name[m.emu]) { c.violation("oracle:C18:fresh-instance-inconsistent", vfmt("chips %ld / obtained %ld / emulator %s", o.v[O_CHIPS], o.v[O_OBTAINED], o.emu.c_str())); return false; }
    return true;
}

static void run_history(Case &c, Ctx &x, const std::vector<Op> &ops)
{
    for(size_t i = 0; i < ops.size() && g_w.violations_in_case < 8 && !c.inconclusive; i++) step(x, ops[i]);
}

static bool rate_is_exact(long rate)
{   // one 512-frame request must come out as one period with no fractional carry (opn2_generateFormat's splitter)
    double maxdelay = 512.0 / (double)rate, delay = double(CHUNK) / double(rate);
    double eat = delay < maxdelay ? delay : maxdelay, carry = double(rate) * eat;
    return carry == (double)CHUNK;
}

// ------------------------------------------------------------------------------------------
// stage rsxx: an EA-MUS (RSXX) song switches the synthesizer to its own volume model and chip count and locks the set-up while it
// is loaded. Setters called in that state that report success must still make their getter return the value, and the value
// must be in force once another file is loaded.
// ------------------------------------------------------------------------------------------
static void stage_rsxx(Case &c)
{
    Rng &r = c.rng;
    OPN2_MIDIPlayer *d = NULL;
    API("opn2_init", d = opn2_init(r.chance(0.5) ? 44100 : 8000));
    if(!d) { c.violation("oracle:init-failed", "opn2_init returned NULL"); return; }
    int rc = 0;
    API("opn2_switchEmulator", rc = opn2_switchEmulator(d, r.chance(0.5) ? 0 : 2));
    int chips0 = r.range(1, 6);
    API("opn2_setNumChips", rc = opn2_setNumChips(d, chips0));
    { ExactBuf b(default_bank()); API("opn2_openBankData", rc = opn2_openBankData(d, b.p, (long)b.n)); }
    // the song that is loaded when the setters are called: an RSXX image locks the set-up; XMI, MUS, RMI and plain SMF songs are
    // ordinary MIDI music and must not
    const int kind = g_w.stage == "rsxx" ? 0 : 1 + (int)(c.k % 4);
    static const char *kname[] = {"RSXX", "XMI", "MUS", "RMI", "SMF"};
    std::vector<uint8_t> f;
    if(kind == 0)
    {   // RSXX image: byte 0 = offset (>= 0x5D) of the data, "rsxx}u" 16 bytes before it, then one SMF-like track without initial delta
        int start = r.range(0x5D, 0x7F);
        f.assign((size_t)start, 0);
        f[0] = (uint8_t)start; memcpy(&f[(size_t)start - 0x10], "rsxx}u", 6);
        SongOpts o1; o1.max_tracks = 1; o1.min_tracks = 1; o1.max_events = 10; o1.sysex_meta = false; o1.tempo_changes = false;
        Song s1 = gen_song(r, o1);
        std::vector<uint8_t> t = serialize_track(s1, s1.tracks[0]);
        size_t skip = 0; while(skip < t.size() && (t[skip] & 0x80)) skip++; skip++;
        f.insert(f.end(), t.begin() + (long)std::min(skip, t.size()), t.end());
    }
    else if(kind == 1) f = gen_xmi(r, r.range(1, 2), 10).bytes;
    else if(kind == 2) f = gen_mus(r, 12).bytes;
    else { SongOpts o1; o1.max_tracks = 2; o1.max_events = 10; Song s1 = gen_song(r, o1); f = serialize_song(s1); if(kind == 3) f = wrap_rmi(f, true, std::vector<uint8_t>()); }
    { ExactBuf in(f); API("opn2_openData", rc = opn2_openData(d, in.p, (unsigned long)in.n)); }
    if(rc != 0 && kind == 0) { c.inconclusive = true; count("rsxx_image_not_accepted"); API("opn2_close", opn2_close(d)); return; }
    if(rc != 0) { c.violation(vfmt("oracle:C18:wellformed-music-rejected:%s", kname[kind]), opn2_errorInfo(d)); API("opn2_close", opn2_close(d)); return; }
    if(r.chance(0.5)) { double nd = 0; API("opn2_tickEvents", nd = opn2_tickEvents(d, 0.05, 1e-4)); (void)nd; }
    std::string hist = vfmt("chips %d, %s song loaded", chips0, kname[kind]);
    // setters with getters, called while the set-up is locked
    int want_chips = r.range(1, 6); if(want_chips == chips0) want_chips = chips0 % 6 + 1;
    int want_model = r.range(1, 5), want_mode = r.range(0, 2);
    int r1 = -9; API("opn2_setNumChips", r1 = opn2_setNumChips(d, want_chips));
    API("opn2_setVolumeRangeModel", opn2_setVolumeRangeModel(d, want_model));
    int r3 = -9; API("opn2_setChannelAllocMode", opn2_setChannelAllocMode(d, want_mode)); (void)r3;
    int g1 = 0; API("opn2_getNumChips", g1 = opn2_getNumChips(d));
    int g3 = 0; API("opn2_getChannelAllocMode", g3 = opn2_getChannelAllocMode(d));
    hist += vfmt(", opn2_setNumChips(%d) -> %d", want_chips, r1);
    if(r1 == 0 && g1 != want_chips) c.violation("oracle:C18:getter-after-success:opn2_setNumChips:setup-locked", vfmt("opn2_setNumChips(%d) returned 0 but opn2_getNumChips says %d; %s", want_chips, g1, hist.c_str()));
    if(r1 != 0 && g1 != chips0 && g1 != 2) c.violation("oracle:C18:failed-call-changed:opn2_setNumChips:setup-locked", vfmt("opn2_setNumChips(%d) returned %d and opn2_getNumChips went to %d; %s", want_chips, r1, g1, hist.c_str()));
    if(kind != 0)
    {   // ordinary MIDI music does not lock anything: the values are in force at once
        int obt0 = 0, gm0 = 0; API("opn2_getNumChipsObtained", obt0 = opn2_getNumChipsObtained(d)); API("opn2_getVolumeRangeModel", gm0 = opn2_getVolumeRangeModel(d));
        if(r1 != 0) c.violation(vfmt("oracle:C18:valid-setter-refused:opn2_setNumChips:%s-loaded", kname[kind]), vfmt("opn2_setNumChips(%d) returned %d; %s", want_chips, r1, hist.c_str()));
        else if(obt0 != want_chips) c.violation(vfmt("oracle:C18:getter-after-success:opn2_setNumChips:%s-loaded", kname[kind]), vfmt("opn2_setNumChips(%d) returned 0 but %d chips are running; %s", want_chips, obt0, hist.c_str()));
        if(gm0 != want_model) c.violation(vfmt("oracle:C18:getter-after-success:opn2_setVolumeRangeModel:%s-loaded", kname[kind]), vfmt("set %d, getter says %d; %s", want_model, gm0, hist.c_str()));
        count("setters_checked_with_ordinary_music_loaded");
    }
    if(g3 != want_mode) c.violation("oracle:C18:getter-after-success:opn2_setChannelAllocMode:setup-locked", vfmt("set %d, getter says %d; %s", want_mode, g3, hist.c_str()));
    // the next file unlocks the set-up: the values are in force
    SongOpts o2; o2.max_tracks = 2; o2.max_events = 8;
    Song s2 = gen_song(r, o2);
    std::vector<uint8_t> f2 = serialize_song(s2);
    { ExactBuf in(f2); API("opn2_openData", rc = opn2_openData(d, in.p, (unsigned long)in.n)); }
    if(rc != 0) { c.violation("oracle:C18:rejected-music-broke-instance:valid-file-refused-after-rsxx", opn2_errorInfo(d)); API("opn2_close", opn2_close(d)); return; }
    int g1b = 0, obt = 0, gm = 0, g3b = 0;
    API("opn2_getNumChips", g1b = opn2_getNumChips(d)); API("opn2_getNumChipsObtained", obt = opn2_getNumChipsObtained(d));
    API("opn2_getVolumeRangeModel", gm = opn2_getVolumeRangeModel(d)); API("opn2_getChannelAllocMode", g3b = opn2_getChannelAllocMode(d));
    if(r1 == 0 && (g1b != want_chips || obt != want_chips))
        c.violation("oracle:C18:setting-lost-across:musicload:numChips:after-rsxx", vfmt("after the next file: opn2_getNumChips %d, obtained %d, set %d; %s", g1b, obt, want_chips, hist.c_str()));
    if(gm != want_model) c.violation("oracle:C18:setting-lost-across:musicload:volumeModel:after-rsxx", vfmt("after the next file: volume model %d, set %d; %s", gm, want_model, hist.c_str()));
    if(g3b != want_mode) c.violation("oracle:C18:setting-lost-across:musicload:allocMode:after-rsxx", vfmt("after the next file: alloc mode %d, set %d; %s", g3b, want_mode, hist.c_str()));
    c.nontrivial = true;
    cover(vfmt("%s|chips%d->%d|model%d|mode%d", kname[kind], chips0, want_chips, want_model, want_mode));
    c.sig = kname[kind];
    c.sample(std::string("{\"stage\":\"") + (kind ? "formats" : "rsxx") + "\",\"history\":" + jstr(hist) + "}");
    API("opn2_close", opn2_close(d));
}

// ------------------------------------------------------------------------------------------
// stage playing: a rejected call leaves "the audible behaviour exactly as before" also while a song is being rendered. Two instances
// with the same configuration render the same song through opn2_play with the same (odd, period-unaligned) request sizes; one of them
// additionally receives calls that are certain to be refused (out-of-range emulator, chip count, device id, bank id, track, channel)
// between the audio calls. Every such call must report failure, leave the getters and the bank list as they were, and the PCM of the
// two instances must stay bit-identical to the end.
// ------------------------------------------------------------------------------------------
static std::string bank_list(OPN2_MIDIPlayer *d)
{
    std::string s; OPN2_Bank b; int rc = -1, n = 0;
    API("opn2_getFirstBank", rc = opn2_getFirstBank(d, &b));
    while(rc == 0 && n++ < 70000)
    {
        OPN2_BankId id; memset(&id, 0, sizeof(id)); int ri = 0; API("opn2_getBankId", ri = opn2_getBankId(d, &b, &id)); (void)ri;
        s += vfmt("%u/%u/%u ", id.percussive, id.msb, id.lsb);
        API("opn2_getNextBank", rc = opn2_getNextBank(d, &b));
    }
    return s;
}
static std::string getter_vector(OPN2_MIDIPlayer *d)
{
    int a = 0, b = 0, e = 0, f = 0, g = 0, h = 0, i = 0; const char *en = NULL; double pos = 0; size_t tc = 0;
    API("opn2_getNumChips", a = opn2_getNumChips(d)); API("opn2_getNumChipsObtained", b = opn2_getNumChipsObtained(d));
    API("opn2_getVolumeRangeModel", e = opn2_getVolumeRangeModel(d)); API("opn2_getChannelAllocMode", f = opn2_getChannelAllocMode(d));
    API("opn2_getLfoEnabled", g = opn2_getLfoEnabled(d)); API("opn2_getLfoFrequency", h = opn2_getLfoFrequency(d)); API("opn2_getChipType", i = opn2_getChipType(d));
    API("opn2_chipEmulatorName", en = opn2_chipEmulatorName(d)); API("opn2_positionTell", pos = opn2_positionTell(d)); API("opn2_trackCount", tc = opn2_trackCount(d));
    return vfmt("chips %d/%d model %d alloc %d lfo %d/%d chiptype %d emu %s pos %.9f tracks %zu devid %u", a, b, e, f, g, h, i, en ? en : "(null)", pos, tc, (unsigned)P(d)->m_sysExDeviceId);
}
static void stage_playing(Case &c)
{
    Rng &r = c.rng;
    const long rate = r.pick((const long[]){8000, 22050, 44100});
    const int emu = r.chance(0.5) ? 0 : 2, chips = r.range(1, 3), devid = (int)r.below(16);
    SongOpts so; so.min_tracks = 2; so.max_tracks = 4; so.max_events = 30; so.tempo_changes = true; so.force_division = 96;
    Song song = gen_song(r, so); Bytes f = serialize_song(song);
    OPN2_MIDIPlayer *d[2] = {NULL, NULL};
    for(int q = 0; q < 2; q++)
    {
        API("opn2_init", d[q] = opn2_init(rate));
        if(!d[q]) { c.violation("oracle:init-failed", "opn2_init returned NULL"); if(d[0]) opn2_close(d[0]); return; }
        int rc = 0;
        API("opn2_switchEmulator", rc = opn2_switchEmulator(d[q], emu)); API("opn2_setNumChips", rc = opn2_setNumChips(d[q], chips));
        { ExactBuf b(default_bank()); API("opn2_openBankData", rc = opn2_openBankData(d[q], b.p, (long)b.n)); }
        API("opn2_setDeviceIdentifier", rc = opn2_setDeviceIdentifier(d[q], (unsigned)devid));
        API("opn2_setLoopEnabled", opn2_setLoopEnabled(d[q], 1));
        { ExactBuf in(f); API("opn2_openData", rc = opn2_openData(d[q], in.p, (unsigned long)in.n)); }
        if(rc != 0) { c.violation("oracle:C18:wellformed-music-rejected:SMF", opn2_errorInfo(d[q])); opn2_close(d[0]); if(q) opn2_close(d[1]); return; }
    }
    std::string hist = vfmt("rate %ld emu %d chips %d; ", rate, emu, chips);
    std::vector<short> pa(2 * 4096 + 16), pb(2 * 4096 + 16);
    long refused = 0, frames = 0; bool differ = false;
    const int rounds = r.range(12, 40);
    for(int it = 0; it < rounds && !differ && g_w.violations_in_case < 6; it++)
    {
        int want = 2 * (int)r.range(1, r.chance(0.5) ? 300 : 2500) + (int)r.below(2);
        int ga = 0, gb = 0;
        API("opn2_play", ga = opn2_play(d[0], want, pa.data())); API("opn2_play", gb = opn2_play(d[1], want, pb.data()));
        hist += vfmt("play(%d) ", want);
        if(ga != gb || memcmp(pa.data(), pb.data(), sizeof(short) * (size_t)std::max(ga, 0)))
        {
            long at = 0; while(at < ga && at < gb && pa[(size_t)at] == pb[(size_t)at]) at++;
            c.violation("oracle:C18:failed-call-changed:audio-while-playing", vfmt("after %ld refused calls the instance renders differently from its undisturbed twin: opn2_play(%d) -> %d vs %d, first differing sample %ld of this call (frame %ld of the run); %s",
                        refused, want, ga, gb, at, frames + at / 2, hist.size() > 700 ? hist.substr(hist.size() - 700).c_str() : hist.c_str()));
            differ = true; break;
        }
        frames += ga / 2;
        if(!r.chance(0.6)) continue;
        // a call that is certain to be refused, on the first instance only
        const std::string g0 = getter_vector(d[0]), b0 = bank_list(d[0]);
        int rc = 0; std::string api, arg;
        switch(r.below(6))
        {
        case 0: { long v = r.pick((const long[]){-1, 9, 10, 31, 32, 100, INT_MAX, INT_MIN}); api = "opn2_switchEmulator"; arg = vfmt("%ld", v); API("opn2_switchEmulator", rc = opn2_switchEmulator(d[0], (int)v)); break; }
        case 1: { long v = r.pick((const long[]){0, -1, 101, 1000, INT_MIN, INT_MAX}); api = "opn2_setNumChips"; arg = vfmt("%ld", v); API("opn2_setNumChips", rc = opn2_setNumChips(d[0], (int)v)); break; }
        case 2: { unsigned long v = r.pick((const unsigned long[]){16, 17, 127, 128, 255, 256, 0x7FFFFFFFul}); api = "opn2_setDeviceIdentifier"; arg = vfmt("%lu", v); API("opn2_setDeviceIdentifier", rc = opn2_setDeviceIdentifier(d[0], (unsigned)v)); break; }
        case 3: { long v = r.pick((const long[]){99, 1000, 64}); api = "opn2_setTrackOptions"; arg = vfmt("%ld, off", v); API("opn2_setTrackOptions", rc = opn2_setTrackOptions(d[0], (size_t)v, OPNMIDI_TrackOption_Off)); break; }
        case 4: { long v = r.pick((const long[]){16, 17, 255, 100000}); api = "opn2_setChannelEnabled"; arg = vfmt("%ld, 0", v); API("opn2_setChannelEnabled", rc = opn2_setChannelEnabled(d[0], (size_t)v, 0)); break; }
        default:
        {
            OPN2_BankId id; id.percussive = 0; id.msb = 0; id.lsb = 0;
            switch(r.below(5)) { case 0: id.msb = (OPN2_UInt8)r.range(128, 255); break; case 1: id.lsb = (OPN2_UInt8)r.range(128, 255); break; case 2: id.percussive = (OPN2_UInt8)r.range(2, 255); break;
                                 case 3: id.percussive = 1; id.msb = (OPN2_UInt8)r.range(128, 255); break; default: id.msb = 128; id.lsb = 128; break; }
            int flags = (int)r.pick((const int[]){0, OPNMIDI_Bank_Create, OPNMIDI_Bank_CreateRt});
            OPN2_Bank bk; api = "opn2_getBank"; arg = vfmt("{percussive %u, msb %u, lsb %u}, flags %d", id.percussive, id.msb, id.lsb, flags);
            API("opn2_getBank", rc = opn2_getBank(d[0], &id, flags, &bk));
            break;
        }
        }
        hist += api + "(" + arg + ") ";
        refused++; count("refused_calls_while_playing");
        if(rc == 0) c.violation("oracle:C18:invalid-argument-accepted:" + api, vfmt("%s(%s) reported success; %s", api.c_str(), arg.c_str(), hist.size() > 400 ? hist.substr(hist.size() - 400).c_str() : hist.c_str()));
        const std::string g1 = getter_vector(d[0]), b1 = bank_list(d[0]);
        if(g1 != g0) c.violation("oracle:C18:failed-call-changed:" + api + ":getters-while-playing", vfmt("%s(%s) -> %d: before [%s] after [%s]", api.c_str(), arg.c_str(), rc, g0.c_str(), g1.c_str()));
        if(b1 != b0) c.violation("oracle:C18:failed-call-changed:" + api + ":bank-list", vfmt("%s(%s) -> %d: bank list before [%s] after [%s]", api.c_str(), arg.c_str(), rc, b0.c_str(), b1.c_str()));
        // (the statement asks for an error text after rejected bank and music files only: not judged for these setters)
        cover("playing|" + api + "|" + (rc == 0 ? "accepted" : "refused"));
    }
    count("frames_compared_with_the_undisturbed_twin", frames);
    API("opn2_close", opn2_close(d[0])); API("opn2_close", opn2_close(d[1]));
    c.nontrivial = refused >= 3 && frames > 500;
    c.sample(std::string("{\"stage\":\"playing\",\"refused_calls\":") + vfmt("%ld", refused) + ",\"frames\":" + vfmt("%ld", frames) + ",\"history_tail\":" + jstr(hist.size() > 300 ? hist.substr(hist.size() - 300) : hist) + "}");
}

static void run_case(Case &c)
{
    if(g_w.stage == "playing") { stage_playing(c); return; }
    if(g_w.stage == "rsxx" || g_w.stage == "formats") { stage_rsxx(c); return; }
    Rng &r = c.rng;
    static const long rates[] = {8000, 11025, 16000, 22050, 32000, 44100, 48000, 53267};
    long rate = r.pick(rates);
    if(!rate_is_exact(rate)) rate = 8000;
    int n = r.range(15, (int)g_w.optnum("maxops", 60));
    std::vector<Op> ops = gen_history(r, n);
    if(g_w.optnum("shrink", 0))
    {   // development aid: --only K --opt shrink=1 prints a 1-minimal history for the first violation key
        std::vector<std::string> keys; std::string target = g_w.optstr("key", "");
        auto fails = [&](const std::vector<Op> &h) -> bool {
            Ctx y; keys.clear(); g_capture_keys = &keys; int saved = g_w.violations_in_case; bool inc = c.inconclusive;
            if(open_instance(c, y, rate)) { run_history(c, y, h); opn2_close(y.d); }
            g_capture_keys = NULL; g_w.violations_in_case = saved; c.inconclusive = inc;
            if(target.empty()) { if(!keys.empty()) target = keys[0]; return !keys.empty(); }
            for(size_t i = 0; i < keys.size(); i++) if(keys[i] == target) return true;
            return false;
        };
        if(fails(ops))
        {
            size_t chunk = ops.size() / 2;
            while(chunk >= 1)
            {
                bool removed = false;
                for(size_t at = 0; at + chunk <= ops.size();)
                {
                    std::vector<Op> h(ops.begin(), ops.begin() + (long)at); h.insert(h.end(), ops.begin() + (long)(at + chunk), ops.end());
                    if(fails(h)) { ops = h; removed = true; } else at += chunk;
                }
                if(!removed) chunk /= 2;
            }
            std::string hs; for(size_t i = 0; i < ops.size(); i++) hs += op_str(ops[i]) + " ";
            fprintf(stderr, "[shrink] key=%s rate=%ld minimal history (%zu ops): %s\n", target.c_str(), rate, ops.size(), hs.c_str());
        }
        else fprintf(stderr, "[shrink] case does not fail%s\n", target.empty() ? "" : " with that key");
    }
    Ctx x;
    if(!open_instance(c, x, rate)) return;
    run_history(c, x, ops);
    API("opn2_close", opn2_close(x.d));
    count("api_history_calls", x.n_ops);
    c.nontrivial = x.n_failed >= 1 && x.n_probes >= 1;
    std::string s; for(size_t i = 0; i < ops.size() && i < 14; i++) s += op_str(ops[i]) + " ";
    c.sig = s;
    c.sample(std::string("{\"rate\":") + vfmt("%ld", rate) + ",\"calls\":" + vfmt("%ld", x.n_ops) + ",\"failed_calls\":" + vfmt("%ld", x.n_failed) + ",\"differential_probes\":" + vfmt("%ld", x.n_probes) +
             ",\"final_non_default_settings\":" + jstr(x.m.nondefault()) + ",\"history_head\":" + jstr(s) + "}");
}
