// C14 — instances are deterministic and isolated, also across threads.
// Stages: replay (same history twice on fresh instances, fresh heap memory filled with different patterns),
// interfere (other instances of every emulator created/configured/rendered/closed between the calls),
// threads (2..8 threads, one instance + history each, seeded yields between API calls; compared with the sequential
// reference), and the same threads workload in the ThreadSanitizer build (reports are parsed by the supervisor).
#include "vlib.hpp"
#include "vsmf.hpp"
#include "vconv.hpp"
#include <pthread.h>
#include <sched.h>
#include <atomic>
#include <new>

static const char *harness_name() { return "c14_isolation"; }
// the default bank with LFO sensitivities on every other instrument (AMS/FMS make the chips' LFO tables audible)
static const std::vector<uint8_t> &c14_bank()
{
    static std::vector<uint8_t> img;
    if(img.empty())
    {
        WOPNFile *f = WOPN_Init(1, 1);
        f->version = 2; f->lfo_freq = 0x0B; f->chip_type = 0;
        for(unsigned i = 0; i < 128; i++)
        {
            make_instrument(f->banks_melodic[0].ins[i], i, false);
            make_instrument(f->banks_percussive[0].ins[i], i, true);
            if(i & 1) { f->banks_melodic[0].ins[i].lfosens = (uint8_t)(((i * 5) & 0x30) | 0x10 | ((i >> 1) & 7)); f->banks_percussive[0].ins[i].lfosens = (uint8_t)(0x20 | (i & 7)); }
        }
        size_t sz = WOPN_CalculateBankFileSize(f, 2);
        img.resize(sz);
        WOPN_SaveBankToMem(f, img.data(), sz, 2, 0);
        WOPN_Free(f);
    }
    return img;
}
static void harness_init() { default_bank(); c14_bank(); }

// ---------------------------------------------------------------------------------------------
// fresh heap memory (operator new and malloc) is filled with a selectable pattern (not in sanitizer builds, which own the allocator):
// state that an emulator core reads before writing it shows as a difference between two replays
// ---------------------------------------------------------------------------------------------
#if !defined(V_ASAN) && !defined(V_TSAN)
static volatile int g_fill = -1;     // -1: leave as malloc returns it; 0..255: that byte; 256: a byte sequence that reads as MIDI events
static inline void v_fill(void *p, size_t n) { if(g_fill < 256) { memset(p, g_fill, n); return; } static const unsigned char pat[4] = {0x91, 0x45, 0x64, 0x08}; unsigned char *q = (unsigned char *)p; for(size_t i = 0; i < n; i++) q[i] = pat[i & 3]; }
void *operator new(size_t n) { void *p = malloc(n ? n : 1); if(!p) throw std::bad_alloc(); if(g_fill >= 0) v_fill(p, n); return p; }
void *operator new[](size_t n) { void *p = malloc(n ? n : 1); if(!p) throw std::bad_alloc(); if(g_fill >= 0) v_fill(p, n); return p; }
void *operator new(size_t n, const std::nothrow_t &) noexcept { void *p = malloc(n ? n : 1); if(p && g_fill >= 0) v_fill(p, n); return p; }
void *operator new[](size_t n, const std::nothrow_t &) noexcept { void *p = malloc(n ? n : 1); if(p && g_fill >= 0) v_fill(p, n); return p; }
// the C allocator too (file buffers of the loaders, the cores written in C): a thin wrapper over glibc's own entry point
extern "C" void *__libc_malloc(size_t);
extern "C" void *malloc(size_t n) { void *p = __libc_malloc(n); if(p && g_fill >= 0) v_fill(p, n); return p; }
void operator delete(void *p) noexcept { free(p); }
void operator delete[](void *p) noexcept { free(p); }
void operator delete(void *p, size_t) noexcept { free(p); }
void operator delete[](void *p, size_t) noexcept { free(p); }
static void set_fill(int v) { g_fill = v; }
static const bool can_fill = true;
#else
static void set_fill(int) {}
static const bool can_fill = false;
#endif

// ---------------------------------------------------------------------------------------------
// histories
// ---------------------------------------------------------------------------------------------
struct HOp { int kind; int a, b, c; };   // 0 noteOn 1 noteOff 2 cc 3 bend 4 program 5 generate(frames=a) 6 generateFormat F32 (frames=a) 7 panic 8 sysex master volume
                                         // 9 setLfoEnabled(a) 10 setLfoFrequency(a) 11 reset 12 setChipType(a) 13 setSoftPanEnabled(a) 14 setVolumeRangeModel(a)
struct Hist { long rate; int emu; int chips; int chiptype; int pcmrate; std::vector<HOp> ops; std::vector<uint8_t> song; };

// A small song for the sequencer part of a history: 2..4 tracks on MIDI channels 9..16, a handful of keys, many same-tick
// note-on/note-off pairs (zero-length notes), keys left hanging at the end in half of the songs; one song in seven has its last
// track cut between the two data bytes of its last event (such a file must be refused, identically every time)
static std::vector<uint8_t> c14_song(Rng &r)
{
    if(r.chance(0.25))
    {   // an XMI file (the loader converts it through a scratch buffer); every other one ends without the End-of-Track event, which the
        // loader accepts: what is played must still be the file's own events
        XmiFile x; XmiSong sg = gen_xmi_song(r, 2, 12);
        if(r.chance(0.5) && sg.evnt.size() >= 3) sg.evnt.resize(sg.evnt.size() - 3);
        std::vector<uint8_t> info; put_le(info, 1, 2);
        std::vector<uint8_t> xdir; put_str(xdir, "XDIR"); iff_chunk(xdir, "INFO", info);
        std::vector<uint8_t> cat; put_str(cat, "XMID");
        std::vector<uint8_t> form; put_str(form, "XMID"); iff_chunk(form, "EVNT", sg.evnt); iff_chunk(cat, "FORM", form);
        iff_chunk(x.bytes, "FORM", xdir); iff_chunk(x.bytes, "CAT ", cat);
        return x.bytes;
    }
    Song sg; sg.format = 1; sg.division = 96; sg.running_status = r.chance(0.5);
    int nt = r.range(2, 4); sg.tracks.resize((size_t)nt);
    static const int keys[] = {60, 62, 64, 65};
    for(int t = 0; t < nt; t++)
    {
        STrack &tr = sg.tracks[(size_t)t]; int serial = 0; uint64_t tick = 0; int ch = 8 + (int)r.below(8);
        bool held[4] = {false, false, false, false};
        int n = r.range(3, 10);
        for(int i = 0; i < n; i++)
        {
            tick += (uint64_t)(r.chance(0.4) ? 0 : r.range(1, 48));
            int ki = (int)r.below(4); SEv e;
            if(r.chance(0.4) && !held[ki])
            {   // zero-length note: on and off in one tick
                e = mk_chan(tick, 0x90 | ch, keys[ki], r.range(40, 127)); e.serial = serial++; tr.ev.push_back(e);
                e = r.chance(0.5) ? mk_chan(tick, 0x80 | ch, keys[ki], 0) : mk_chan(tick, 0x90 | ch, keys[ki], 0); e.serial = serial++; tr.ev.push_back(e);
                continue;
            }
            if(held[ki]) { e = mk_chan(tick, 0x80 | ch, keys[ki], 0); held[ki] = false; } else { e = mk_chan(tick, 0x90 | ch, keys[ki], r.range(40, 127)); held[ki] = true; }
            e.serial = serial++; tr.ev.push_back(e);
        }
        if(r.chance(0.5)) for(int ki = 0; ki < 4; ki++) if(held[ki]) { SEv e = mk_chan(tick, 0x80 | ch, keys[ki], 0); e.serial = serial++; tr.ev.push_back(e); }
        tick += (uint64_t)r.range(0, 48);
        SEv eot = mk_meta(tick, 0x2F, std::vector<uint8_t>()); eot.serial = serial++; tr.ev.push_back(eot);
    }
    if(r.chance(0.6))
    {   // loop markers in the first track: a global pair or a counted stack loop
        STrack &t0 = sg.tracks[0];
        if(t0.ev.size() >= 4)
        {
            size_t a = 1 + r.below((uint32_t)(t0.ev.size() - 3)), b = a + 1 + r.below((uint32_t)(t0.ev.size() - a - 2));
            bool stack = r.chance(0.5);
            SEv ms = mk_meta_text(t0.ev[a].tick, 0x06, stack ? "loopStart=2" : "loopStart"), me = mk_meta_text(t0.ev[b].tick, 0x06, stack ? "loopEnd=0" : "loopEnd");
            ms.serial = 9001; me.serial = 9002;
            t0.ev.insert(t0.ev.begin() + (long)b, me); t0.ev.insert(t0.ev.begin() + (long)a, ms);
        }
    }
    std::vector<uint8_t> f = serialize_song(sg);
    if(r.chance(0.15))
    {   // cut the last track: ... dd 9n kk <end>; its declared length shrinks with it
        std::vector<uint8_t> lt = serialize_track(sg, sg.tracks[(size_t)nt - 1]);
        size_t head = f.size() - lt.size();                 // the track body is the tail of the file
        std::vector<uint8_t> cut(lt.begin(), lt.end() - 4);  // drop "00 FF 2F 00" (delta + End-of-Track)
        cut.push_back(0); cut.push_back((uint8_t)(0x90 | 9)); cut.push_back(60);      // delta, note-on status, key; no velocity
        f.resize(head); f.insert(f.end(), cut.begin(), cut.end());
        size_t lenpos = head - 4; uint32_t L = (uint32_t)cut.size();
        f[lenpos] = (uint8_t)(L >> 24); f[lenpos + 1] = (uint8_t)(L >> 16); f[lenpos + 2] = (uint8_t)(L >> 8); f[lenpos + 3] = (uint8_t)L;
    }
    return f;
}

static Hist gen_hist(Rng &r, int force_emu = -1, double song_p = 0.35)
{
    static const int emus[] = {0, 1, 2, 3, 4, 5, 6, 8};
    Hist h; h.rate = r.pick((const long[]){8000, 22050, 44100, 48000});
    h.emu = force_emu >= 0 ? force_emu : r.pick(emus);
    h.chips = r.range(1, 3); h.chiptype = r.range(-1, 1); h.pcmrate = r.chance(0.2) ? 1 : 0;
    bool slow = (h.emu == 1 || h.emu == 8);
    int n = r.range(8, 40);
    long frames_left = slow ? 1500 : 12000;
    for(int i = 0; i < n; i++)
    {
        HOp o; o.a = o.b = o.c = 0;
        int p = (int)r.below(100);
        if(p < 30) { o.kind = 0; o.a = (int)r.pick((const int[]){0, 1, 9}); o.b = r.range(36, 84); o.c = r.range(40, 127); }
        else if(p < 42) { o.kind = 1; o.a = (int)r.pick((const int[]){0, 1, 9}); o.b = r.range(36, 84); }
        else if(p < 52) { o.kind = 2; o.a = (int)r.pick((const int[]){0, 1, 9}); o.b = (int)r.pick((const int[]){1, 7, 10, 11, 64, 74}); o.c = r.range(0, 127); }
        else if(p < 58) { o.kind = 3; o.a = (int)r.below(2); o.b = (int)r.below(16384); }
        else if(p < 64) { o.kind = 4; o.a = (int)r.below(2); o.b = r.range(0, 127); }
        else if(p < 92) { o.kind = r.chance(0.8) ? 5 : 6; o.a = (int)std::min<long>(frames_left, r.chance(0.3) ? r.range(1, 40) : r.range(100, slow ? 400 : 1500)); frames_left -= o.a; if(o.a <= 0) { o.kind = 2; o.a = 0; o.b = 7; o.c = 100; } }
        else if(p < 93) o.kind = 7;
        else if(p < 94) { o.kind = 18; o.a = (int)r.pick((const int[]){0, 1}); o.b = r.range(40, 70); o.c = r.range(5, 12); }   // chord: more notes than one chip has channels
        else if(p < 96) { o.kind = 8; o.a = r.range(0, 127); }
        else
        {   // configuration calls in the middle of the history: they re-program or re-create the chips of this instance only
            int q = (int)r.below(7);
            o.kind = q == 6 ? 17 : 9 + q;
            o.a = q == 0 ? (int)r.below(2) : q == 1 ? r.range(0, 7) : q == 3 ? (int)r.below(2) : q == 4 ? (int)r.below(2) : q == 5 ? r.range(0, 5) : q == 6 ? 1 : 0;
        }
        h.ops.push_back(o);
    }
    HOp g; g.kind = 5; g.a = (int)std::min<long>(std::max<long>(frames_left, 64), slow ? 300 : 800); g.b = g.c = 0; h.ops.push_back(g);
    if(r.chance(0.25))
    {   // auto-arpeggio from the start and a chord early on: the arpeggio rotation runs for the rest of the history
        HOp a; a.kind = 17; a.a = 1; a.b = a.c = 0; h.ops.insert(h.ops.begin(), a);
        HOp ch; ch.kind = 18; ch.a = 0; ch.b = r.range(40, 70); ch.c = r.range(7, 14); h.ops.insert(h.ops.begin() + 1 + (long)r.below(3), ch);
    }
    if(r.chance(song_p))
    {   // sequencer part: a song is loaded somewhere in the history and played through opn2_play in a few blocks
        h.song = c14_song(r);
        size_t at = r.below((uint32_t)h.ops.size());
        HOp ld; ld.kind = 15; ld.a = ld.c = 0; ld.b = r.chance(0.5) ? 1 : 0;      // b: looping on (count 2) for this song
        std::vector<HOp> ins(1, ld);
        if(h.song.size() > 4 && memcmp(h.song.data(), "FORM", 4) == 0 && r.chance(0.7)) { HOp tk; tk.kind = 19; tk.a = r.range(200, 600); tk.b = tk.c = 0; ins.push_back(tk); }   // XMI songs are usually played to their end (tick-driven, cheap)
        const bool spread = song_p >= 1.0;       // forced sequencer threads play in more, scattered blocks: the sequencers of several threads overlap
        for(int i = 0, n = spread ? r.range(4, 8) : r.range(1, 4); i < n; i++) { HOp pl; pl.kind = 16; pl.a = slow ? r.range(50, 200) : r.range(100, 900); pl.b = pl.c = 0; if(!spread) ins.push_back(pl); else { size_t lo = at + 1 + (size_t)i; h.ops.insert(h.ops.begin() + (long)std::min(h.ops.size(), lo - 1 + r.below((uint32_t)(h.ops.size() - std::min(h.ops.size(), at) + 1))), pl); } }
        h.ops.insert(h.ops.begin() + (long)at, ins.begin(), ins.end());
        if(spread)
        {   // and they begin with the song and a stretch of tick-driven playback, so that the sequencers of the forced threads run at the same time
            // right behind the start barrier (rendering audio floods the race detector's per-thread history)
            HOp ld0 = ld; HOp tk; tk.kind = 19; tk.a = r.range(40, 160); tk.b = tk.c = 0;
            HOp first[2] = {ld0, tk};
            h.ops.insert(h.ops.begin(), first, first + 2);
        }
    }
    return h;
}

struct Out { std::vector<int16_t> pcm; std::vector<float> pcmf; std::vector<RegWrite> regs; int bad_returns; std::string emu_name; int chiptype_obtained;
             Out(): bad_returns(0), chiptype_obtained(-9) {} };

static bool same_out(const Out &a, const Out &b, std::string &why)
{
    if(a.regs.size() != b.regs.size()) { why = vfmt("register log length %zu vs %zu", a.regs.size(), b.regs.size()); return false; }
    for(size_t i = 0; i < a.regs.size(); i++) if(a.regs[i].chip != b.regs[i].chip || a.regs[i].port != b.regs[i].port || a.regs[i].reg != b.regs[i].reg || a.regs[i].val != b.regs[i].val)
    { why = vfmt("register write #%zu: chip %u port %u reg %02x val %02x vs chip %u port %u reg %02x val %02x", i, a.regs[i].chip, a.regs[i].port, a.regs[i].reg, a.regs[i].val, b.regs[i].chip, b.regs[i].port, b.regs[i].reg, b.regs[i].val); return false; }
    if(a.pcm.size() != b.pcm.size()) { why = vfmt("PCM length %zu vs %zu", a.pcm.size(), b.pcm.size()); return false; }
    for(size_t i = 0; i < a.pcm.size(); i++) if(a.pcm[i] != b.pcm[i]) { why = vfmt("PCM sample #%zu (frame %zu): %d vs %d", i, i / 2, a.pcm[i], b.pcm[i]); return false; }
    if(a.pcmf.size() != b.pcmf.size() || (a.pcmf.size() && memcmp(a.pcmf.data(), b.pcmf.data(), a.pcmf.size() * sizeof(float)))) { why = "float PCM differs"; return false; }
    return true;
}

// one step of a history on an open instance; `pause` is called between API calls (thread stage)
struct Runner
{
    OPN2_MIDIPlayer *d; Tap tap; const Hist *h; size_t pos; Out out; bool opened;
    Runner(): d(NULL), h(NULL), pos(0), opened(false) {}
    void open(const Hist &hist)
    {
        h = &hist; pos = 0;
        d = opn2_init(hist.rate);
        if(!d) { out.bad_returns++; return; }
        tap.keep_log = true; tap.attach(d);
        if(opn2_setNumChips(d, hist.chips) != 0) out.bad_returns++;
        if(opn2_switchEmulator(d, hist.emu) != 0) out.bad_returns++;
        if(hist.pcmrate) opn2_setRunAtPcmRate(d, 1);
        if(opn2_openBankData(d, c14_bank().data(), (long)c14_bank().size()) != 0) out.bad_returns++;
        if(hist.chiptype >= 0) opn2_setChipType(d, hist.chiptype);
        out.emu_name = opn2_chipEmulatorName(d);
        out.chiptype_obtained = opn2_getChipType(d);
        opened = true;
    }
    bool done() const { return !opened || pos >= h->ops.size(); }
    void step()
    {
        const HOp &o = h->ops[pos++];
        switch(o.kind)
        {
        case 0: opn2_rt_noteOn(d, (uint8_t)o.a, (uint8_t)o.b, (uint8_t)o.c); break;
        case 1: opn2_rt_noteOff(d, (uint8_t)o.a, (uint8_t)o.b); break;
        case 2: opn2_rt_controllerChange(d, (uint8_t)o.a, (uint8_t)o.b, (uint8_t)o.c); break;
        case 3: opn2_rt_pitchBend(d, (uint8_t)o.a, (OPN2_UInt16)o.b); break;
        case 4: opn2_rt_patchChange(d, (uint8_t)o.a, (uint8_t)o.b); break;
        case 5: { size_t at = out.pcm.size(); out.pcm.resize(at + (size_t)o.a * 2); int got = opn2_generate(d, o.a * 2, out.pcm.data() + at); if(got != o.a * 2) out.bad_returns++; break; }
        case 6: { size_t at = out.pcmf.size(); out.pcmf.resize(at + (size_t)o.a * 2); OPNMIDI_AudioFormat f; f.type = OPNMIDI_SampleType_F32; f.containerSize = 4; f.sampleOffset = 8;
                  int got = opn2_generateFormat(d, o.a * 2, (OPN2_UInt8 *)(out.pcmf.data() + at), (OPN2_UInt8 *)(out.pcmf.data() + at + 1), &f); if(got != o.a * 2) out.bad_returns++; break; }
        case 7: opn2_panic(d); break;
        case 9: opn2_setLfoEnabled(d, o.a); break;
        case 10: opn2_setLfoFrequency(d, o.a); break;
        case 11: opn2_reset(d); break;
        case 12: opn2_setChipType(d, o.a); break;
        case 13: opn2_setSoftPanEnabled(d, o.a); break;
        case 14: opn2_setVolumeRangeModel(d, o.a); break;
        case 19: { double dl = 0; int n = 0; for(; n < o.a; n++) { dl = opn2_tickEvents(d, dl > 0.02 ? 0.02 : dl, 1e-4); if(opn2_atEnd(d)) break; } out.pcm.push_back((int16_t)n); out.pcm.push_back((int16_t)opn2_atEnd(d)); break; }   // tick-driven playback: sequencer work without audio
        case 17: opn2_setAutoArpeggio(d, o.a); break;
        case 18: for(int j = 0; j < o.c; j++) opn2_rt_noteOn(d, (uint8_t)o.a, (uint8_t)(o.b + j), 100); break;
        case 15: { if(o.b) { opn2_setLoopEnabled(d, 1); opn2_setLoopCount(d, 2); } int rc = opn2_openData(d, h->song.data(), (unsigned long)h->song.size()); out.pcm.push_back((int16_t)(1000 + rc)); out.pcm.push_back((int16_t)opn2_trackCount(d)); break; }
        case 16: { size_t at = out.pcm.size(); out.pcm.resize(at + (size_t)o.a * 2 + 2, 0); int got = opn2_play(d, o.a * 2, out.pcm.data() + at); out.pcm[at + (size_t)o.a * 2] = (int16_t)(got & 0x7FFF); out.pcm[at + (size_t)o.a * 2 + 1] = (int16_t)opn2_atEnd(d); break; }
        default: { uint8_t m[] = {0xF0, 0x7F, 0x7F, 0x04, 0x01, 0x00, (uint8_t)o.a, 0xF7}; opn2_rt_systemExclusive(d, m, sizeof(m)); break; }
        }
    }
    void close() { if(d) { out.regs = tap.log; opn2_close(d); d = NULL; } opened = false; }
};

static Out run_alone(const Hist &h, int fill)
{
    set_fill(fill);
    Runner r; r.open(h);
    while(!r.done()) r.step();
    r.close();
    set_fill(-1);
    return r.out;
}

// interfering activity with other instances (and the global error string)
static void interfere(Rng &r, std::vector<Runner *> &others, std::vector<Hist> &hists)
{
    int k = (int)r.below(6);
    if(k == 0 && others.size() < 3)
    {
        hists.push_back(gen_hist(r)); Runner *o = new Runner(); o->open(hists.back()); others.push_back(o);
    }
    else if(k == 1 && !others.empty()) { Runner *o = others[r.below((uint32_t)others.size())]; for(int i = 0; i < 4 && !o->done(); i++) o->step(); }
    else if(k == 2 && !others.empty()) { size_t i = r.below((uint32_t)others.size()); others[i]->close(); delete others[i]; others.erase(others.begin() + (long)i); }
    else if(k == 3) { OPN2_MIDIPlayer *t = opn2_init(r.pick((const long[]){8000, 44100})); if(t) { if(r.chance(0.3)) opn2_setRunAtPcmRate(t, 1); opn2_switchEmulator(t, (int)r.pick((const int[]){1, 8, 0, 5, 4, 2, 3, 6})); opn2_setChipType(t, (int)r.below(2)); short b[64]; opn2_generate(t, 64, b); opn2_close(t); } }
    else if(k == 4) { (void)opn2_openBankFile(NULL, "/nonexistent"); (void)strlen(opn2_errorString()); (void)opn2_errorInfo(NULL); }
    else if(!others.empty()) { Runner *o = others[r.below((uint32_t)others.size())]; if(o->d) { opn2_switchEmulator(o->d, (int)r.pick((const int[]){1, 8, 0, 2})); } }
}

// ---------------------------------------------------------------------------------------------
// threads
// ---------------------------------------------------------------------------------------------
struct TEvent { uint32_t ticket; uint8_t thread; uint8_t begin; };
struct ThreadCtx
{
    int index; const Hist *h; Out out; uint64_t yseed; Runner *pre; pthread_barrier_t *barrier; std::atomic<uint32_t> *ticket; std::vector<TEvent> events; std::atomic<int> *in_call; std::vector<uint32_t> overlap_with;
};
static void *thread_main(void *arg)
{
    ThreadCtx *t = (ThreadCtx *)arg;
    Rng yr(t->yseed, 31, (uint64_t)t->index);
    pthread_barrier_wait(t->barrier);
    // hand-off: the instance may have been created and configured by the main thread before this thread was started; the thread that
    // makes the calls is not part of an instance's history
    Runner own; Runner &r = t->pre ? *t->pre : own;
    // the bookkeeping atomics are relaxed on purpose: an acquire/release ticket would order every API call of one thread before the
    // next call of any other thread and hide from ThreadSanitizer all races that are not caught red-handed
    auto mark = [&](int begin) { TEvent e; e.ticket = t->ticket->fetch_add(1, std::memory_order_relaxed); e.thread = (uint8_t)t->index; e.begin = (uint8_t)begin; t->events.push_back(e); };
    if(!t->pre) { mark(1); t->in_call[t->index].store(1, std::memory_order_relaxed); r.open(*t->h); t->in_call[t->index].store(0, std::memory_order_relaxed); mark(0); }
    while(!r.done())
    {
        int y = (int)yr.below(10);
        if(y < 4) sched_yield(); else if(y == 4) { struct timespec ts = {0, (long)yr.below(200000)}; nanosleep(&ts, NULL); }
        mark(1); t->in_call[t->index].store(1, std::memory_order_relaxed);
        for(int j = 0; j < 8; j++) if(j != t->index && t->in_call[j].load(std::memory_order_relaxed)) t->overlap_with[(size_t)j]++;
        r.step();
        t->in_call[t->index].store(0, std::memory_order_relaxed); mark(0);
    }
    mark(1); r.close(); mark(0);
    t->out = r.out;
    return NULL;
}

static long s_cases_done = 0;
static void run_case(Case &c)
{
    Rng &r = c.rng;
    const std::string &st = g_w.stage;
    if(st == "replay")
    {
        static const int emus[] = {0, 1, 2, 3, 4, 5, 6, 8};
        Hist h = gen_hist(r, emus[c.k % 8]);
        int f1 = can_fill ? 0x00 : -1, f2 = can_fill ? (int)r.pick((const int[]){0xFF, 0xA5, 0x7F, 256}) : -1;
        Out a = run_alone(h, f1), b = run_alone(h, f2);
        std::string why;
        if(a.bad_returns || b.bad_returns) { c.inconclusive = true; count("inconclusive_history_rejected"); }
        else if(!same_out(a, b, why)) c.violation(vfmt("oracle:C14:replay-differs:emu-%d", h.emu), vfmt("same history twice on fresh instances (fresh heap filled with %02x / %02x): %s; emulator %d (%s), %d chips, rate %ld, %zu ops", f1 & 255, f2 & 255, why.c_str(), h.emu, a.emu_name.c_str(), h.chips, h.rate, h.ops.size()));
        c.nontrivial = a.pcm.size() + a.pcmf.size() > 200;
        bool nonsilent = false; for(size_t i = 0; i < a.pcm.size(); i++) if(a.pcm[i] > 300 || a.pcm[i] < -300) nonsilent = true;
        cover(vfmt("replay|emu%d|chips%d|type%d|rate%ld|%s", h.emu, h.chips, a.chiptype_obtained, h.rate, nonsilent ? "sound" : "quiet"));
        count("pcm_frames_compared", (long long)(a.pcm.size() / 2 + a.pcmf.size() / 2)); count("register_writes_compared", (long long)a.regs.size());
        c.sample(vfmt("{\"stage\":\"replay\",\"emulator\":%d,\"chips\":%d,\"rate\":%ld,\"ops\":%zu,\"pcm_frames\":%zu,\"register_writes\":%zu}", h.emu, h.chips, h.rate, h.ops.size(), a.pcm.size() / 2, a.regs.size()));
        return;
    }
    if(st == "fresh" || st == "fresh-child")
    {   // the same history in this long-lived worker (after many other instances of every core and family) and as the very
        // first thing a newly exec'ed process does: process-wide state frozen by whoever came first shows as a difference
        static const int emus[] = {0, 1, 2, 3, 4, 5, 6, 8};
        Hist h = gen_hist(r, emus[(c.k * 7 + c.k / 16) % 8]);
        Out a = run_alone(h, can_fill ? 0 : -1);
        uint64_t hsh = fnv1a(a.pcm.data(), a.pcm.size() * sizeof(int16_t));
        hsh = fnv1a(a.pcmf.data(), a.pcmf.size() * sizeof(float), hsh);
        for(size_t i = 0; i < a.regs.size(); i++) { uint32_t v[4] = {(uint32_t)a.regs[i].chip, (uint32_t)a.regs[i].port, (uint32_t)a.regs[i].reg, (uint32_t)a.regs[i].val}; hsh = fnv1a(v, sizeof(v), hsh); }
        if(st == "fresh-child") { printf("HASH %016llx %zu %zu\n", (unsigned long long)hsh, a.pcm.size(), a.regs.size()); fflush(stdout); return; }
        char exe[512]; ssize_t n = readlink("/proc/self/exe", exe, sizeof(exe) - 1);
        if(n <= 0) { c.inconclusive = true; return; }
        exe[n] = 0;
        std::string cmd = vfmt("'%s' --seed %llu --stream %llu --stage fresh-child --variant %s --tier %s --only %ld --budget 120 2>/dev/null", exe, (unsigned long long)g_w.seed, (unsigned long long)c.stream, g_w.variant.c_str(), g_w.tier.c_str(), c.k);
        FILE *pf = popen(cmd.c_str(), "r");
        unsigned long long child = 0; size_t cp = 0, cr = 0; bool got = false;
        if(pf) { char line[256]; while(fgets(line, sizeof(line), pf)) if(sscanf(line, "HASH %llx %zu %zu", &child, &cp, &cr) == 3) got = true; pclose(pf); }
        if(!got || a.bad_returns) { c.inconclusive = true; count("inconclusive_fresh_process_failed"); return; }
        if(child != (unsigned long long)hsh)
            c.violation(vfmt("oracle:C14:output-depends-on-process-history:emu-%d", h.emu), vfmt("history %ld rendered in this worker (after %ld earlier cases) differs from the same history as the first action of a new process (hash %016llx vs %016llx, %zu/%zu PCM samples, %zu/%zu register writes); emulator %d (%s), chip type %d, %d chips, rate %ld", c.k, s_cases_done, (unsigned long long)hsh, child, a.pcm.size(), cp, a.regs.size(), cr, h.emu, a.emu_name.c_str(), a.chiptype_obtained, h.chips, h.rate));
        c.nontrivial = s_cases_done > 0 && a.pcm.size() + a.pcmf.size() > 200;
        cover(vfmt("fresh|emu%d|type%d|aged%d", h.emu, a.chiptype_obtained, s_cases_done > 0 ? 1 : 0));
        s_cases_done++;
        count("histories_compared_with_a_fresh_process", 1);
        c.sample(vfmt("{\"stage\":\"fresh\",\"emulator\":%d,\"chip_type\":%d,\"earlier_cases_in_this_process\":%ld,\"hash\":\"%016llx\"}", h.emu, a.chiptype_obtained, s_cases_done - 1, (unsigned long long)hsh));
        return;
    }
    if(st == "interfere")
    {
        static const int emus[] = {0, 1, 2, 3, 4, 5, 6, 8};
        Hist h = gen_hist(r, emus[c.k % 8]);
        Out ref = run_alone(h, can_fill ? 0 : -1);
        set_fill(can_fill ? 0 : -1);
        Runner x; x.open(h);
        std::vector<Runner *> others; std::vector<Hist> hists; hists.reserve(64);
        int nint = 0;
        std::string kinds;
        while(!x.done())
        {
            int m = (int)r.below(3);
            for(int i = 0; i < m; i++) { if(hists.size() >= 60) break; interfere(r, others, hists); nint++; }
            x.step();
        }
        x.close();
        for(size_t i = 0; i < others.size(); i++) { others[i]->close(); delete others[i]; }
        set_fill(-1);
        std::string why;
        if(ref.bad_returns || x.out.bad_returns) { c.inconclusive = true; count("inconclusive_history_rejected"); }
        else if(!same_out(ref, x.out, why)) c.violation(vfmt("oracle:C14:output-changed-by-other-instances:emu-%d", h.emu), vfmt("history alone vs the same history with %d interfering actions on other instances: %s; emulator %d (%s), chip type %d, %d chips, rate %ld", nint, why.c_str(), h.emu, ref.emu_name.c_str(), ref.chiptype_obtained, h.chips, h.rate));
        c.nontrivial = nint > 0;
        cover(vfmt("interfere|emu%d|n%d", h.emu, std::min(nint / 5, 6)));
        count("interfering_actions", nint); count("pcm_frames_compared", (long long)(ref.pcm.size() / 2));
        c.sample(vfmt("{\"stage\":\"interfere\",\"emulator\":%d,\"interfering_actions\":%d,\"pcm_frames\":%zu}", h.emu, nint, ref.pcm.size() / 2));
        return;
    }
    // threads (plain: bit-exact comparison; tsan: race reports are collected by the supervisor from stderr)
    {
        int nthreads = r.range(2, 8);
        std::vector<Hist> hs; for(int i = 0; i < nthreads; i++) hs.push_back(gen_hist(r, -1, 0.7));   // most threads also run a sequencer
        for(int i = 0; i < 2; i++) if(hs[(size_t)i].song.empty()) hs[(size_t)i] = gen_hist(r, -1, 1.0);     // at least two sequencers run side by side in every case
        if(st == "tsan-light")
        {   // no audio at all: real-time events, settings, loads and tick-driven playback only. Rendering floods ThreadSanitizer's per-thread
            // access history (a race is reported only while the other access is still in it), so this stage is the sensitive one for
            // everything outside the chip emulators: sequencer, synthesizer front end, bank map, error strings
            for(int i = 0; i < nthreads; i++)
            {
                if(hs[(size_t)i].song.empty()) hs[(size_t)i] = gen_hist(r, -1, 1.0);
                std::vector<HOp> &ops = hs[(size_t)i].ops, keep;
                for(size_t j = 0; j < ops.size(); j++)
                {
                    if(ops[j].kind == 5) continue;
                    if(ops[j].kind == 16) { HOp tk; tk.kind = 19; tk.a = 5 + ops[j].a / 40; tk.b = tk.c = 0; keep.push_back(tk); continue; }
                    keep.push_back(ops[j]);
                }
                ops.swap(keep);
            }
            count("cases_without_audio");
        }
        { int ns = 0; for(int i = 0; i < nthreads; i++) ns += hs[(size_t)i].song.empty() ? 0 : 1; count("threads_with_a_song_in_the_same_case", ns); }
        std::vector<Out> refs;
        bool compare = (g_w.variant != "tsan");
        if(compare) for(int i = 0; i < nthreads; i++) refs.push_back(run_alone(hs[(size_t)i], -1));
        pthread_barrier_t barrier; pthread_barrier_init(&barrier, NULL, (unsigned)nthreads);
        std::atomic<uint32_t> ticket(0); std::atomic<int> in_call[8]; for(int i = 0; i < 8; i++) in_call[i].store(0);
        std::vector<ThreadCtx> ctx((size_t)nthreads); std::vector<pthread_t> th((size_t)nthreads);
        for(int i = 0; i < nthreads; i++) { ctx[(size_t)i].index = i; ctx[(size_t)i].h = &hs[(size_t)i]; ctx[(size_t)i].yseed = r.next(); ctx[(size_t)i].barrier = &barrier; ctx[(size_t)i].ticket = &ticket; ctx[(size_t)i].in_call = in_call; ctx[(size_t)i].overlap_with.assign(8, 0); ctx[(size_t)i].pre = NULL; }
        // about a third of the instances are created and configured here, on the main thread, and handed to their thread
        std::vector<Runner *> handed;
        // (under ThreadSanitizer creating an instance costs seconds: one hand-off per case at most there)
        const double hand_p = g_w.variant == "tsan" ? 0.5 / nthreads : 0.35;
        for(int i = 0; i < nthreads; i++) if(r.chance(hand_p)) { Runner *pr = new Runner(); pr->open(hs[(size_t)i]); ctx[(size_t)i].pre = pr; handed.push_back(pr); count("instances_created_on_the_main_thread_and_run_on_another"); }
        for(int i = 0; i < nthreads; i++) pthread_create(&th[(size_t)i], NULL, thread_main, &ctx[(size_t)i]);
        for(int i = 0; i < nthreads; i++) pthread_join(th[(size_t)i], NULL);
        pthread_barrier_destroy(&barrier);
        for(size_t i = 0; i < handed.size(); i++) delete handed[i];
        // interleaving signature: global order of call begin/end events by ticket
        std::vector<TEvent> all; for(int i = 0; i < nthreads; i++) all.insert(all.end(), ctx[(size_t)i].events.begin(), ctx[(size_t)i].events.end());
        std::sort(all.begin(), all.end(), [](const TEvent &a, const TEvent &b) { return a.ticket < b.ticket; });
        uint64_t hsh = 1469598103934665603ull; for(size_t i = 0; i < all.size(); i++) { uint8_t v = (uint8_t)(all[i].thread * 2 + all[i].begin); hsh = fnv1a(&v, 1, hsh); }
        long overlaps = 0;
        for(int i = 0; i < nthreads; i++) for(int j = 0; j < 8; j++) if(ctx[(size_t)i].overlap_with[(size_t)j]) { overlaps += ctx[(size_t)i].overlap_with[(size_t)j]; cover(vfmt("overlap|emu%d|emu%d", hs[(size_t)i].emu, j < nthreads ? hs[(size_t)j].emu : -1)); }
        cover(vfmt("interleaving|%016llx", (unsigned long long)hsh));
        count("overlapping_call_pairs_observed", overlaps); count("thread_api_calls", (long long)all.size() / 2);
        if(compare)
            for(int i = 0; i < nthreads; i++)
            {
                std::string why;
                if(refs[(size_t)i].bad_returns || ctx[(size_t)i].out.bad_returns) { c.inconclusive = true; continue; }
                if(!same_out(refs[(size_t)i], ctx[(size_t)i].out, why))
                { c.violation(vfmt("oracle:C14:output-changed-by-other-threads:emu-%d", hs[(size_t)i].emu), vfmt("thread %d of %d (emulator %d %s, chip type %d): %s; other emulators:%s", i, nthreads, hs[(size_t)i].emu, refs[(size_t)i].emu_name.c_str(), refs[(size_t)i].chiptype_obtained, why.c_str(),
                              [&]() { std::string s; for(int j = 0; j < nthreads; j++) if(j != i) s += vfmt(" %d", hs[(size_t)j].emu); return s; }().c_str())); break; }
            }
        c.nontrivial = overlaps > 0;
        c.sample(vfmt("{\"stage\":\"%s\",\"threads\":%d,\"api_calls\":%zu,\"overlapping_call_pairs\":%ld,\"interleaving_hash\":\"%016llx\"}", st.c_str(), nthreads, all.size() / 2, overlaps, (unsigned long long)hsh));
    }
}
