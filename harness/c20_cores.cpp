// C20 — every emulator core sounds the programmed pitch and goes silent on release.
//
// One case = one fresh instance configured for one matrix cell (core, requested chip family, output rate,
// run-at-PCM-rate, chips) and one scenario:
//   noteoff / panic / reset : idle 50 ms -> note-on key k vel 127 -> hold -> ending -> 150 ms -> silence >= 300 ms
//   chord                   : idle -> 6 x chips notes at once -> hold -> note-offs -> 150 ms -> silence >= 300 ms
//   burst                   : idle -> (notes held and heard) -> 50..200 note-on/off/controller events WITHOUT audio
//                             -> note-off for every key + opn2_panic -> 150 ms -> silence >= 300 ms; four variants:
//                             pairs (chord released, then a run of on/off pairs), release-first, random, cold (no prelude)
// The PCM of opn2_generate (int16 interleaved, rendered in chunks of varying size into exactly sized heap
// blocks) is the only observation; hook H3 (m_verifFramesOut) gives the frame of the note-on.
// Oracle (DESIGN.md C20, thresholds are measurement granularity):
//   idle     : first 50 ms (minus 2 ms in which the linear resampler of a new chip ramps from 0 to the core's DAC offset)
//              constant within 1 % of full scale; its mean is the instance's idle level
//   onset    : first frame with |x - idle| > 5 % of the steady amplitude is <= 10 ms after the note-on     (native rate only)
//   pitch    : interpolated positive-going zero crossings AND autocorrelation peak, both within 0.5 % of
//              440*2^((k-69)/12) (1 % below 22050 Hz); only when the cores run at their native rate and
//              nominal < 0.4 x output rate                                                                (native rate only)
//   audible  : RMS of every 20 ms window of the held part > 1 % of full scale                             (native rate only)
//   silence  : every frame later than ending + 150 ms within 1 % of full scale of the idle level, both channels,
//              for >= 300 ms                                                                              (both modes)
#include "vlib.hpp"

static const char *harness_name() { return "c20_cores"; }
static void harness_init() {}

static const int  CORES[8] = {0, 1, 2, 3, 4, 5, 6, 8};
static const char *CORE_NAME[9] = {"MAME-YM2612", "Nuked-YM3438", "GENS", "YMFM-OPN2", "NP2-OPNA", "MAME-YM2608", "YMFM-OPNA", "VGM", "Nuked-YM2612"};
static const long RATES[9] = {8000, 11025, 22050, 44100, 48000, 53267, 55466, 96000, 192000};
enum Scen { S_NOTEOFF = 0, S_PANIC, S_RESET, S_CHORD, S_BURST, S_COUNT, S_PROBE = S_COUNT };
static const char *SCEN_NAME[S_COUNT + 1] = {"noteoff", "panic", "reset", "chord", "burst", "probe"};

static const double FS1 = 327.0;          // 1 % of full scale
static const double IDLE_MS = 50, PRIME_MS = 2, ONSET_MS = 10, SKIP_MS = 20, REL_MS = 150, SIL_MS = 300, WIN_MS = 20;

struct Cell { int core, fam, pcm, chips, scen, key; long rate; };

static bool is_nuked(int core) { return core == 1 || core == 8; }

static Cell decode(Case &c)
{
    Cell x;
    long k = c.k;
    long r = k / 72, i = k % 72;
    int rate_i = (int)(i / 8);
    int core_i = (int)((i % 8 + 3 * rate_i + r) % 8);
    long c60 = (r * 17 + core_i * 7 + rate_i * 13) % 60;
    x.core = CORES[core_i];
    x.rate = RATES[rate_i];
    x.scen = (int)(c60 % 5);
    x.pcm = (int)((c60 / 5) % 2);
    x.fam = (int)((c60 / 10) % 2);
    x.chips = 1 + (int)((c60 / 20) % 3);
    int lo = is_nuked(x.core) ? 48 : 24;
    int u = (int)c.rng.below(10);
    x.key = u == 0 ? lo : u == 1 ? 108 : c.rng.range(lo, 108);
    if(g_w.stage == "voices")
    {   // one measured note on a chip whose other voices have been, or are, in use: every core x output rate, native rate only
        static const long vr[5] = {11025, 22050, 44100, 48000, 53267};
        x.core = CORES[k % 8]; x.rate = vr[(k / 8) % 5]; x.pcm = 0; x.fam = (int)((k / 40) % 2); x.chips = 1 + (int)((k / 80) % 2); x.scen = S_PROBE;
        x.key = c.rng.range(is_nuked(x.core) ? 48 : 36, 96);
    }
    const char *f = getenv("VERIF_C20_FORCE");   // development aid: core,fam,rate,pcm,chips,scen,key
    if(f) { int a[7] = {x.core, x.fam, (int)x.rate, x.pcm, x.chips, x.scen, x.key}; sscanf(f, "%d,%d,%d,%d,%d,%d,%d", &a[0], &a[1], &a[2], &a[3], &a[4], &a[5], &a[6]);
            x.core = a[0]; x.fam = a[1]; x.rate = a[2]; x.pcm = a[3]; x.chips = a[4]; x.scen = a[5]; x.key = a[6]; }
    return x;
}

static bool g_dbg = false;
#define DBG(...) do { if(g_dbg) fprintf(stderr, __VA_ARGS__); } while(0)

// ------------------------------------------------------------------------------------------
// instance + renderer
// ------------------------------------------------------------------------------------------
struct Inst
{
    OPN2_MIDIPlayer *dev;
    long rate;
    std::vector<int16_t> L, R;
    Case *c;
    uint64_t hook0;
    bool short_read;
    Inst(): dev(NULL), rate(0), c(NULL), hook0(0), short_read(false) {}
    size_t pos() const { return L.size(); }
    size_t ms(double m) const { return (size_t)ceil(m * 1e-3 * (double)rate); }
    void render(size_t frames)
    {
        static const int chunks[] = {1, 2, 7, 64, 100, 255, 256, 257, 511, 512, 513, 1000, 1024, 2048, 4096, 5000};
        while(frames > 0)
        {
            size_t n = (size_t)c->rng.pick(chunks);
            if(n > frames) n = frames;
            int16_t *buf = (int16_t *)malloc(n * 2 * sizeof(int16_t));   // exact size: overrun = ASan report
            memset(buf, 0x55, n * 2 * sizeof(int16_t));
            int rc = 0;
            API("opn2_generate", rc = opn2_generate(dev, (int)(n * 2), buf));
            if(rc != (int)(n * 2)) { short_read = true; c->violation("oracle:C20:generate-short-count", vfmt("opn2_generate(%d) returned %d", (int)(n * 2), rc)); }
            for(size_t i = 0; i < n; i++) { L.push_back(buf[2 * i]); R.push_back(buf[2 * i + 1]); }
            free(buf);
            frames -= n;
        }
    }
    // frame index (in L/R) at which the next library call takes effect, cross-checked with hook H3
    size_t now()
    {
        uint64_t h = P(dev)->m_verifFramesOut - hook0;
        if(h != (uint64_t)L.size()) c->inconclusive = true;
        return L.size();
    }
};

static int g_rs = 0;          // rate scaling (key scaling of the envelope rates) of the case's instruments: 0..3; the sustain rate stays 0, the tone holds
static bool g_longhold = false;
static void pure_tone(OPN2_Instrument &in, int audible_op, uint8_t tl)
{
    memset(&in, 0, sizeof(in));
    in.version = 0;
    in.note_offset = 0;
    in.midi_velocity_offset = 0;
    in.percussion_key_number = 0;
    in.inst_flags = 0;
    in.fbalg = 0x07;       // algorithm 7 (four parallel carriers), feedback 0
    in.lfosens = 0;
    for(int op = 0; op < 4; op++)
    {
        in.operators[op].dtfm_30 = 0x01;                 // DT 0, MUL 1
        in.operators[op].level_40 = op == audible_op ? tl : 127;
        in.operators[op].rsatk_50 = (uint8_t)((g_rs << 6) | 0x1F);   // attack max, rate scaling of the case
        in.operators[op].amdecay1_60 = 0;
        in.operators[op].decay2_70 = 0;
        in.operators[op].susrel_80 = 0x0F;               // sustain level 0 (full), release max
        in.operators[op].ssgeg_90 = 0;
    }
    in.delay_on_ms = 40000;
    in.delay_off_ms = 100;
}

static bool write_bank(Inst &I)
{
    OPN2_BankId id; id.percussive = 0; id.msb = 0; id.lsb = 0;
    OPN2_Bank bk; memset(&bk, 0, sizeof(bk));
    int rc = -1;
    API("opn2_getBank", rc = opn2_getBank(I.dev, &id, OPNMIDI_Bank_Create, &bk));
    if(rc != 0) { I.c->violation("oracle:C20:bank-create-failed", vfmt("opn2_getBank(create melodic 0) = %d", rc)); return false; }
    for(unsigned p = 0; p < 4; p++)
    {
        OPN2_Instrument in; pure_tone(in, p == 1 ? 0 : 3, (uint8_t)(p == 2 ? 0x08 : 0x00));
        API("opn2_setInstrument", rc = opn2_setInstrument(I.dev, &bk, p, &in));
        if(rc != 0) { I.c->violation("oracle:C20:set-instrument-failed", vfmt("opn2_setInstrument(%u) = %d", p, rc)); return false; }
    }
    return true;
}

// ------------------------------------------------------------------------------------------
// PCM analysis
// ------------------------------------------------------------------------------------------
static double mean_of(const std::vector<int16_t> &x, size_t a, size_t b) { double s = 0; for(size_t i = a; i < b; i++) s += x[i]; return b > a ? s / (double)(b - a) : 0; }
static double maxdev(const std::vector<int16_t> &x, size_t a, size_t b, double ref, size_t *where = NULL)
{
    double m = 0; for(size_t i = a; i < b && i < x.size(); i++) { double d = fabs(x[i] - ref); if(d > m) { m = d; if(where) *where = i; } } return m;
}
static double rms_of(const std::vector<int16_t> &x, size_t a, size_t b, double ref) { double s = 0; for(size_t i = a; i < b; i++) { double d = x[i] - ref; s += d * d; } return b > a ? sqrt(s / (double)(b - a)) : 0; }

// period (frames) from interpolated positive-going zero crossings of x[a..b) - dc; returns 0 when < 3 crossings
static double zc_period(const std::vector<int16_t> &x, size_t a, size_t b, double dc, int *ncross)
{
    double first = -1, last = -1; int n = 0;
    for(size_t i = a + 1; i < b; i++)
    {
        double p = x[i - 1] - dc, q = x[i] - dc;
        if(p < 0 && q >= 0) { double t = (double)(i - 1) + (-p) / (q - p); if(n == 0) first = t; last = t; n++; }
    }
    if(ncross) *ncross = n;
    if(n < 3) return 0;
    return (last - first) / (double)(n - 1);
}

struct ACorr
{
    const std::vector<double> &y; size_t n;
    ACorr(const std::vector<double> &y_): y(y_), n(y_.size()) {}
    double at(long lag, size_t stride = 1) const
    {   // unbiased estimate (normalised by the number of products)
        if(lag < 0 || (size_t)lag + 2 >= n) return -1e300;
        double s = 0; size_t m = n - (size_t)lag, cnt = 0;
        for(size_t i = 0; i < m; i += stride) { s += y[i] * y[i + (size_t)lag]; cnt++; }
        return s / (double)cnt;
    }
    // maximum of r over [lo,hi]; coarse grid first when the range is wide
    long argmax(long lo, long hi) const
    {
        if(lo < 1) lo = 1;
        if(hi > (long)n - 3) hi = (long)n - 3;
        if(hi < lo) return -1;
        long step = (hi - lo) / 48; if(step < 1) step = 1;
        long best = lo; double bv = -1e300;
        for(long l = lo; l <= hi; l += step) { double v = at(l, (size_t)step); if(v > bv) { bv = v; best = l; } }
        if(step > 1)
        {
            long a = std::max(lo, best - step), b = std::min(hi, best + step);
            bv = -1e300;
            for(long l = a; l <= b; l++) { double v = at(l, step > 8 ? 4 : 1); if(v > bv) { bv = v; best = l; } }
        }
        return best;
    }
    // sub-sample position of the peak next to integer lag l: three-point fit of A*cos(w(l - lp)) (exact for a sine,
    // tends to the parabolic formula for long periods)
    double refine(long l) const
    {
        double ym = at(l - 1), y0 = at(l), yp = at(l + 1);
        if(!(y0 > 0)) return (double)l;
        double cw = (ym + yp) / (2 * y0);
        double d;
        if(cw > 0.98 || cw < -1.0 || !(cw == cw))
        {   // long period: parabola
            double den = ym - 2 * y0 + yp;
            d = den < 0 ? 0.5 * (ym - yp) / den : 0;
        }
        else
        {
            double w = acos(cw);
            d = atan2((yp - ym) / (2 * sin(w)), y0) / w;
        }
        if(d > 1) d = 1; if(d < -1) d = -1;
        return (double)l + d;
    }
};

// period from the autocorrelation: first-period peak searched in [0.75,1.34] x nominal, then refined on growing multiples
static double ac_period(const std::vector<int16_t> &x, size_t a, size_t b, double dc, double nominal_period, double *quality)
{
    std::vector<double> y(b - a);
    for(size_t i = a; i < b; i++) y[i - a] = x[i] - dc;
    ACorr ac(y);
    double r0 = ac.at(0);
    if(quality) *quality = 0;
    if(!(r0 > 0)) return 0;
    long lo = (long)floor(nominal_period * 0.75), hi = (long)ceil(nominal_period * 1.34);
    if(lo < 1) lo = 1;
    if(hi < lo + 2) hi = lo + 2;
    long l1 = ac.argmax(lo, hi);
    if(l1 < 0) return 0;
    double P = ac.refine(l1);
    if(l1 <= lo || l1 >= hi) { if(quality) *quality = -1; return P; }   // no peak inside the window
    long maxlag = (long)std::min<size_t>(y.size() / 2, 6000);
    double m = 1;
    for(int it = 0; it < 6; it++)
    {
        double m2 = floor(std::min((double)maxlag / P, m * 6));
        if(m2 <= m) break;
        double centre = m2 * P;
        // the window must hold exactly one peak of cos(w l): strictly narrower than one period
        long l = ac.argmax((long)floor(centre - 0.4 * P + 0.5), (long)floor(centre + 0.4 * P + 0.5));
        if(l < 0) break;
        double Lp = ac.refine(l);
        P = Lp / m2; m = m2;
        if(quality) *quality = ac.at(l) / r0;
    }
    if(m == 1 && quality) *quality = ac.at(l1) / r0;
    return P;
}

// ------------------------------------------------------------------------------------------
// statistics kept by the worker (per core)
// ------------------------------------------------------------------------------------------
static double g_worst_pitch[9] = {0};   // relative error
static double g_worst_onset_ms[9] = {0};
static double g_min_rms[9] = {1e9, 1e9, 1e9, 1e9, 1e9, 1e9, 1e9, 1e9, 1e9};
static double g_max_resid[9] = {0};
static long g_cases_done = 0;

static std::string stats_json()
{
    std::string s = "{";
    for(int i = 0; i < 8; i++)
    {
        int cid = CORES[i];
        if(i) s += ",";
        s += jstr(CORE_NAME[cid]) + vfmt(":{\"worst_pitch_err_ppm\":%.0f,\"worst_onset_ms\":%.2f,\"min_window_rms\":%.0f,\"max_residual_after_release\":%.0f}",
                                          g_worst_pitch[cid] * 1e6, g_worst_onset_ms[cid], g_min_rms[cid] > 1e8 ? -1.0 : g_min_rms[cid], g_max_resid[cid]);
    }
    return s + "}";
}

// ------------------------------------------------------------------------------------------
// the case
// ------------------------------------------------------------------------------------------
struct Ctx
{
    Case &c; Inst &I; Cell x;
    int fam_eff; bool native; double idleL, idleR;
    std::string tag;      // "core-N"
    std::string cfg;      // text for details
    Ctx(Case &c_, Inst &I_, const Cell &x_): c(c_), I(I_), x(x_), fam_eff(0), native(true), idleL(0), idleR(0) {}
    void cov(const char *clause) { cover(vfmt("%d|f%d|%ld|pcm%d|%s", x.core, fam_eff, x.rate, x.pcm, clause)); count("clauses_evaluated"); }
};

static bool setup(Ctx &t)
{
    Inst &I = t.I; Case &c = t.c; const Cell &x = t.x;
    API("opn2_init", I.dev = opn2_init(x.rate));
    if(!I.dev) { c.violation("oracle:C20:init-failed", vfmt("opn2_init(%ld) returned NULL", x.rate)); return false; }
    I.rate = x.rate; I.c = &c;
    int rc = 0;
    // the four configuration calls in a per-case order (each of them re-creates the chips: which one comes last must not matter)
    int order[4] = {0, 1, 2, 3};
    { uint32_t q = (uint32_t)(c.k / 7 + c.k) % 24; for(int i = 3; i > 0; i--) { int j = (int)(q % (uint32_t)(i + 1)); q /= (uint32_t)(i + 1); std::swap(order[i], order[j]); } }
    for(int oi = 0; oi < 4; oi++)
        switch(order[oi])
        {
        case 0: API("opn2_setNumChips", rc = opn2_setNumChips(I.dev, x.chips));
                if(rc != 0) { c.violation("oracle:C20:setup-rejected:opn2_setNumChips", vfmt("%d -> %d", x.chips, rc)); return false; } break;
        case 1: API("opn2_switchEmulator", rc = opn2_switchEmulator(I.dev, x.core));
                if(rc != 0) { c.violation("oracle:C20:setup-rejected:opn2_switchEmulator", vfmt("%d -> %d", x.core, rc)); return false; } break;
        case 2: API("opn2_setChipType", opn2_setChipType(I.dev, x.fam)); break;
        default: API("opn2_setRunAtPcmRate", rc = opn2_setRunAtPcmRate(I.dev, x.pcm));
                if(rc != 0) { c.violation("oracle:C20:setup-rejected:opn2_setRunAtPcmRate", vfmt("%d -> %d", x.pcm, rc)); return false; } break;
        }
    cover(vfmt("setup-order-last-%d", order[3]));
    if(!write_bank(I)) return false;
    int fam = -1, nch = 0;
    API("opn2_getChipType", fam = opn2_getChipType(I.dev));
    API("opn2_getNumChipsObtained", nch = opn2_getNumChipsObtained(I.dev));
    Synth &synth = *P(I.dev)->m_synth;
    if(nch != x.chips || synth.m_chips.size() != (size_t)x.chips) { c.inconclusive = true; return false; }
    OPNChipBase *chip0 = synth.m_chips[0].get();
    int cfam = (int)chip0->family();
    // three-valued: a core may override the requested family; the instance must be consistent with itself
    if(fam != cfam) c.violation(std::string("oracle:C20:family-inconsistent:") + t.tag, vfmt("opn2_getChipType=%d but the core reports family %d (requested %d)", fam, cfam, x.fam));
    t.fam_eff = fam;
    bool pcm_eff = chip0->isRunningAtPcmRate();
    t.native = !pcm_eff;
    for(size_t i = 0; i < synth.m_chips.size(); i++) if(synth.m_chips[i]->isRunningAtPcmRate() != pcm_eff || (int)synth.m_chips[i]->family() != cfam) c.inconclusive = true;
    const char *en = NULL; API("opn2_chipEmulatorName", en = opn2_chipEmulatorName(I.dev));
    t.cfg = vfmt("core %d (%s) family req %d/eff %d rate %ld pcm req %d/eff %d chips %d scen %s key %d rate-scaling %d%s", x.core, en ? en : "?", x.fam, fam, x.rate, x.pcm, pcm_eff ? 1 : 0, x.chips, SCEN_NAME[x.scen], x.key, g_rs, g_longhold ? " long hold" : "");
    I.hook0 = P(I.dev)->m_verifFramesOut;
    for(int ch = 0; ch < 16; ch++)
    {
        API("opn2_rt_controllerChange", opn2_rt_controllerChange(I.dev, (OPN2_UInt8)ch, 7, 127));
        API("opn2_rt_controllerChange", opn2_rt_controllerChange(I.dev, (OPN2_UInt8)ch, 11, 127));
        API("opn2_rt_patchChange", opn2_rt_patchChange(I.dev, (OPN2_UInt8)ch, 0));
    }
    return true;
}

// (a) idle level
static bool idle_clause(Ctx &t)
{
    Inst &I = t.I;
    size_t n = I.ms(IDLE_MS), s = I.ms(PRIME_MS);
    I.render(n);
    // the linear resampler of a new chip starts from 0 and needs two output frames to reach the core's DAC offset
    t.idleL = mean_of(I.L, s, n); t.idleR = mean_of(I.R, s, n);
    double dl = maxdev(I.L, s, n, t.idleL), dr = maxdev(I.R, s, n, t.idleR);
    t.cov("idle");
    DBG("  idle L %.1f R %.1f dev %.1f %.1f\n", t.idleL, t.idleR, dl, dr);
    if(dl > FS1 || dr > FS1)
    {
        t.c.violation("oracle:C20:idle-not-constant:" + t.tag, vfmt("idle 50 ms: mean %.1f/%.1f, max deviation %.1f/%.1f > %.0f; %s", t.idleL, t.idleR, dl, dr, FS1, t.cfg.c_str()));
        return false;
    }
    return true;
}

// (e) silence after an ending at frame f_end
static void silence_clause(Ctx &t, size_t f_end, const char *ending, const char *sub = "")
{
    Inst &I = t.I;
    size_t from = f_end + I.ms(REL_MS);
    size_t need = from + I.ms(SIL_MS);
    if(I.pos() < need) I.render(need - I.pos());
    size_t wl = 0, wr = 0;
    double dl = maxdev(I.L, from, I.pos(), t.idleL, &wl), dr = maxdev(I.R, from, I.pos(), t.idleR, &wr);
    double d = std::max(dl, dr);
    if(d > g_max_resid[t.x.core]) g_max_resid[t.x.core] = d;
    t.cov((std::string("silent-after-") + ending + (*sub ? "-" : "") + sub).c_str());
    count("silence_windows_checked");
    DBG("STAT resid core %d scen %s d %.1f\n", t.x.core, ending, d);
    DBG("  silence after %s: max residual %.1f (L@%zu R@%zu) over %zu frames\n", ending, d, wl, wr, I.pos() - from);
    if(d > FS1)
    {
        size_t w = dl >= dr ? wl : wr;
        // does it decay? (level in the last 20 ms)
        size_t tail = I.pos() - std::min(I.pos() - from, I.ms(WIN_MS));
        double tl = std::max(maxdev(I.L, tail, I.pos(), t.idleL), maxdev(I.R, tail, I.pos(), t.idleR));
        t.c.violation(std::string("oracle:C20:not-silent-after-release:") + ending + ":" + t.tag,
                      vfmt("after %s + %.0f ms: |x - idle| reaches %.0f (%.1f %% of full scale) at %.1f ms after the ending, still %.0f in the last 20 ms of the %.0f ms window (idle %.1f/%.1f); %s",
                           ending, REL_MS, d, d / 327.67, (double)(w - f_end) * 1e3 / (double)I.rate, tl, (double)(I.pos() - from) * 1e3 / (double)I.rate, t.idleL, t.idleR, t.cfg.c_str()));
    }
}

static double nominal_hz(int key) { return 440.0 * pow(2.0, (key - 69) / 12.0); }

// (b)(c)(d) on a held note whose note-on took effect at frame f_on; held part rendered up to I.pos()
static void held_clauses(Ctx &t, size_t f_on, int key)
{
    Inst &I = t.I; Case &c = t.c;
    if(!t.native) return;
    size_t a = f_on + I.ms(SKIP_MS), b = I.pos();
    if(b <= a + I.ms(WIN_MS)) return;
    double fnom = nominal_hz(key), Pnom = (double)I.rate / fnom;
    // steady amplitude
    double amp = maxdev(I.L, a, b, t.idleL);
    // (d) audible
    size_t w = I.ms(WIN_MS); double minr = 1e18; size_t minat = a;
    for(size_t s = a; s + w <= b; s += w) { double r = rms_of(I.L, s, s + w, t.idleL); if(r < minr) { minr = r; minat = s; } }
    if(minr < g_min_rms[t.x.core]) g_min_rms[t.x.core] = minr;
    t.cov("audible");
    if(minr <= FS1)
        c.violation("oracle:C20:not-audible-while-held:" + t.tag, vfmt("20 ms window at %.0f ms after note-on has RMS %.1f <= %.0f (peak of held part %.0f); %s", (double)(minat - f_on) * 1e3 / (double)I.rate, minr, FS1, amp, t.cfg.c_str()));
    // (b) onset
    size_t on = b; double thr = 0.05 * amp;
    for(size_t i = f_on; i < b; i++) if(fabs(I.L[i] - t.idleL) > thr) { on = i; break; }
    double on_ms = (double)(on - f_on) * 1e3 / (double)I.rate;
    if(on_ms > g_worst_onset_ms[t.x.core]) g_worst_onset_ms[t.x.core] = on_ms;
    t.cov("onset");
    DBG("  held: amp %.0f min-rms %.0f onset %.2f ms\n", amp, minr, on_ms);
    if(amp > FS1 && (double)(on - f_on) > ONSET_MS * 1e-3 * (double)I.rate)
        c.violation("oracle:C20:onset-late:" + t.tag, vfmt("first frame above 5 %% of steady amplitude %.0f is %.2f ms after the note-on (limit %.0f ms); %s", amp, on_ms, ONSET_MS, t.cfg.c_str()));
    // (c) pitch
    if(fnom < 0.4 * (double)I.rate && key >= 24 && key <= 108 && amp > FS1)
    {
        double tol = I.rate < 22050 ? 0.01 : 0.005;
        int nc = 0;
        double Pz = zc_period(I.L, a, b, t.idleL, &nc);
        // DC for the second estimator: mean over an integer number of periods
        size_t b2 = b;
        if(Pz > 0) { double np = floor((double)(b - a) / Pz); if(np >= 1) b2 = a + (size_t)floor(np * Pz + 0.5); if(b2 > b) b2 = b; }
        double dc2 = mean_of(I.L, a, b2);
        double q = 0;
        double Pa = ac_period(I.L, a, b2, dc2, Pnom, &q);
        double fz = Pz > 0 ? (double)I.rate / Pz : 0, fa = Pa > 0 ? (double)I.rate / Pa : 0;
        double ez = fabs(fz - fnom) / fnom, ea = fabs(fa - fnom) / fnom;
        double e = std::max(ez, ea);
        if(Pz > 0 && Pa > 0 && e > g_worst_pitch[t.x.core]) g_worst_pitch[t.x.core] = e;
        t.cov("pitch");
        count("notes_pitch_measured");
        static const double edges[] = {0.001, 0.0025, 0.005, 0.01};
        const char *names[] = {"le_1000ppm", "le_2500ppm", "le_5000ppm", "le_10000ppm", "gt_10000ppm"};
        int bi = 4; for(int i = 3; i >= 0; i--) if(e <= edges[i]) bi = i;
        count(vfmt("pitch_err_core%d_%s", t.x.core, names[bi]).c_str());
        DBG("  pitch: nominal %.3f zc %.3f (%d crossings, err %.4f %%) ac %.3f (q %.3f, err %.4f %%)\n", fnom, fz, nc, ez * 100, fa, q, ea * 100);
        DBG("STAT pitch core %d fam %d rate %ld chips %d key %d ez %.6f ea %.6f onset_ms %.3f minrms %.0f amp %.0f\n", t.x.core, t.fam_eff, t.x.rate, t.x.chips, key, ez, ea, on_ms, minr, amp);
        if(Pz <= 0 || Pa <= 0)
            c.violation("oracle:C20:pitch-unmeasurable:" + t.tag, vfmt("no periodic signal in the held part (%d crossings, autocorrelation period %.2f); nominal %.2f Hz; %s", nc, Pa, fnom, t.cfg.c_str()));
        else if(ez > tol || ea > tol)
            c.violation("oracle:C20:pitch-off:" + t.tag, vfmt("nominal %.3f Hz, zero crossings %.3f Hz (%.3f %%), autocorrelation %.3f Hz (%.3f %%), tolerance %.1f %%; %s", fnom, fz, ez * 100, fa, ea * 100, tol * 100, t.cfg.c_str()));
    }
}

static size_t hold_frames(const Cell &x, long rate, int key)
{
    double f = nominal_hz(key);
    double ms;
    if(is_nuked(x.core)) ms = std::min(200.0, std::max(100.0, 30e3 / f));
    else ms = std::max(200.0, 20e3 / f);
    if(g_longhold && !is_nuked(x.core)) ms = 1200.0;      // a quarter of the cases hold the note for more than a second: it has to stay audible
    return (size_t)ceil((SKIP_MS + ms) * 1e-3 * (double)rate);
}

static void scen_single(Ctx &t)
{
    Inst &I = t.I; const Cell &x = t.x;
    // panic and reset silence the instance whatever holds the note: in half of those cases the key is down under the sustain pedal
    // (and marked by sostenuto)
    const bool pedals = x.scen != S_NOTEOFF && (t.c.k / 5) % 2 == 0;
    if(pedals) { API("opn2_rt_controllerChange", opn2_rt_controllerChange(I.dev, 0, 64, 127)); t.cfg += "; key held under CC64"; count("panic_or_reset_with_the_pedal_down"); }
    size_t f_on = I.now();
    int rc = 0;
    API("opn2_rt_noteOn", rc = opn2_rt_noteOn(I.dev, 0, (OPN2_UInt8)x.key, 127));
    if(rc != 1) { t.c.violation("oracle:C20:note-rejected:" + t.tag, vfmt("opn2_rt_noteOn returned %d on an idle instance; %s", rc, t.cfg.c_str())); return; }
    if(pedals && (t.c.k / 10) % 2) API("opn2_rt_controllerChange", opn2_rt_controllerChange(I.dev, 0, 66, 127));
    I.render(hold_frames(x, I.rate, x.key));
    held_clauses(t, f_on, x.key);
    count("notes_measured");
    size_t f_end = I.now();
    if(x.scen == S_NOTEOFF) API("opn2_rt_noteOff", opn2_rt_noteOff(I.dev, 0, (OPN2_UInt8)x.key));
    else if(x.scen == S_PANIC) API("opn2_panic", opn2_panic(I.dev));
    else API("opn2_reset", opn2_reset(I.dev));
    silence_clause(t, f_end, SCEN_NAME[x.scen]);
    if(x.scen == S_RESET && t.native)
    {   // the bank written through the bank API survives the reset: a note still sounds (volume back at the reset default)
        API("opn2_rt_controllerChange", opn2_rt_controllerChange(I.dev, 0, 7, 127));
        API("opn2_rt_controllerChange", opn2_rt_controllerChange(I.dev, 0, 11, 127));
        size_t f2 = I.now();
        API("opn2_rt_noteOn", rc = opn2_rt_noteOn(I.dev, 0, (OPN2_UInt8)x.key, 127));
        I.render(I.ms(SKIP_MS + 2 * WIN_MS));
        double r = rms_of(I.L, f2 + I.ms(SKIP_MS), I.pos(), t.idleL);
        t.cov("audible-after-reset");
        if(rc != 1 || r <= FS1) t.c.violation("oracle:C20:not-audible-while-held:after-reset:" + t.tag, vfmt("note after opn2_reset: noteOn=%d, RMS %.1f; %s", rc, r, t.cfg.c_str()));
        size_t f3 = I.now();
        API("opn2_rt_noteOff", opn2_rt_noteOff(I.dev, 0, (OPN2_UInt8)x.key));
        silence_clause(t, f3, "noteoff");
    }
}

static void scen_chord(Ctx &t)
{
    Inst &I = t.I; const Cell &x = t.x; Rng &r = t.c.rng;
    int n = 6 * x.chips;
    std::vector<int> keys;
    int lo = is_nuked(x.core) ? 48 : 36;
    while((int)keys.size() < n) { int k = r.range(lo, 96); if(std::find(keys.begin(), keys.end(), k) == keys.end()) keys.push_back(k); }
    size_t f_on = I.now();
    int accepted = 0;
    for(int i = 0; i < n; i++) { int rc = 0; API("opn2_rt_noteOn", rc = opn2_rt_noteOn(I.dev, (OPN2_UInt8)(i % 3), (OPN2_UInt8)keys[(size_t)i], 127)); accepted += rc == 1; }
    if(accepted != n) t.c.violation("oracle:C20:note-rejected:chord:" + t.tag, vfmt("%d of %d chord notes accepted on an idle instance; %s", accepted, n, t.cfg.c_str()));
    I.render(I.ms(SKIP_MS + (is_nuked(x.core) ? 60 : 100)));
    if(t.native)
    {
        size_t a = f_on + I.ms(SKIP_MS), w = I.ms(WIN_MS); double minr = 1e18;
        for(size_t s = a; s + w <= I.pos(); s += w) minr = std::min(minr, rms_of(I.L, s, s + w, t.idleL));
        t.cov("audible-chord");
        if(minr <= FS1) t.c.violation("oracle:C20:not-audible-while-held:chord:" + t.tag, vfmt("chord of %d notes: a 20 ms window has RMS %.1f; %s", n, minr, t.cfg.c_str()));
    }
    count("chord_notes", n);
    size_t f_end = I.now();
    for(int i = 0; i < n; i++) API("opn2_rt_noteOff", opn2_rt_noteOff(I.dev, (OPN2_UInt8)(i % 3), (OPN2_UInt8)keys[(size_t)i]));
    silence_clause(t, f_end, "chord");
}

static void scen_burst(Ctx &t)
{
    Inst &I = t.I; const Cell &x = t.x; Rng &r = t.c.rng;
    std::set<std::pair<int, int> > used;   // (midi channel, key) ever started
    int lo = is_nuked(x.core) ? 48 : 30;
    // variants: 0 "pairs": a heard chord ends and a run of short notes follows; 1 "release-first": the heard notes are released by the
    // first events of a random burst; 2 "random": random burst over heard notes; 3 "cold": random burst on an idle instance
    int variant = (int)r.below(4);
    if(getenv("VERIF_C20_VARIANT")) variant = atoi(getenv("VERIF_C20_VARIANT"));
    static const char *vname[4] = {"pairs", "release-first", "random", "cold"};
    std::vector<std::pair<int, int> > sounding;
    if(variant != 3)
    {
        int n = variant == 0 ? r.range(2, 6 * x.chips) : r.range(1, 6 * x.chips);
        for(int i = 0; i < n; i++)
        {
            int ch = r.range(0, 5), k = r.range(lo, 96);
            if(!used.insert(std::make_pair(ch, k)).second) continue;
            API("opn2_rt_noteOn", opn2_rt_noteOn(I.dev, (OPN2_UInt8)ch, (OPN2_UInt8)k, 127));
            sounding.push_back(std::make_pair(ch, k));
        }
        I.render(I.ms(is_nuked(x.core) ? 30 : 60));
    }
    size_t n_prelude = sounding.size();
    int nev = r.range(50, 200);
    if(getenv("VERIF_C20_EVENTS")) nev = atoi(getenv("VERIF_C20_EVENTS"));
    int n_on = 0, n_off = 0, n_cc = 0;
    int pair_ch = r.range(0, 8), pair_key = r.range(lo, 100); bool pair_open = false;
    (void)I.now();
    for(int e = 0; e < nev; e++)
    {
        if(variant <= 1 && e < (int)n_prelude)
        {
            API("opn2_rt_noteOff", opn2_rt_noteOff(I.dev, (OPN2_UInt8)sounding[0].first, (OPN2_UInt8)sounding[0].second));
            sounding.erase(sounding.begin()); n_off++;
            continue;
        }
        if(variant == 0)
        {
            if(!pair_open)
            {
                if(r.chance(0.2)) { pair_ch = r.range(0, 8); pair_key = r.range(lo, 100); }
                API("opn2_rt_noteOn", opn2_rt_noteOn(I.dev, (OPN2_UInt8)pair_ch, (OPN2_UInt8)pair_key, (OPN2_UInt8)r.range(40, 127)));
                used.insert(std::make_pair(pair_ch, pair_key)); n_on++;
            }
            else { API("opn2_rt_noteOff", opn2_rt_noteOff(I.dev, (OPN2_UInt8)pair_ch, (OPN2_UInt8)pair_key)); n_off++; }
            pair_open = !pair_open;
            continue;
        }
        int kind = (int)r.below(10);
        if(kind < 4 || sounding.empty())
        {
            int ch = r.range(0, 8), k = r.range(lo, 100), v = r.range(40, 127);
            API("opn2_rt_noteOn", opn2_rt_noteOn(I.dev, (OPN2_UInt8)ch, (OPN2_UInt8)k, (OPN2_UInt8)v));
            used.insert(std::make_pair(ch, k)); sounding.push_back(std::make_pair(ch, k)); n_on++;
        }
        else if(kind < 8)
        {
            size_t j = r.below((uint32_t)sounding.size());
            API("opn2_rt_noteOff", opn2_rt_noteOff(I.dev, (OPN2_UInt8)sounding[j].first, (OPN2_UInt8)sounding[j].second));
            sounding.erase(sounding.begin() + (long)j); n_off++;
        }
        else
        {
            int ch = r.range(0, 8);
            switch(r.below(5))
            {
            case 0: API("opn2_rt_controllerChange", opn2_rt_controllerChange(I.dev, (OPN2_UInt8)ch, 7, (OPN2_UInt8)r.range(60, 127))); break;
            case 1: API("opn2_rt_controllerChange", opn2_rt_controllerChange(I.dev, (OPN2_UInt8)ch, 11, (OPN2_UInt8)r.range(60, 127))); break;
            case 2: API("opn2_rt_controllerChange", opn2_rt_controllerChange(I.dev, (OPN2_UInt8)ch, 10, (OPN2_UInt8)r.range(0, 127))); break;
            case 3: API("opn2_rt_pitchBend", opn2_rt_pitchBend(I.dev, (OPN2_UInt8)ch, (OPN2_UInt16)r.range(0, 16383))); break;
            default: API("opn2_rt_patchChange", opn2_rt_patchChange(I.dev, (OPN2_UInt8)ch, (OPN2_UInt8)r.range(0, 3))); break;
            }
            n_cc++;
        }
    }
    // release everything: note-off for every key that was ever started, then panic
    for(std::set<std::pair<int, int> >::iterator i = used.begin(); i != used.end(); ++i) API("opn2_rt_noteOff", opn2_rt_noteOff(I.dev, (OPN2_UInt8)i->first, (OPN2_UInt8)i->second));
    API("opn2_panic", opn2_panic(I.dev));
    count("burst_events", nev);
    count(vfmt("burst_%s", vname[variant]).c_str());
    t.cfg += vfmt(" burst variant %s: %zu notes held and heard, then %d events (%d on, %d off, %d ctl) without audio, then %zu note-offs + panic", vname[variant], n_prelude, nev, n_on, n_off, n_cc, used.size());
    silence_clause(t, I.now(), "burst", vname[variant]);
}

// One note is measured like a single held note (pitch, onset, audible), but on a chip that is not fresh: earlier notes of the same key
// have used (and released) the chip's voices, and other voices are held by notes of other octaves on a MIDI channel whose volume is
// zero (silent per C11, but allocated, keyed and pitched like any note): the probe lands on whichever voice is left
static void scen_probe(Ctx &t)
{
    Inst &I = t.I; const Cell &x = t.x; Rng &r = t.c.rng;
    const int voices = 6 * x.chips;
    const int lo = is_nuked(x.core) ? 48 : 30;
    static const int pch[12] = {0, 1, 2, 3, 4, 5, 6, 7, 8, 10, 11, 13};     // melodic channels (12 carries the silent notes)
    int nprime = r.chance(0.3) ? voices : r.range(0, voices), nsilent = r.chance(0.4) ? voices - 1 : r.range(0, voices - 1);
    for(int i = 0; i < nprime; i++) API("opn2_rt_noteOn", opn2_rt_noteOn(I.dev, (OPN2_UInt8)pch[i % 12], (OPN2_UInt8)(r.chance(0.8) ? x.key : r.range(lo, 96)), 127));
    if(nprime)
    {
        I.render(I.ms(30));
        for(int ch = 0; ch < 16; ch++) API("opn2_rt_controllerChange", opn2_rt_controllerChange(I.dev, (OPN2_UInt8)ch, 123, 0));
        size_t f_rel = I.now();
        silence_clause(t, f_rel, "chord", "primed");
    }
    API("opn2_rt_controllerChange", opn2_rt_controllerChange(I.dev, 12, 7, 0));
    std::set<int> sk;
    for(int i = 0; i < nsilent; i++)
    {
        int k = r.range(lo, 100);
        if(abs(k - x.key) < 6 || !sk.insert(k).second) continue;       // other octaves / F-numbers than the probe
        int rc = 0; API("opn2_rt_noteOn", rc = opn2_rt_noteOn(I.dev, 12, (OPN2_UInt8)k, 127)); (void)rc;
        if(r.chance(0.3)) I.render(I.ms(2));
    }
    int probe_ch = pch[r.below(12)];
    size_t f_on = I.now();
    int rc = 0;
    API("opn2_rt_noteOn", rc = opn2_rt_noteOn(I.dev, (OPN2_UInt8)probe_ch, (OPN2_UInt8)x.key, 127));
    t.cfg += vfmt(" probe: %d earlier notes released, %zu silent notes held on other voices, probe on MIDI channel %d", nprime, sk.size(), probe_ch);
    if(rc != 1) { t.c.violation("oracle:C20:note-rejected:" + t.tag, vfmt("opn2_rt_noteOn returned %d with a free voice; %s", rc, t.cfg.c_str())); return; }
    I.render(hold_frames(x, I.rate, x.key));
    held_clauses(t, f_on, x.key);
    count("notes_measured"); count("probe_notes_measured"); count("probe_silent_notes_held", (long long)sk.size());
    cover(vfmt("probe|core%d|chips%d|primed%s|silent%zu", x.core, x.chips, nprime == 0 ? "0" : nprime == voices ? "all" : "some", sk.size()));
    size_t f_end = I.now();
    API("opn2_rt_noteOff", opn2_rt_noteOff(I.dev, (OPN2_UInt8)probe_ch, (OPN2_UInt8)x.key));
    API("opn2_rt_controllerChange", opn2_rt_controllerChange(I.dev, 12, 123, 0));
    silence_clause(t, f_end, "noteoff", "probe");
}

static void run_case(Case &c)
{
    g_dbg = getenv("VERIF_C20_DEBUG") != NULL;
    Cell x = decode(c);
    g_rs = (int)((c.k / 3) % 4); g_longhold = (c.k % 4) == 1;
    Inst I;
    Ctx t(c, I, x);
    t.tag = vfmt("core-%d", x.core);
    c.sig = vfmt("%d|%d|%ld|%d|%d|%s", x.core, x.fam, x.rate, x.pcm, x.chips, SCEN_NAME[x.scen]);
    DBG("case %ld: core %d fam %d rate %ld pcm %d chips %d scen %s key %d\n", c.k, x.core, x.fam, x.rate, x.pcm, x.chips, SCEN_NAME[x.scen], x.key);
    OPN2_MIDIPlayer *bystander = NULL;
    if(setup(t))
    {
        DBG("  %s\n", t.cfg.c_str());
        if(c.k % 3 == 0)
        {   // another instance of the same core is alive next to the measured one, configured after it with another output rate, the
            // other rate mode and the other chip family: what the measured instance sounds like is its own business (clauses unchanged)
            long r2 = RATES[(size_t)((c.k / 3) % 9)]; if(r2 == x.rate) r2 = RATES[(size_t)((c.k / 3 + 4) % 9)];
            API("opn2_init", bystander = opn2_init(r2));
            if(bystander)
            {
                int rb = 0;
                API("opn2_switchEmulator", rb = opn2_switchEmulator(bystander, x.core));
                API("opn2_setNumChips", rb = opn2_setNumChips(bystander, 1));
                API("opn2_setChipType", opn2_setChipType(bystander, 1 - x.fam));
                API("opn2_setRunAtPcmRate", rb = opn2_setRunAtPcmRate(bystander, (c.k / 9) % 4 ? 1 : 0));
                short tmp[2 * 48]; API("opn2_generate", rb = opn2_generate(bystander, 2 * 48, tmp)); (void)rb;
                t.cfg += vfmt("; bystander instance of the same core at %ld Hz", r2);
                count("cases_with_a_bystander_instance");
            }
        }
        if(idle_clause(t))
        {
            if(x.scen == S_PROBE) scen_probe(t);
            else if(x.scen <= S_RESET) scen_single(t);
            else if(x.scen == S_CHORD) scen_chord(t);
            else scen_burst(t);
            c.nontrivial = !c.inconclusive;
        }
    }
    count("frames_rendered", (long long)I.pos());
    count(vfmt("cases_core%d", x.core).c_str());
    if(bystander) API("opn2_close", opn2_close(bystander));
    if(I.dev) API("opn2_close", opn2_close(I.dev));
    g_cases_done++;
    // one sample per worker, emitted at its 24th case so that the per-core worst values cover more than one case
    if(g_cases_done == 24 || getenv("VERIF_C20_FORCE"))
        c.sample(std::string("{\"last_case\":") + jstr(t.cfg) + vfmt(",\"cases_by_this_worker\":%ld,\"per_core\":", g_cases_done) + stats_json() + "}");
}
