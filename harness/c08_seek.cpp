// C08 — seeking equals playing up to the target, minus the sounding notes.
// Instance A plays linearly (tick-driven with the returned delays) to the target t; instance B optionally plays to
// some other position and/or seeks elsewhere first, then seeks to t. Compared: reported position, silence (no active
// note, no chip channel keyed on), the channel state the statement names, and the event streams after t.
#include "vseq.hpp"

static const char *harness_name() { return "c08_seek"; }
static void harness_init() { default_bank(); }

struct Inst
{
    OPN2_MIDIPlayer *d; Capture cap; Tap tap; double acc; double next_delay; bool at_end;
    Inst(): d(NULL), acc(0), next_delay(0), at_end(false) {}
};

static bool open_inst(Case &c, Inst &x, long rate, const std::vector<uint8_t> &file, bool loop_on)
{
    API("opn2_init", x.d = opn2_init(rate));
    if(!x.d) { c.violation("oracle:init-failed", "opn2_init returned NULL"); return false; }
    x.tap.attach(x.d);
    int rc = 0;
    API("opn2_setNumChips", rc = opn2_setNumChips(x.d, 2));
    API("opn2_switchEmulator", rc = opn2_switchEmulator(x.d, OPNMIDI_EMU_GENS));
    { ExactBuf b(default_bank()); API("opn2_openBankData", rc = opn2_openBankData(x.d, b.p, (long)b.n)); }
    x.cap.attach(x.d);
    if(loop_on) { API("opn2_setLoopEnabled", opn2_setLoopEnabled(x.d, 1)); API("opn2_setLoopCount", opn2_setLoopCount(x.d, 2)); }   // finite: the comparison runs to the end of the song
    { ExactBuf in(file); API("opn2_openData", rc = opn2_openData(x.d, in.p, (unsigned long)in.n)); }
    if(rc != 0) { c.violation("oracle:C08:wellformed-file-rejected", vfmt("generated SMF rejected: %s", opn2_errorInfo(x.d))); return false; }
    x.acc = 0; x.next_delay = 0; x.at_end = false;
    return true;
}

// tick-driven with the returned delays until the accumulated time reaches `until` exactly (or the song ends)
static void play_to(Inst &x, double until, double g)
{
    long guard = 0;
    while(!x.at_end && guard++ < 1000000)
    {
        double step = x.next_delay;
        if(x.acc + step >= until) { step = until - x.acc; if(step < 0) step = 0; }
        x.cap.prev_acc_t = x.cap.acc_t; x.cap.acc_t = x.acc + step; x.cap.call++;
        double nd = 0; API("opn2_tickEvents", nd = opn2_tickEvents(x.d, step, g));
        x.acc += step; x.next_delay = nd;
        int e = 0; API("opn2_atEnd", e = opn2_atEnd(x.d)); if(e) x.at_end = true;
        if(x.acc >= until) break;
    }
}
static void play_to_end(Inst &x, double g)
{
    long guard = 0;
    while(!x.at_end && guard++ < 1000000)
    {
        double step = x.next_delay;
        x.cap.prev_acc_t = x.cap.acc_t; x.cap.acc_t = x.acc + step; x.cap.call++;
        double nd = 0; API("opn2_tickEvents", nd = opn2_tickEvents(x.d, step, g));
        x.acc += step; x.next_delay = nd;
        int e = 0; API("opn2_atEnd", e = opn2_atEnd(x.d)); if(e) x.at_end = true;
    }
}

struct ChanState { int patch, msb, lsb, volume, expression, pan, bend, bs_msb, bs_lsb; bool sustain, soft; int lrpn, mrpn; bool nrpn; bool drum; };
static ChanState chan_state(OPN2_MIDIPlayer *d, int ch)
{
    const OPNMIDIplay::MIDIchannel &m = P(d)->m_midiChannels[(size_t)ch];
    ChanState s; s.patch = m.patch; s.msb = m.bank_msb; s.lsb = m.bank_lsb; s.volume = m.volume; s.expression = m.expression; s.pan = m.panning; s.bend = m.bend;
    s.bs_msb = m.bendsense_msb; s.bs_lsb = m.bendsense_lsb; s.sustain = m.sustain; s.soft = m.softPedal; s.lrpn = m.lastlrpn; s.mrpn = m.lastmrpn; s.nrpn = m.nrpn;
    s.drum = m.is_xg_percussion;       // what the bank numbers mean for the channel (XG MSB 126/127 = percussion): part of the bank state
    return s;
}
static std::string diff_state(const ChanState &a, const ChanState &b)
{
    std::string r;
    #define F(f, name) if(a.f != b.f) r += vfmt("%s %d!=%d ", name, (int)a.f, (int)b.f);
    F(patch, "program") F(msb, "bank-msb") F(lsb, "bank-lsb") F(volume, "volume") F(expression, "expression") F(pan, "pan") F(bend, "bend")
    F(bs_msb, "bend-range-msb") F(bs_lsb, "bend-range-lsb") F(sustain, "sustain-pedal") F(soft, "soft-pedal") F(lrpn, "rpn-lsb") F(mrpn, "rpn-msb") F(nrpn, "nrpn-flag") F(drum, "bank-percussion-role")
    #undef F
    return r;
}
static std::string first_field(const std::string &d) { size_t p = d.find(' '); return p == std::string::npos ? d : d.substr(0, p); }

static void check_silent(Case &c, Inst &x, const char *when, const std::string &ctx)
{
    StateSnap s; take_snapshot(x.d, x.tap, s);
    for(size_t m = 0; m < s.midi.size(); m++) for(size_t i = 0; i < s.midi[m].notes.size(); i++) if(!s.midi[m].notes[i].blank)
    { c.violation(std::string("oracle:C08:note-sounding-after-seek:") + when, vfmt("MIDI channel %zu still has active note %d; %s", m, s.midi[m].notes[i].note, ctx.c_str())); return; }
    for(size_t ch = 0; ch < s.chip.size(); ch++) if(s.chip[ch].keyon || !s.chip[ch].users.empty())
    { c.violation(std::string("oracle:C08:chip-channel-busy-after-seek:") + when, vfmt("chip channel %zu keyed %s with %zu users; %s", ch, s.chip[ch].keyon ? "on" : "off", s.chip[ch].users.size(), ctx.c_str())); return; }
}

// ---------------------------------------------------------------------------------------------
// stage audio: after a seek the song is continued through the audio call, with a tempo multiplier in force. The events behind the
// target have to take effect at the frame that corresponds to their song time: never late, at most one 512-frame period early
// (the same clause C07 checks for linear playback). Targets are drawn close in front of the next event row in half of the cases.
// ---------------------------------------------------------------------------------------------
static void run_audio(Case &c)
{
    Rng &r = c.rng;
    SongOpts so; so.max_tracks = 4; so.max_events = 30; so.tempo_changes = true; so.lone_eot = true;
    Song song = gen_song(r, so);
    std::vector<uint8_t> file = serialize_song(song);
    TempoMap tm; tm.build(song);
    long rate = r.pick((const long[]){8000, 22050, 44100, 48000});
    std::vector<double> times;
    for(size_t t = 0; t < song.tracks.size(); t++) for(size_t i = 0; i < song.tracks[t].ev.size(); i++) { const SEv &e = song.tracks[t].ev[i]; if(!e.is_eot()) times.push_back((double)tm.seconds(e.tick)); }
    std::sort(times.begin(), times.end());
    double margin = std::max(4.0 / rate, 2e-4);
    std::vector<std::pair<double, double> > gaps;
    for(size_t i = 0; i + 1 < times.size(); i++) if(times[i + 1] - times[i] > 4 * margin) gaps.push_back(std::make_pair(times[i] + margin, times[i + 1] - margin));
    if(gaps.empty() || times.back() > 600) { c.inconclusive = true; count("inconclusive_no_gap_between_events"); return; }
    const double mult = r.pick((const double[]){1.0, 2.0, 4.0, 0.5, 3.0, 1.5});
    const std::pair<double, double> &gp = gaps[r.below((uint32_t)gaps.size())];
    double t = gp.first + r.unit() * (gp.second - gp.first);
    const bool close = r.chance(0.5);
    if(close) { double w = std::min(gp.second - gp.first, 700.0 * mult / (double)rate); t = gp.second - r.unit() * w; }   // within ~one period (in real time) of the next row
    Inst B;
    if(!open_inst(c, B, rate, file, false)) { if(B.d) opn2_close(B.d); return; }
    API("opn2_setTempo", opn2_setTempo(B.d, mult));
    short pcm[2 * 4096];
    std::string ctx = vfmt("format %d, %zu tracks, division %d, rate %ld, tempo x%.3g, target %.9f (%s the next row at %.9f)", song.format, song.tracks.size(), song.division, rate, mult, t, close ? "close to" : "somewhere before", gp.second + margin);
    if(r.chance(0.5)) { int n = r.range(1, 6); for(int i = 0; i < n; i++) { int got = 0; API("opn2_play", got = opn2_play(B.d, 2 * r.range(1, 2000), pcm)); (void)got; } ctx += "; played some audio first"; }
    // (opn2_positionRewind keeps the unplayed delay of the old position and starts the song late by it; the statement speaks of seeks only,
    // so that call is not judged here)
    const bool rewind = false;
    if(rewind) { t = 0; ctx += "; opn2_positionRewind instead of a seek"; API("opn2_positionRewind", opn2_positionRewind(B.d)); }
    else API("opn2_positionSeek", opn2_positionSeek(B.d, t));
    const long long F0 = (long long)P(B.d)->m_verifFramesOut;
    const size_t e0 = B.cap.ev.size();
    long calls = 0; size_t judged = 0;
    while(calls++ < 4000 && (long long)P(B.d)->m_verifFramesOut - F0 < (long long)rate * 4)
    {
        int want = r.chance(0.3) ? 2 * r.range(1, 40) : 2 * r.range(1, 2048);
        int got = 0; API("opn2_play", got = opn2_play(B.d, want, pcm));
        int e = 0; API("opn2_atEnd", e = opn2_atEnd(B.d));
        if(e || got == 0 || B.cap.ev.size() - e0 >= 12) break;
    }
    // nominal song times of the events behind the target, from the file (the position clock the library reports at hand-over time
    // has already run on by the length of the call)
    std::vector<double> after_t; for(size_t i = 0; i < times.size(); i++) if(times[i] > t) after_t.push_back(times[i]);
    size_t k = 0;
    for(size_t i = e0; i < B.cap.ev.size() && g_w.violations_in_case == 0; i++)
    {
        const DEv &e = B.cap.ev[i];
        if((e.type == 0xFF && e.subtype == 0x2F) || is_song_begin_marker(e)) continue;
        if(k >= after_t.size()) break;
        const double T_e = after_t[k++];
        double ref = (double)rate * (T_e - t) / mult, F = (double)((long long)e.frames - F0), slack = 1.0 + ref * 1e-9;
        judged++;
        if(F > ref + 1.0 + slack)
            c.violation(rewind ? "oracle:C08:event-late-after-rewind:audio" : "oracle:C08:event-late-after-seek:audio", vfmt("%s (song time %.9f) took effect %.0f frames after the seek, its song time is %.2f frames behind the target; %s", e.str().c_str(), T_e, F, ref, ctx.c_str()));
        else if(F < ref - 512.0 - 1.0 - slack)
            c.violation(rewind ? "oracle:C08:event-early-after-rewind:audio" : "oracle:C08:event-early-after-seek:audio", vfmt("%s (song time %.9f) took effect %.0f frames after the seek, its song time is %.2f frames behind the target (more than one 512-frame period early); %s", e.str().c_str(), T_e, F, ref, ctx.c_str()));
    }
    count("events_timed_after_seek", (long long)judged);
    c.nontrivial = judged >= 1;
    cover(vfmt("audio|x%.3g|%s|rate%ld", mult, rewind ? "rewind" : close ? "close" : "far", rate));
    c.sig = vfmt("audio|%.3g|%d", mult, close ? 1 : 0);
    c.sample(std::string("{\"stage\":\"audio\",\"context\":") + jstr(ctx) + vfmt(",\"events_timed\":%zu}", judged));
    API("opn2_close", opn2_close(B.d));
}

static void run_case(Case &c)
{
    if(g_w.stage == "audio") { run_audio(c); return; }
    Rng &r = c.rng;
    SongOpts so; so.max_tracks = 5; so.max_events = 40; so.tempo_changes = true; so.lone_eot = true;
    Song song = gen_song(r, so);
    const bool long_song = r.chance(0.03);
    if(long_song)
    {   // more event rows in front of the target than any per-call iteration bound of the sequencer (10000)
        song = Song(); song.format = 0; song.division = 960; song.running_status = r.chance(0.5); song.tracks.resize(1);
        STrack &tr = song.tracks[0];
        int rows = r.range(10500, 13000); uint64_t tick = 0; int serial = 0;
        for(int i = 0; i < rows; i++)
        {
            tick += (uint64_t)r.range(8, 14);
            SEv e = (i % 3 == 0) ? mk_chan(tick, 0xB0, r.chance(0.5) ? 7 : 11, (i * 7) & 127) : (i % 3 == 1) ? mk_chan(tick, 0x90, 60 + (i % 12), 100) : mk_chan(tick, 0x80, 60 + ((i - 1) % 12), 0);
            if(i % 97 == 0) e = mk_chan(tick, 0xE0, i & 127, (i / 128) & 127);
            e.serial = serial++; tr.ev.push_back(e);
        }
        SEv eot = mk_meta(tick, 0x2F, std::vector<uint8_t>()); eot.serial = serial++; tr.ev.push_back(eot);
    }
    const bool loop_on = r.chance(0.25);
    uint64_t loop_end_tick = 0;
    if(loop_on && !long_song && r.chance(0.7))
    {   // valid loop markers in track 0 (loop start after the song begin): seeks land before, inside and behind the loop body
        STrack &t0 = song.tracks[0];
        std::vector<uint64_t> ticks;
        for(size_t i = 0; i + 1 < t0.ev.size(); i++) if(ticks.empty() || t0.ev[i].tick != ticks.back()) ticks.push_back(t0.ev[i].tick);
        if(ticks.size() >= 4)
        {
            size_t a = 1 + r.below((uint32_t)(ticks.size() - 2)), b = a + 1 + r.below((uint32_t)(ticks.size() - a - 1));
            uint64_t L = ticks[a], E = ticks[b];
            if(L > 0 && E > L)
            {
                SEv ms = mk_meta_text(L, 0x06, "loopStart"), me = mk_meta_text(E, 0x06, "loopEnd"); ms.serial = 9001; me.serial = 9002;
                size_t pe = 0; while(pe < t0.ev.size() && t0.ev[pe].tick < E) pe++;
                t0.ev.insert(t0.ev.begin() + (long)pe, me);
                size_t ps = 0; while(ps < t0.ev.size() && t0.ev[ps].tick < L) ps++;
                t0.ev.insert(t0.ev.begin() + (long)ps, ms);
                loop_end_tick = E;
                count("songs_with_loop_markers");
            }
        }
    }
    std::vector<uint8_t> file = serialize_song(song);
    TempoMap tm; tm.build(song);
    long rate = r.pick((const long[]){8000, 22050, 44100});
    double g = 1.0 / rate;
    // event times
    std::vector<double> times;
    uint64_t last_nonlone = 0;
    for(size_t t = 0; t < song.tracks.size(); t++) for(size_t i = 0; i < song.tracks[t].ev.size(); i++) { const SEv &e = song.tracks[t].ev[i]; if(!e.is_eot()) { times.push_back((double)tm.seconds(e.tick)); last_nonlone = std::max(last_nonlone, e.tick); } }
    std::sort(times.begin(), times.end());
    double ref_len = (double)tm.seconds(last_nonlone);
    double margin = std::max(4.0 / rate, 2e-4);
    std::vector<std::pair<double, double> > gaps;
    for(size_t i = 0; i + 1 < times.size(); i++) if(times[i + 1] - times[i] > 4 * margin) gaps.push_back(std::make_pair(times[i] + margin, times[i + 1] - margin));
    if(loop_end_tick)
    {   // with a marked loop the linear reference is unambiguous only up to the loop end (behind it, linear playback has used up
        // its passes while a seek starts with all of them): targets stay in front of the loop end, i.e. before or inside the body
        double tE = (double)tm.seconds(loop_end_tick);
        std::vector<std::pair<double, double> > g2;
        for(size_t i = 0; i < gaps.size(); i++) if(gaps[i].second < tE - margin) g2.push_back(gaps[i]);
        gaps.swap(g2);
    }
    if(gaps.empty() || ref_len > 600) { c.inconclusive = true; count("inconclusive_no_gap_between_events"); return; }
    auto pick_target = [&]() { const std::pair<double, double> &gp = gaps[r.below((uint32_t)gaps.size())]; return gp.first + r.unit() * (gp.second - gp.first); };
    double t = pick_target();
    if(long_song) { const std::pair<double, double> &gp = gaps[gaps.size() - 1 - r.below((uint32_t)std::min<size_t>(gaps.size(), 1200))]; t = gp.first + r.unit() * (gp.second - gp.first); count("long_song_cases"); }
    int variant = (int)r.below(100);    // <70: inside target; <80: beyond end; <90: negative; else: seek to 0-ish
    std::string ctx = vfmt("format %d, %zu tracks, division %d, rate %ld, loop %d", song.format, song.tracks.size(), song.division, rate, loop_on ? 1 : 0);

    Inst A, B;
    if(!open_inst(c, A, rate, file, loop_on)) { if(A.d) opn2_close(A.d); return; }
    if(!open_inst(c, B, rate, file, loop_on)) { opn2_close(A.d); if(B.d) opn2_close(B.d); return; }
    double len = 0; API("opn2_totalTimeLength", len = opn2_totalTimeLength(B.d));

    if(variant < 70)
    {
        // B: optional pre-history (play somewhere, seek somewhere)
        std::string hist;
        int pre = (int)r.below(4);
        if(pre == 1 || pre == 3) { double t2 = r.chance(0.5) ? pick_target() : r.unit() * ref_len; play_to(B, t2, g); hist += vfmt("play-to %.6f; ", t2); }
        if(pre >= 2) { double t3 = pick_target(); API("opn2_positionSeek", opn2_positionSeek(B.d, t3)); hist += vfmt("seek %.6f; ", t3); if(r.chance(0.5)) { B.acc = t3; B.next_delay = 0; B.at_end = false; double t4 = t3 + r.unit() * 0.5; play_to(B, t4, g); hist += vfmt("play-to %.6f; ", t4); } }
        if(r.chance(0.12))
        {   // the target is the very position the player reports (a host re-synchronising): still a seek, notes end as after any other
            play_to(B, t, g);
            double here = t; API("opn2_positionTell", here = opn2_positionTell(B.d));
            if(fabs(here - t) < 1e-6) { t = here; hist += vfmt("play-to %.9f; target = the reported position; ", t); count("seeks_to_the_reported_position"); }
        }
        hist += vfmt("seek %.9f (%s)", t, B.acc > t ? "backward" : "forward");
        ctx += "; B: " + hist;
        size_t bseek0 = B.cap.ev.size();
        API("opn2_positionSeek", opn2_positionSeek(B.d, t));
        double pos = 0; API("opn2_positionTell", pos = opn2_positionTell(B.d));
        if(getenv("VERIF_TRACE")) { fprintf(stderr, "[trace] len=%.6f ref_len=%.6f t=%.9f pos=%.9f atEnd=%d events during final seek: %zu\n", len, ref_len, t, pos, opn2_atEnd(B.d), B.cap.ev.size() - bseek0);
            for(size_t i = bseek0; i < B.cap.ev.size(); i++) fprintf(stderr, "[trace]   seek-ev %s @%.6f\n", B.cap.ev[i].str().c_str(), B.cap.ev[i].song_t); }
        if(fabs(pos - t) > 1e-9 + t * 1e-12) c.violation("oracle:C08:position-after-seek", vfmt("opn2_positionTell %.12f after seeking to %.12f; %s", pos, t, ctx.c_str()));
        check_silent(c, B, "target-inside", ctx);
        // A: linear
        play_to(A, t, g);
        double posA = 0; API("opn2_positionTell", posA = opn2_positionTell(A.d));
        if(fabs(posA - t) > 1e-9 + t * 1e-12) { c.inconclusive = true; count("inconclusive_linear_reference_not_at_t"); }
        for(int ch = 0; ch < 16 && !c.inconclusive; ch++)
        {
            std::string df = diff_state(chan_state(A.d, ch), chan_state(B.d, ch));
            if(!df.empty()) { c.violation("oracle:C08:channel-state-differs:" + first_field(df) + ":" + (B.acc > t ? "backward" : "forward"), vfmt("MIDI channel %d after seek vs linear playback to %.9f: %s(linear!=seek); %s", ch, t, df.c_str(), ctx.c_str())); break; }
        }
        // continue both to the end, compare streams after t
        size_t a0 = A.cap.ev.size(), b0 = B.cap.ev.size();
        B.acc = t; B.next_delay = 0; B.at_end = false; B.cap.acc_t = t;
        { double nd = 0; API("opn2_tickEvents", nd = opn2_tickEvents(B.d, 0, g)); B.next_delay = nd; }
        play_to_end(A, g); play_to_end(B, g);
        std::vector<DEv> ea(A.cap.ev.begin() + (long)a0, A.cap.ev.end()), eb(B.cap.ev.begin() + (long)b0, B.cap.ev.end());
        size_t n = std::min(ea.size(), eb.size());
        for(size_t i = 0; i < n; i++)
        {
            if(!ea[i].same(eb[i])) { c.violation("oracle:C08:stream-after-seek-differs:event", vfmt("event #%zu after t: linear %s vs seek %s; %s", i, ea[i].str().c_str(), eb[i].str().c_str(), ctx.c_str())); break; }
            if(fabs(ea[i].song_t - eb[i].song_t) > g + 1e-9) { c.violation("oracle:C08:stream-after-seek-differs:time", vfmt("event #%zu %s: song time %.9f linear vs %.9f after seek; %s", i, ea[i].str().c_str(), ea[i].song_t, eb[i].song_t, ctx.c_str())); break; }
        }
        if(g_w.violations_in_case == 0 && ea.size() != eb.size())
            c.violation("oracle:C08:stream-after-seek-differs:count", vfmt("%zu events after t in linear playback, %zu after seek (first extra: %s); %s", ea.size(), eb.size(), (ea.size() > eb.size() ? ea[n] : eb[n]).str().c_str(), ctx.c_str()));
        count("events_compared_after_seek", (long long)n);
        c.nontrivial = n >= 3;
        cover(vfmt("inside|pre%d|%s|loop%d|trk%zu", pre, B.acc > t ? "bwd" : "fwd", loop_on ? 1 : 0, std::min<size_t>(song.tracks.size(), 4)));
    }
    else if(variant < 80)
    {   // beyond the end: rewinds to the start; stream equals a fresh playback
        double t2 = r.unit() * ref_len; play_to(B, t2, g);
        double target = len + r.pick((const double[]){1e-6, 0.5, 10.0, 1e6});
        API("opn2_positionSeek", opn2_positionSeek(B.d, target));
        double pos = 1; API("opn2_positionTell", pos = opn2_positionTell(B.d));
        if(pos != 0.0) c.violation("oracle:C08:beyond-end-does-not-rewind", vfmt("position %.9f after seeking to %.6f (length %.6f); %s", pos, target, len, ctx.c_str()));
        check_silent(c, B, "beyond-end", ctx);
        size_t b0 = B.cap.ev.size();
        B.acc = 0; B.next_delay = 0; B.at_end = false; B.cap.acc_t = 0;
        play_to_end(A, g); play_to_end(B, g);
        std::vector<DEv> eb(B.cap.ev.begin() + (long)b0, B.cap.ev.end());
        size_t n = std::min(A.cap.ev.size(), eb.size());
        for(size_t i = 0; i < n; i++) if(!A.cap.ev[i].same(eb[i]) || fabs(A.cap.ev[i].song_t - eb[i].song_t) > g + 1e-9)
        { c.violation("oracle:C08:stream-after-rewind-differs", vfmt("event #%zu: fresh playback %s @%.9f vs after beyond-end seek %s @%.9f; %s", i, A.cap.ev[i].str().c_str(), A.cap.ev[i].song_t, eb[i].str().c_str(), eb[i].song_t, ctx.c_str())); break; }
        if(g_w.violations_in_case == 0 && A.cap.ev.size() != eb.size()) c.violation("oracle:C08:stream-after-rewind-differs", vfmt("%zu events in a fresh playback, %zu after beyond-end seek; %s", A.cap.ev.size(), eb.size(), ctx.c_str()));
        c.nontrivial = n >= 3; cover(vfmt("beyond|trk%zu", std::min<size_t>(song.tracks.size(), 4)));
    }
    else
    {   // negative targets are ignored
        double t2 = pick_target(); play_to(B, t2, g); play_to(A, t2, g);
        double before = 0; API("opn2_positionTell", before = opn2_positionTell(B.d));
        StateSnap s1, s2; take_snapshot(B.d, B.tap, s1);
        double target = r.pick((const double[]){-1e-9, -1.0, -1e9, -HUGE_VAL});
        API("opn2_positionSeek", opn2_positionSeek(B.d, target));
        double after = 0; API("opn2_positionTell", after = opn2_positionTell(B.d));
        take_snapshot(B.d, B.tap, s2);
        if(after != before) c.violation("oracle:C08:negative-target-not-ignored", vfmt("position %.9f -> %.9f after seeking to %g; %s", before, after, target, ctx.c_str()));
        if(s1.busy() != s2.busy()) c.violation("oracle:C08:negative-target-not-ignored", vfmt("%d busy chip channels before, %d after seeking to %g; %s", s1.busy(), s2.busy(), target, ctx.c_str()));
        size_t a0 = A.cap.ev.size(), b0 = B.cap.ev.size();
        play_to_end(A, g); play_to_end(B, g);
        if(A.cap.ev.size() - a0 != B.cap.ev.size() - b0) c.violation("oracle:C08:negative-target-not-ignored", vfmt("%zu events follow in the undisturbed playback, %zu after the ignored seek; %s", A.cap.ev.size() - a0, B.cap.ev.size() - b0, ctx.c_str()));
        else for(size_t i = 0; a0 + i < A.cap.ev.size(); i++) if(!A.cap.ev[a0 + i].same(B.cap.ev[b0 + i])) { c.violation("oracle:C08:negative-target-not-ignored", vfmt("event #%zu differs after the ignored seek; %s", i, ctx.c_str())); break; }
        c.nontrivial = true; cover("negative");
    }
    API("opn2_close", opn2_close(A.d));
    API("opn2_close", opn2_close(B.d));
    c.sig = ctx;
    c.sample(std::string("{\"file_bytes\":") + vfmt("%zu", file.size()) + ",\"target_s\":" + vfmt("%.9f", t) + ",\"variant\":" + vfmt("%d", variant) + ",\"context\":" + jstr(ctx) + "}");
}
