// C04 / C05 / C06 — voice-allocation bookkeeping, note life cycle, channel allocation.
// One workload engine (random histories and a depth-bounded exhaustive enumeration over a small alphabet) with
// three monitors selected by --opt mode=c04|c05|c06:
//   c04: invariants I1..I6 after every call (state walker H2 + key shadow H1)
//   c05: reference model of the MIDI note life cycle; set of sounding (channel,key) pairs after every call
//   c06: before/after relation on every note-on (no displacement while a chip channel is idle; held before key-down)
#include "vstate.hpp"
#include "vsmf.hpp"

static const char *harness_name() { return "c04_voices"; }
static void harness_init() { default_bank(); }

enum OpKind { OP_ON, OP_OFF, OP_ON0, OP_CC64, OP_CC66, OP_CC123, OP_CC120, OP_CC121, OP_PANIC, OP_RESETSTATE, OP_SYSEX, OP_PROG,
              OP_GEN, OP_ARP, OP_NUMCHIPS, OP_EMU, OP_CHIPTYPE, OP_BANKLOAD, OP_INSEDIT, OP_RESET, OP_CTRL, OP_SEQ, OP_ALLOCMODE, OP_GENLONG };
static const char *opname(int k)
{
    static const char *n[] = {"noteOn", "noteOff", "noteOnVel0", "cc64", "cc66", "cc123", "cc120", "cc121", "panic", "resetState", "sysexReset", "program",
                              "generate", "arpeggio", "setNumChips", "switchEmulator", "setChipType", "bankLoad", "setInstrument", "reset", "controller", "sequencer", "allocMode", "generateLong"};
    return n[k];
}
struct Op { int kind; int ch, a, b; };

static const int BLANK_PROG = 5;          // melodic program made blank in every test bank
static const int BLANK_DRUM = 41;         // percussion key made blank

struct Ctx
{
    OPN2_MIDIPlayer *d;
    Tap tap;
    int chips, emu;
    long rate;
    bool arpeggio;
    int prog[16];
    short pcm[2 * 4096];
    Ctx(): d(NULL), chips(1), emu(2), rate(8000), arpeggio(false) { for(int i = 0; i < 16; i++) prog[i] = 0; }
};

static void prepare_bank(Case &c, Ctx &x, bool delays_extreme)
{
    int rc = 0;
    ExactBuf b(default_bank());
    API("opn2_openBankData", rc = opn2_openBankData(x.d, b.p, (long)b.n));
    if(rc != 0) { c.violation("oracle:default-bank-rejected", "bank rejected"); return; }
    for(int perc = 0; perc < 2; perc++)
    {
        OPN2_BankId id; id.percussive = (uint8_t)perc; id.msb = 0; id.lsb = 0; OPN2_Bank bk;
        API("opn2_getBank", rc = opn2_getBank(x.d, &id, 0, &bk));
        if(rc != 0) { c.violation("oracle:default-bank-missing", "bank 0 missing after load"); return; }
        OPN2_Instrument ins;
        int idx = perc ? BLANK_DRUM : BLANK_PROG;
        API("opn2_getInstrument", rc = opn2_getInstrument(x.d, &bk, (unsigned)idx, &ins));
        ins.inst_flags |= OPNMIDI_Ins_IsBlank;
        API("opn2_setInstrument", rc = opn2_setInstrument(x.d, &bk, (unsigned)idx, &ins));
        if(delays_extreme && !perc)
        {
            static const int dl[][2] = {{0, 0}, {1, 1}, {40000, 100}, {65535, 65535}, {100, 40000}, {5000, 0}};
            for(int i = 0; i < 6; i++)
            {
                API("opn2_getInstrument", rc = opn2_getInstrument(x.d, &bk, (unsigned)(10 + i), &ins));
                ins.delay_on_ms = (uint16_t)dl[i][0]; ins.delay_off_ms = (uint16_t)dl[i][1];
                API("opn2_setInstrument", rc = opn2_setInstrument(x.d, &bk, (unsigned)(10 + i), &ins));
            }
        }
    }
}

static bool open_instance(Case &c, Ctx &x, bool delays_extreme)
{
    API("opn2_init", x.d = opn2_init(x.rate));
    if(!x.d) { c.violation("oracle:init-failed", "opn2_init returned NULL"); return false; }
    x.tap.attach(x.d);
    int rc = 0;
    API("opn2_setNumChips", rc = opn2_setNumChips(x.d, x.chips));
    API("opn2_switchEmulator", rc = opn2_switchEmulator(x.d, x.emu));
    prepare_bank(c, x, delays_extreme);
    for(int i = 0; i < 16; i++) x.prog[i] = 0;
    return true;
}

// ---------------------------------------------------------------------------------------------
// C05 reference model (Appendix A.1)
// ---------------------------------------------------------------------------------------------
struct KeyState { bool down, pheld, smark; bool smark3v; bool down3v; double perc_age; bool perc_pending; bool deferred_then_pedal;
    KeyState(): down(false), pheld(false), smark(false), smark3v(false), down3v(false), perc_age(1e9), perc_pending(false), deferred_then_pedal(false) {} };
struct Model
{
    std::map<std::pair<int, int>, KeyState> keys;
    bool pedal[16];
    bool suspended;       // polyphony exceeded: comparison off until the next panic with everything released
    Model(): suspended(false) { for(int i = 0; i < 16; i++) pedal[i] = false; }
    KeyState &k(int ch, int key) { return keys[std::make_pair(ch, key)]; }
    static bool is_perc(int ch) { return ch == 9; }
    void note_off(int ch, int key, bool deferrable)
    {
        KeyState &s = k(ch, key);
        if(!s.down && !s.down3v) return;
        if(deferrable && is_perc(ch) && s.perc_age < 0.03 + 0.07) s.perc_pending = true;   // 30 ms + one 512-frame period (64 ms at 8 kHz): three-valued
        s.down = false; s.down3v = false;
        if(pedal[ch]) s.pheld = true;
    }
    void apply(const Op &o, bool blank_program, double gen_seconds)
    {
        switch(o.kind)
        {
        case OP_ON:
            if(blank_program) { note_off(o.ch, o.a, false); break; }
            { KeyState &s = k(o.ch, o.a); if(s.smark) s.smark3v = true; s.down = true; s.down3v = false; s.perc_age = 0; s.perc_pending = false; s.deferred_then_pedal = false; }
            break;
        case OP_OFF: case OP_ON0: note_off(o.ch, o.a, true); break;
        case OP_CC64:
            pedal[o.ch] = o.a >= 64;
            if(!pedal[o.ch]) for(auto &e : keys) if(e.first.first == o.ch) e.second.pheld = false;
            // a drum note whose release is still deferred (30 ms minimal life time) when the pedal goes down
            if(pedal[o.ch]) for(auto &e : keys) if(e.first.first == o.ch && e.second.perc_pending && !e.second.down && !e.second.pheld) e.second.deferred_then_pedal = true;
            break;
        case OP_CC66:
            if(o.a >= 64) { for(auto &e : keys) if(e.first.first == o.ch && e.second.down) { e.second.smark = true; e.second.smark3v = false; } else if(e.first.first == o.ch && (e.second.down3v || e.second.perc_pending)) e.second.smark3v = true; }
            else for(auto &e : keys) if(e.first.first == o.ch) { e.second.smark = false; e.second.smark3v = false; }
            break;
        case OP_CC123: case OP_CC120:
            for(auto &e : keys) if(e.first.first == o.ch && (e.second.down || e.second.down3v)) note_off(o.ch, e.first.second, false);
            break;
        case OP_CC121:
            pedal[o.ch] = false;
            for(auto &e : keys) if(e.first.first == o.ch) { e.second.pheld = false; e.second.smark = false; e.second.smark3v = false; }
            break;
        case OP_PANIC:
            for(auto &e : keys) { KeyState &s = e.second; if(Model::is_perc(e.first.first) && s.down && s.perc_age < 0.1) s.perc_pending = true; s.down = s.pheld = s.smark = s.smark3v = s.down3v = false; }
            break;
        case OP_RESETSTATE: case OP_SYSEX:
            for(int i = 0; i < 16; i++) pedal[i] = false;
            for(auto &e : keys) { KeyState &s = e.second; s.pheld = false; s.smark = false; s.smark3v = false; if(s.down) { s.down = false; s.down3v = true; } }
            break;
        case OP_GEN: case OP_GENLONG:
            for(auto &e : keys) { e.second.perc_age += gen_seconds; if(e.second.perc_pending && e.second.perc_age > 0.03 + 0.07 + 0.07) e.second.perc_pending = false; }
            break;
        default: break;
        }
    }
};

// ---------------------------------------------------------------------------------------------
// executing one op
// ---------------------------------------------------------------------------------------------
struct Exec { int noteon_ret; double gen_seconds; bool structural; Exec(): noteon_ret(-1), gen_seconds(0), structural(false) {} };

static Exec exec_op(Case &c, Ctx &x, const Op &o)
{
    Exec e;
    OPN2_MIDIPlayer *d = x.d;
    switch(o.kind)
    {
    case OP_ON: API("opn2_rt_noteOn", e.noteon_ret = opn2_rt_noteOn(d, (uint8_t)o.ch, (uint8_t)o.a, (uint8_t)o.b)); break;
    case OP_OFF: API("opn2_rt_noteOff", opn2_rt_noteOff(d, (uint8_t)o.ch, (uint8_t)o.a)); break;
    case OP_ON0: API("opn2_rt_noteOn", e.noteon_ret = opn2_rt_noteOn(d, (uint8_t)o.ch, (uint8_t)o.a, 0)); break;
    case OP_CC64: API("opn2_rt_controllerChange", opn2_rt_controllerChange(d, (uint8_t)o.ch, 64, (uint8_t)o.a)); break;
    case OP_CC66: API("opn2_rt_controllerChange", opn2_rt_controllerChange(d, (uint8_t)o.ch, 66, (uint8_t)o.a)); break;
    case OP_CC123: API("opn2_rt_controllerChange", opn2_rt_controllerChange(d, (uint8_t)o.ch, 123, 0)); break;
    case OP_CC120: API("opn2_rt_controllerChange", opn2_rt_controllerChange(d, (uint8_t)o.ch, 120, 0)); break;
    case OP_CC121: API("opn2_rt_controllerChange", opn2_rt_controllerChange(d, (uint8_t)o.ch, 121, 0)); break;
    case OP_PANIC: API("opn2_panic", opn2_panic(d)); break;
    case OP_RESETSTATE: API("opn2_rt_resetState", opn2_rt_resetState(d)); break;
    case OP_SYSEX:
    {
        static const uint8_t gm[] = {0xF0, 0x7E, 0x7F, 0x09, 0x01, 0xF7}, gs[] = {0xF0, 0x41, 0x10, 0x42, 0x12, 0x40, 0x00, 0x7F, 0x00, 0x41, 0xF7}, xg[] = {0xF0, 0x43, 0x10, 0x4C, 0x00, 0x00, 0x7E, 0x00, 0xF7};
        const uint8_t *m = o.a == 0 ? gm : o.a == 1 ? gs : xg; size_t n = o.a == 0 ? sizeof(gm) : o.a == 1 ? sizeof(gs) : sizeof(xg);
        int rc = 0; API("opn2_rt_systemExclusive", rc = opn2_rt_systemExclusive(d, m, n)); (void)rc; break;
    }
    case OP_PROG: API("opn2_rt_patchChange", opn2_rt_patchChange(d, (uint8_t)o.ch, (uint8_t)o.a)); x.prog[o.ch & 15] = o.a; break;
    case OP_GENLONG:
    {   // long simulated time without audio: opn2_tickEvents advances the same age / TTL / arpeggio / glide iterators as the audio calls
        double left = o.a / 1000.0; e.gen_seconds = left;
        while(left > 0) { double step = std::min(left, 0.5); double ret = 0; API("opn2_tickEvents", ret = opn2_tickEvents(d, step, 0.001)); (void)ret; left -= step; }
        break;
    }
    case OP_GEN:
    {
        long frames = (long)((double)o.a * x.rate / 1000.0);
        e.gen_seconds = (double)frames / x.rate;
        while(frames > 0) { int n = (int)std::min<long>(frames, 4096); int got = 0; API("opn2_generate", got = opn2_generate(d, n * 2, x.pcm)); (void)got; frames -= n; }
        break;
    }
    case OP_ARP: x.arpeggio = o.a != 0; API("opn2_setAutoArpeggio", opn2_setAutoArpeggio(d, o.a)); break;
    case OP_NUMCHIPS: { int rc = 0; API("opn2_setNumChips", rc = opn2_setNumChips(d, o.a)); x.chips = o.a; e.structural = true; (void)rc; break; }
    case OP_EMU: { int rc = 0; API("opn2_switchEmulator", rc = opn2_switchEmulator(d, o.a)); x.emu = o.a; e.structural = true; (void)rc; break; }
    case OP_CHIPTYPE: API("opn2_setChipType", opn2_setChipType(d, o.a)); e.structural = true; break;
    case OP_BANKLOAD:
        if(o.a > 0)
        {   // a bank file the parser refuses: the loaded bank stays in place, sounding notes keep playing instruments of it
            std::vector<uint8_t> img = default_bank();
            switch(o.a) { case 1: img.resize(img.size() / 2); break; case 2: img.resize(300); break; case 3: img.resize(img.size() - 1); break; case 4: img[3] ^= 0x20; break; default: img.resize(17); break; }
            ExactBuf b(img); int rc = 0; API("opn2_openBankData", rc = opn2_openBankData(d, b.p, (long)b.n));
            if(rc == 0) { prepare_bank(c, x, false); e.structural = true; }      // accepted after all (not expected): treat as a reload
            else count("refused_bank_loads");
            break;
        }
        prepare_bank(c, x, false); e.structural = true; break;
    case OP_INSEDIT:
    {
        OPN2_BankId id; id.percussive = (uint8_t)o.b; id.msb = 0; id.lsb = 0; OPN2_Bank bk; int rc = 0;
        API("opn2_getBank", rc = opn2_getBank(d, &id, 0, &bk));
        if(rc == 0) { OPN2_Instrument ins; API("opn2_getInstrument", rc = opn2_getInstrument(d, &bk, (unsigned)o.a, &ins)); ins.fbalg ^= 0x08; ins.operators[0].level_40 = (uint8_t)((ins.operators[0].level_40 + 3) & 0x7F); API("opn2_setInstrument", rc = opn2_setInstrument(d, &bk, (unsigned)o.a, &ins)); }
        break;
    }
    case OP_RESET: API("opn2_reset", opn2_reset(d)); e.structural = true; for(int i = 0; i < 16; i++) x.prog[i] = 0; break;
    case OP_CTRL:
        switch(o.a)
        {
        case 0: API("opn2_rt_pitchBend", opn2_rt_pitchBend(d, (uint8_t)o.ch, (OPN2_UInt16)((o.b & 3) == 0 ? 16383 : (o.b & 3) == 1 ? 0 : o.b))); break;
        case 8:
        {   // bend range through RPN 0, up to the largest value the message can carry
            static const int msbs[] = {127, 24, 2, 0, 12, 127, 96, 48};
            API("opn2_rt_controllerChange", opn2_rt_controllerChange(d, (uint8_t)o.ch, 101, 0)); API("opn2_rt_controllerChange", opn2_rt_controllerChange(d, (uint8_t)o.ch, 100, 0));
            API("opn2_rt_controllerChange", opn2_rt_controllerChange(d, (uint8_t)o.ch, 6, (uint8_t)msbs[o.b & 7])); API("opn2_rt_controllerChange", opn2_rt_controllerChange(d, (uint8_t)o.ch, 38, (uint8_t)((o.b >> 3) & 127)));
            break;
        }
        case 1: API("opn2_rt_controllerChange", opn2_rt_controllerChange(d, (uint8_t)o.ch, 7, (uint8_t)(o.b & 127))); break;
        case 2: API("opn2_rt_controllerChange", opn2_rt_controllerChange(d, (uint8_t)o.ch, 10, (uint8_t)(o.b & 127))); break;
        case 3: API("opn2_rt_controllerChange", opn2_rt_controllerChange(d, (uint8_t)o.ch, 1, (uint8_t)(o.b & 127))); break;
        case 4: API("opn2_rt_controllerChange", opn2_rt_controllerChange(d, (uint8_t)o.ch, 5, (uint8_t)(o.b & 127))); API("opn2_rt_controllerChange", opn2_rt_controllerChange(d, (uint8_t)o.ch, 65, 127)); break;
        case 5: API("opn2_rt_controllerChange", opn2_rt_controllerChange(d, (uint8_t)o.ch, 65, 0)); break;
        case 6: API("opn2_rt_noteAfterTouch", opn2_rt_noteAfterTouch(d, (uint8_t)o.ch, (uint8_t)(o.b & 127), 90)); break;
        default: API("opn2_rt_channelAfterTouch", opn2_rt_channelAfterTouch(d, (uint8_t)o.ch, (uint8_t)(o.b & 127))); break;
        }
        break;
    case OP_SEQ:
    {
        Rng r2((uint64_t)o.a * 7919 + 13, 5, (uint64_t)o.b);
        SongOpts so; so.max_tracks = 3; so.max_events = 30; so.tempo_changes = false; so.force_division = 96; so.devices = (o.b & 1) != 0;
        Song s = gen_song(r2, so);
        std::vector<uint8_t> f = serialize_song(s); ExactBuf in(f); int rc = 0;
        API("opn2_openData", rc = opn2_openData(d, in.p, (unsigned long)in.n));
        e.structural = true; for(int i = 0; i < 16; i++) x.prog[i] = -1;
        if(rc == 0)
        {
            for(int i = 0; i < 4; i++)
            {
                int got = 0; API("opn2_play", got = opn2_play(d, 2 * (int)r2.range(64, 3000), x.pcm)); (void)got;
                if(r2.chance(0.4)) { double len = 0; API("opn2_totalTimeLength", len = opn2_totalTimeLength(d)); API("opn2_positionSeek", opn2_positionSeek(d, r2.unit() * len)); }
            }
        }
        break;
    }
    case OP_ALLOCMODE: API("opn2_setChannelAllocMode", opn2_setChannelAllocMode(d, o.a)); break;
    }
    return e;
}

// ---------------------------------------------------------------------------------------------
// random history generator
// ---------------------------------------------------------------------------------------------
static Op gen_op(Rng &r, const std::string &mode, int nkeys, bool allow_struct)
{
    static const int chans[] = {0, 1, 9, 0, 9, 2};
    Op o; o.ch = r.pick(chans); o.a = 0; o.b = 0;
    int base = (o.ch == 9) ? 36 : 60;
    int key = base + (int)r.below((uint32_t)nkeys);
    if(mode != "c05" && r.chance(0.04)) key = r.range(90, 127);      // the top of the keyboard (with wide bend ranges: tones far above the chip's range)
    if(r.chance(0.03)) key = r.chance(0.5) ? 127 : 0;      // the ends of the key range
    int p = (int)r.below(1000);
    if(p < 330) { o.kind = OP_ON; o.a = key; o.b = r.chance(0.5) ? 127 : r.range(1, 127); }
    else if(p < 520) { o.kind = r.chance(0.8) ? OP_OFF : OP_ON0; o.a = key; }
    else if(p < 580) { o.kind = OP_CC64; o.a = r.chance(0.5) ? 127 : (r.chance(0.7) ? 0 : r.range(0, 127)); }
    else if(p < 630) { o.kind = OP_CC66; o.a = r.chance(0.5) ? 127 : 0; }
    else if(p < 660) o.kind = OP_CC123;
    else if(p < 680) o.kind = OP_CC120;
    else if(p < 700) o.kind = OP_CC121;
    else if(p < 725) o.kind = OP_PANIC;
    else if(p < 745) o.kind = OP_RESETSTATE;
    else if(p < 760) { o.kind = OP_SYSEX; o.a = (int)r.below(3); }
    else if(p < 800) { o.kind = OP_PROG; o.a = r.chance(0.25) ? BLANK_PROG : (r.chance(0.5) ? r.range(10, 15) : r.range(0, 30)); }
    else if(p < 900) { o.kind = OP_GEN; o.a = r.chance(0.3) ? 0 : r.range(1, 60); }
    else
    {
        int q = (int)r.below(100);
        if(mode == "c05") { o.kind = OP_GEN; o.a = r.range(20, 120); }
        else if(mode == "c06")
        {
            if(q < 30) { o.kind = OP_GENLONG; o.a = r.pick((const int[]){200, 1000, 5000, 30000, 70000}); }
            else if(q < 50) { o.kind = OP_ARP; o.a = (int)r.below(2); }
            else if(q < 70) { o.kind = OP_ALLOCMODE; o.a = r.range(-1, 2); }
            else { o.kind = OP_CTRL; o.a = (int)r.below(9); o.b = (int)r.below(16384); }
        }
        else
        {
            if(q < 15) { o.kind = OP_ARP; o.a = (int)r.below(2); }
            else if(q < 40) { o.kind = OP_CTRL; o.a = (int)r.below(9); o.b = (int)r.below(16384); }
            else if(q < 50) { o.kind = OP_INSEDIT; o.a = r.range(0, 30); o.b = (int)r.below(2); }
            else if(!allow_struct) { o.kind = OP_GEN; o.a = r.range(1, 40); }
            else if(q < 60) { o.kind = OP_NUMCHIPS; o.a = r.range(1, 4); }
            else if(q < 68) { o.kind = OP_EMU; o.a = r.pick((const int[]){0, 2, 0, 2, 4, 5}); }
            else if(q < 75) { o.kind = OP_CHIPTYPE; o.a = r.range(-1, 1); }
            else if(q < 84) { o.kind = OP_BANKLOAD; o.a = r.chance(0.35) ? 1 + (int)r.below(5) : 0; }     // a > 0: a damaged bank image (must be refused and change nothing)
            else if(q < 90) o.kind = OP_RESET;
            else if(q < 96) { o.kind = OP_SEQ; o.a = (int)r.below(100000); o.b = (int)r.below(1000); }
            else { o.kind = OP_ALLOCMODE; o.a = r.range(-1, 2); }
        }
    }
    return o;
}

// exhaustive alphabet (20 symbols) over 2 MIDI channels (one percussion), 3+2 keys, 1 chip
static Op alphabet(int sym)
{
    Op o; o.ch = 0; o.a = 0; o.b = 100;
    switch(sym)
    {
    case 0: case 1: case 2: o.kind = OP_ON; o.ch = 0; o.a = 60 + sym; break;
    case 3: case 4: o.kind = OP_ON; o.ch = 9; o.a = 36 + (sym - 3); break;
    case 5: case 6: case 7: o.kind = OP_OFF; o.ch = 0; o.a = 60 + (sym - 5); break;
    case 8: case 9: o.kind = OP_OFF; o.ch = 9; o.a = 36 + (sym - 8); break;
    case 10: o.kind = OP_CC64; o.a = 127; break;
    case 11: o.kind = OP_CC64; o.a = 0; break;
    case 12: o.kind = OP_CC66; o.a = 127; break;
    case 13: o.kind = OP_CC66; o.a = 0; break;
    case 14: o.kind = OP_CC123; break;
    case 15: o.kind = OP_PANIC; break;
    case 16: o.kind = OP_GEN; o.a = 40; break;
    case 17: o.kind = OP_CC121; break;
    case 18: o.kind = OP_RESETSTATE; break;
    default: o.kind = OP_CC64; o.ch = 9; o.a = 127; break;
    }
    return o;
}

static std::string op_str(const Op &o) { return vfmt("%s(ch%d,%d,%d)", opname(o.kind), o.ch, o.a, o.b); }

// ---------------------------------------------------------------------------------------------
// monitors
// ---------------------------------------------------------------------------------------------
static std::set<std::pair<int, int> > observed_sounding(const StateSnap &s)
{
    std::set<std::pair<int, int> > O;
    for(size_t c = 0; c < s.chip.size(); c++) if(s.chip[c].keyon) for(size_t i = 0; i < s.chip[c].users.size(); i++) O.insert(std::make_pair((int)s.chip[c].users[i].midch, (int)s.chip[c].users[i].note));
    return O;
}

static void c05_compare(Case &c, Model &m, const StateSnap &s, const Op &o, const std::string &trail)
{
    if(m.suspended) { count("c05_comparisons_suspended"); return; }
    std::set<std::pair<int, int> > O = observed_sounding(s);
    bool nonempty = false;
    for(auto &e : m.keys)
    {
        KeyState &k = e.second;
        bool definite = k.down || k.pheld || (k.smark && !k.smark3v);
        bool maybe = k.down3v || k.perc_pending || (k.smark && k.smark3v) || (k.smark3v && !k.smark);
        bool obs = O.count(e.first) != 0;
        if(definite) nonempty = true;
        if(definite && !obs)
        {
            c.violation(std::string("oracle:C05:note-cut:") + (k.down ? "key-down" : k.pheld ? "pedal-held" : "sostenuto-held") + ":after-" + opname(o.kind),
                        vfmt("(ch %d, key %d) should sound (down=%d pedal-held=%d sostenuto=%d) but owns no keyed-on chip channel; history: %s", e.first.first, e.first.second, k.down, k.pheld, k.smark, trail.c_str()));
            k = KeyState();     // reported once: follow the implementation from here on
        }
        else if(!definite && !maybe && obs)
        {
            c.violation(k.deferred_then_pedal ? std::string("oracle:C05:note-still-sounding:deferred-drum-release-captured-by-later-pedal")
                                              : std::string("oracle:C05:note-still-sounding:after-") + opname(o.kind),
                        vfmt("(ch %d, key %d) should have ended but still owns a keyed-on chip channel; history: %s", e.first.first, e.first.second, trail.c_str()));
            k.down3v = true;    // reported once: three-valued from here on
        }
        else if(!definite && maybe)
        {   // three-valued: adopt what was observed
            if(k.down3v) { if(!obs) k.down3v = false; }
            if(k.smark3v) { k.smark = obs && !k.down && !k.pheld ? true : k.smark; if(!obs) { k.smark = false; k.smark3v = false; } }
            if(k.perc_pending && !obs) k.perc_pending = false;
            count("c05_three_valued_adoptions");
        }
    }
    for(auto &p : O) if(!m.keys.count(p)) c.violation(std::string("oracle:C05:note-still-sounding:after-") + opname(o.kind), vfmt("(ch %d, key %d) sounds but was never started; history: %s", p.first, p.second, trail.c_str()));
    count("c05_set_comparisons");
    if(nonempty)
    {
        int nd = 0, np = 0, ns = 0, n3 = 0;
        for(auto &e : m.keys) { if(e.second.down) nd++; if(e.second.pheld) np++; if(e.second.smark) ns++; if(e.second.down3v || e.second.smark3v || e.second.perc_pending) n3++; }
        c.nontrivial = true;
        cover(vfmt("c05|%s|d%d|p%d|s%d|t%d|O%zu", opname(o.kind), std::min(nd, 3), std::min(np, 3), std::min(ns, 3), std::min(n3, 2), std::min<size_t>(O.size(), 6)));
    }
}

static void c06_check(Case &c, const StateSnap &before, const StateSnap &after, const Op &o, int ret, bool key_was_active, bool blank, const std::string &trail, const Ctx &x, int allocmode)
{
    if(blank || key_was_active) { count("c06_noteons_not_evaluated"); return; }
    // occupancy pattern for coverage
    std::vector<char> pat;
    for(size_t ch = 0; ch < before.chip.size(); ch++)
    {
        const ChipChanSnap &cc = before.chip[ch];
        char t = '-';
        if(!cc.users.empty()) { bool anydown = false; for(size_t i = 0; i < cc.users.size(); i++) if(cc.users[i].sustained == 0) anydown = true; t = anydown ? (cc.users.size() > 1 ? 'A' : 'D') : (cc.users.size() > 1 ? 'h' : 'H'); }
        else if(cc.koff_us > 0) t = 'r';
        pat.push_back(t);
    }
    std::sort(pat.begin(), pat.end());
    cover("c06|" + std::string(pat.begin(), pat.end()) + vfmt("|m%d|a%d", allocmode, x.arpeggio ? 1 : 0));
    c.nontrivial = true;
    count("c06_noteons_evaluated");
    // where did the new note go?
    int chosen = -1;
    for(size_t ch = 0; ch < after.chip.size(); ch++) if(after.has_user(ch, (unsigned)o.ch, (unsigned)o.a) && !before.has_user(ch, (unsigned)o.ch, (unsigned)o.a)) chosen = (int)ch;
    if(before.idle() > 0)
    {
        if(ret != 1) c.violation("oracle:C06:rejected-while-channel-idle", vfmt("note-on (ch %d key %d) returned %d although %d chip channels had no user; history: %s", o.ch, o.a, ret, before.idle(), trail.c_str()));
        else if(chosen < 0) c.violation("oracle:C06:accepted-but-not-placed", vfmt("note-on (ch %d key %d) returned 1 but no chip channel lists it; history: %s", o.ch, o.a, trail.c_str()));
        else if(!before.chip[(size_t)chosen].users.empty())
            c.violation("oracle:C06:placed-on-busy-channel-while-idle-exists", vfmt("note-on (ch %d key %d) was placed on chip channel %d which had %zu user(s) while %d channel(s) were idle; history: %s", o.ch, o.a, chosen, before.chip[(size_t)chosen].users.size(), before.idle(), trail.c_str()));
        for(size_t ch = 0; ch < before.chip.size() && ch < after.chip.size(); ch++)
            for(size_t i = 0; i < before.chip[ch].users.size(); i++)
            {
                const UserSnap &u = before.chip[ch].users[i];
                if(u.midch == (unsigned)o.ch && u.note == (unsigned)o.a) continue;
                if(!after.has_user(ch, u.midch, u.note) || !after.chip[ch].keyon)
                    c.violation(std::string("oracle:C06:displaced-while-channel-idle:") + (u.sustained ? "held-note" : "key-down-note"),
                                vfmt("note-on (ch %d key %d): user (ch %u key %u, sustained %u) of chip channel %zu lost its channel / key-on although %d channel(s) were idle; history: %s", o.ch, o.a, u.midch, u.note, u.sustained, ch, before.idle(), trail.c_str()));
            }
    }
    else if(chosen >= 0)
    {
        bool chosen_had_keydown = false;
        for(size_t i = 0; i < before.chip[(size_t)chosen].users.size(); i++) if(before.chip[(size_t)chosen].users[i].sustained == 0) chosen_had_keydown = true;
        int single_held = -1;
        for(size_t ch = 0; ch < before.chip.size(); ch++) if(before.chip[ch].users.size() == 1 && before.chip[ch].users[0].sustained != 0) single_held = (int)ch;
        if(chosen_had_keydown && single_held >= 0)
            c.violation("oracle:C06:key-down-channel-taken-before-held-channel", vfmt("note-on (ch %d key %d) took chip channel %d (key-down user) although channel %d held a single released-but-held note; history: %s", o.ch, o.a, chosen, single_held, trail.c_str()));
        count("c06_full_table_noteons");
    }
}

// ---------------------------------------------------------------------------------------------
static void run_history(Case &c, Ctx &x, const std::vector<Op> &ops, const std::string &mode)
{
    Model model;
    StateSnap before, after;
    std::vector<std::string> trail_v;
    int allocmode = -1;
    std::set<std::string> inv_present;
    take_snapshot(x.d, x.tap, after);
    for(size_t i = 0; i < ops.size() && g_w.violations_in_case < 6; i++)
    {
        const Op &o = ops[i];
        trail_v.push_back(op_str(o));
        std::string trail;
        const size_t keep = g_w.optnum("fulltrail", 0) ? 100000 : 14;
        for(size_t j = trail_v.size() > keep ? trail_v.size() - keep : 0; j < trail_v.size(); j++) trail += trail_v[j] + " ";
        before = after;
        bool blank = false, key_active = false;
        if(o.kind == OP_ON)
        {
            int pg = x.prog[o.ch & 15];
            blank = (o.ch == 9) ? (o.a == BLANK_DRUM) : (pg == BLANK_PROG);
            if((size_t)o.ch < before.midi.size()) for(size_t k = 0; k < before.midi[(size_t)o.ch].notes.size(); k++) if(before.midi[(size_t)o.ch].notes[k].note == o.a) key_active = true;
            for(size_t ch = 0; ch < before.chip.size(); ch++) if(before.has_user(ch, (unsigned)o.ch, (unsigned)o.a)) key_active = true;
        }
        if(o.kind == OP_ALLOCMODE) allocmode = o.a;
        Exec e = exec_op(c, x, o);
        take_snapshot(x.d, x.tap, after);
        count("calls_monitored");
        if(mode == "c04")
        {
            int bad = check_c04_invariants(c, x.d, x.tap, after, opname(o.kind), inv_present, trail);
            count("c04_invariant_evaluations");
            (void)bad;
            cover("c04|" + abstract_state(after));
            c.nontrivial = true;
        }
        else if(mode == "c05")
        {
            if(o.kind == OP_ON && !blank && before.idle() <= 1) model.suspended = true;     // polyphony bound reached (a re-struck held key may take a second channel): comparison off
            model.apply(o, blank, e.gen_seconds);
            if(o.kind == OP_ON && blank && e.noteon_ret != 0) c.violation("oracle:C05:blank-note-accepted", vfmt("note-on on a blank instrument returned %d; history: %s", e.noteon_ret, trail.c_str()));
            if(o.kind == OP_ON && !blank && !model.suspended && e.noteon_ret != 1) c.violation("oracle:C05:note-rejected-below-polyphony", vfmt("note-on (ch %d key %d) returned %d with %d idle channels; history: %s", o.ch, o.a, e.noteon_ret, before.idle(), trail.c_str()));
            c05_compare(c, model, after, o, trail);
            if(o.kind == OP_PANIC && model.suspended)
            {   // resume after a panic once nothing is left
                bool any = false; for(auto &k : model.keys) if(k.second.perc_pending) any = true;
                if(!any && after.busy() == 0) { model.suspended = false; model.keys.clear(); }
            }
        }
        else if(mode == "c06")
        {
            if(o.kind == OP_ON) c06_check(c, before, after, o, e.noteon_ret, key_active, blank, trail, x, allocmode);
        }
    }
    if(mode == "c05" && g_w.violations_in_case == 0)
    {   // end-of-history clause: release everything, 30 ms + one period of audio, then nothing may be keyed on
        for(int ch = 0; ch < 16; ch++) { API("opn2_rt_controllerChange", opn2_rt_controllerChange(x.d, (uint8_t)ch, 64, 0)); API("opn2_rt_controllerChange", opn2_rt_controllerChange(x.d, (uint8_t)ch, 66, 0)); }
        for(auto &k : model.keys) API("opn2_rt_noteOff", opn2_rt_noteOff(x.d, (uint8_t)k.first.first, (uint8_t)k.first.second));
        // also every key the workload may have touched while the comparison was suspended
        for(int ch = 0; ch < 16; ch++) for(int key = 0; key < 128; key++) if(!model.keys.count(std::make_pair(ch, key))) { bool act = false; for(size_t k2 = 0; ch < (int)after.midi.size() && k2 < after.midi[(size_t)ch].notes.size(); k2++) if(after.midi[(size_t)ch].notes[k2].note == key) act = true; if(act) API("opn2_rt_noteOff", opn2_rt_noteOff(x.d, (uint8_t)ch, (uint8_t)key)); }
        // every other case renders the drum minimum life time (30 ms) exactly first: the life-time counter of a drum note struck
        // at the very end of the history then lands on zero, not below it
        Op g; g.kind = OP_GEN; g.ch = 0; g.b = 0;
        if(c.k & 1) { g.a = 30; exec_op(c, x, g); g.a = 70; exec_op(c, x, g); count("c05_drains_with_exact_30ms_step"); }
        else { g.a = 30 + 70; exec_op(c, x, g); }
        take_snapshot(x.d, x.tap, after);
        for(size_t ch = 0; ch < after.chip.size(); ch++)
        {
            if(after.chip[ch].keyon) { std::string t; for(size_t j = trail_v.size() > 14 ? trail_v.size() - 14 : 0; j < trail_v.size(); j++) t += trail_v[j] + " ";
                c.violation("oracle:C05:stuck-note", vfmt("chip channel %zu still keyed on (%zu users) after all keys and pedals were released and 100 ms generated; history tail: %s", ch, after.chip[ch].users.size(), t.c_str())); break; }
            else if(!after.chip[ch].users.empty()) { c.violation("oracle:C05:stuck-user", vfmt("chip channel %zu keeps %zu users after everything was released", ch, after.chip[ch].users.size())); break; }
        }
        count("c05_end_of_history_checks");
    }
}

// ---------------------------------------------------------------------------------------------
// C06, long holds: a note held only by the pedal for 7..9.9 simulated minutes (the statement quantifies over histories of up
// to 10), then a note-on while idle channels exist. Time passes either as rendered audio in small blocks through the real-time
// API, or tick-driven through the sequencer with a tempo multiplier (song time and real time both stay below 10 minutes).
// ---------------------------------------------------------------------------------------------
static void run_longhold(Case &c)
{
    Rng &r = c.rng;
    Ctx x; x.chips = r.range(1, 2); x.emu = r.chance(0.5) ? 2 : 0; x.rate = 8000;
    if(!open_instance(c, x, false)) return;
    int rc = 0;
    API("opn2_setRunAtPcmRate", rc = opn2_setRunAtPcmRate(x.d, 1));       // cheap audio: the chips are clocked at 8 kHz
    int amode = r.range(-1, 2);
    API("opn2_setChannelAllocMode", opn2_setChannelAllocMode(x.d, amode));
    const bool seq = r.chance(0.5);
    const int k1 = r.range(48, 72), k2 = r.range(48, 72) == k1 ? k1 + 1 : r.range(73, 84), prog = (int)r.pick((const int[]){0, 1, 12, 30, 81});
    const int pedal = r.chance(0.8) ? 64 : 66;
    double real_min = 7.0 + r.unit() * 2.9;
    StateSnap before, after;
    Op on; on.kind = OP_ON; on.ch = 0; on.a = k2; on.b = 100;
    std::string trail;
    int ret = 1;
    if(!seq)
    {
        API("opn2_rt_patchChange", opn2_rt_patchChange(x.d, 0, (uint8_t)prog));
        if(pedal == 66) { API("opn2_rt_noteOn", opn2_rt_noteOn(x.d, 0, (uint8_t)k1, 100)); API("opn2_rt_controllerChange", opn2_rt_controllerChange(x.d, 0, 66, 127)); }
        else { API("opn2_rt_controllerChange", opn2_rt_controllerChange(x.d, 0, 64, 127)); API("opn2_rt_noteOn", opn2_rt_noteOn(x.d, 0, (uint8_t)k1, 100)); }
        API("opn2_rt_noteOff", opn2_rt_noteOff(x.d, 0, (uint8_t)k1));
        int block = (int)r.pick((const int[]){64, 128, 200, 256, 300, 512, 1000});
        long frames = (long)(real_min * 60.0 * x.rate);
        while(frames > 0) { int n = (int)std::min<long>(frames, block); int got = 0; API("opn2_generate", got = opn2_generate(x.d, n * 2, x.pcm)); (void)got; frames -= n; }
        take_snapshot(x.d, x.tap, before);
        API("opn2_rt_noteOn", ret = opn2_rt_noteOn(x.d, 0, (uint8_t)k2, 100));
        take_snapshot(x.d, x.tap, after);
        trail = vfmt("real-time: program %d, key %d held by CC%d only, %.2f min rendered in %d-frame blocks, then note-on key %d; %d chip(s), alloc mode %d", prog, k1, pedal, real_min, block, k2, x.chips, amode);
        cover(vfmt("longhold|rt|block%d|cc%d|m%d", block, pedal, amode));
    }
    else
    {
        double mult = r.pick((const double[]){0.5, 0.5, 0.75, 1.0, 2.0});
        double song_min = real_min * mult; if(song_min > 9.9) { song_min = 9.9; real_min = song_min / mult; }
        Song sg; sg.format = 0; sg.division = 480; sg.running_status = false; sg.tracks.resize(1);
        STrack &tr = sg.tracks[0]; int serial = 0;
        auto push = [&](SEv e) { e.serial = serial++; tr.ev.push_back(e); };
        uint64_t tk2 = (uint64_t)(song_min * 60.0 * 960.0);
        push(mk_chan(0, 0xC0, prog));
        if(pedal == 66) { push(mk_chan(0, 0x90, k1, 100)); push(mk_chan(240, 0xB0, 66, 127)); }
        else { push(mk_chan(0, 0xB0, 64, 127)); push(mk_chan(0, 0x90, k1, 100)); }
        push(mk_chan(480, 0x80, k1, 0));
        push(mk_chan(tk2, 0x90, k2, 100));
        push(mk_chan(tk2 + 960, 0x80, k2, 0));
        push(mk_chan(tk2 + 960, 0xB0, pedal, 0));
        push(mk_meta(tk2 + 1920, 0x2F, std::vector<uint8_t>()));
        std::vector<uint8_t> file = serialize_song(sg);
        { ExactBuf in(file); API("opn2_openData", rc = opn2_openData(x.d, in.p, (unsigned long)in.n)); }
        if(rc != 0) { c.violation("oracle:C06:wellformed-file-rejected", opn2_errorInfo(x.d)); opn2_close(x.d); return; }
        API("opn2_setTempo", opn2_setTempo(x.d, mult));
        const double t2 = (double)tk2 / 960.0;   // song time of the second note-on (default tempo: 960 ticks per second)
        // real time advances in steps of at most `cap` seconds, as an audio-driven player would (inside one call the sequencer
        // delivers its events before the note ages are advanced)
        const double cap = r.pick((const double[]){0.064, 0.25, 1.0});
        double wait = 0; long guard = 0; bool taken = false;
        while(guard++ < 400000)
        {
            double pos = 0; API("opn2_positionTell", pos = opn2_positionTell(x.d));
            double delay = std::min(wait, cap);
            if(!taken && pos + delay * mult >= t2 - 1e-4) { take_snapshot(x.d, x.tap, before); taken = true; }
            double nd = 0; API("opn2_tickEvents", nd = opn2_tickEvents(x.d, delay, 1e-6));
            
            if(taken) { take_snapshot(x.d, x.tap, after); bool there = false; for(size_t ch = 0; ch < after.chip.size(); ch++) if(after.has_user(ch, 0, (unsigned)k2)) there = true; if(there || pos > t2 + 0.5) break; }
            int e = 0; API("opn2_atEnd", e = opn2_atEnd(x.d)); if(e) break;
            wait = nd;
        }
        bool there = false; for(size_t ch = 0; ch < after.chip.size(); ch++) if(after.has_user(ch, 0, (unsigned)k2)) there = true;
        if(!taken || !there) { c.inconclusive = true; count("longhold_second_note_not_observed"); opn2_close(x.d); return; }
        trail = vfmt("sequencer: program %d, key %d held by CC%d only, %.2f min of song time at tempo x%.2f (%.2f min real, tick-driven), then note-on key %d; %d chip(s), alloc mode %d", prog, k1, pedal, song_min, mult, real_min, k2, x.chips, amode);
        cover(vfmt("longhold|seq|tempo%.2f|cc%d|m%d", mult, pedal, amode));
    }
    bool held_before = false;
    for(size_t ch = 0; ch < before.chip.size(); ch++) if(before.has_user(ch, 0, (unsigned)k1)) held_before = true;
    if(!held_before) c.violation("oracle:C06:long-hold:held-note-gone-before-the-note-on", "the pedal-held note no longer owns a chip channel before the second note-on; " + trail);
    else c06_check(c, before, after, on, ret, false, false, "[long hold] " + trail, x, amode);
    count("longhold_cases");
    c.sig = "longhold" + trail.substr(0, 40);
    c.sample(std::string("{\"mode\":\"c06-longhold\",\"history\":") + jstr(trail) + "}");
    API("opn2_close", opn2_close(x.d));
}

// ---------------------------------------------------------------------------------------------
// C06, several MIDI ports: a song whose tracks name 2..3 MIDI devices (FF 09) brings its events one per tick; the same channel
// numbers and the same few keys are in use on every port. Every note-on handed over by the sequencer is judged with the same
// before/after relation as a real-time note-on, under its channel number inside the player (16 x port + channel).
// ---------------------------------------------------------------------------------------------
struct PortEv { int kind, ch, a, b; };      // kind 9 note-on, 8 note-off, 0xB controller
static std::vector<PortEv> g_port_seen;
static void port_hook(void *, OPN2_UInt8 type, OPN2_UInt8, OPN2_UInt8 channel, const OPN2_UInt8 *data, size_t len)
{
    if(type != 0x9 && type != 0x8 && type != 0xB) return;
    PortEv e; e.kind = type; e.ch = channel; e.a = len > 0 ? data[0] : 0; e.b = len > 1 ? data[1] : 0; g_port_seen.push_back(e);
}
static void run_ports(Case &c)
{
    Rng &r = c.rng;
    Ctx x; x.chips = r.range(1, 3); x.emu = r.chance(0.5) ? 2 : 0; x.rate = 8000;
    if(!open_instance(c, x, false)) return;
    int rc = 0;
    int amode = r.range(-1, 2);
    API("opn2_setChannelAllocMode", opn2_setChannelAllocMode(x.d, amode));
    static const char *names[] = {"Port A", "Port B", "MPU-401"};
    const int nports = r.range(2, 3), ntr = r.range(nports, 4);
    std::vector<int> port_of_track((size_t)ntr + 1, 0);
    Song sg; sg.format = 1; sg.division = 96; sg.running_status = r.chance(0.5); sg.tracks.resize((size_t)ntr + 1);
    sg.tracks[0].ev.push_back(mk_tempo(0, 500000));
    for(int t = 1; t <= ntr; t++) { port_of_track[(size_t)t] = (t - 1) % nports; sg.tracks[(size_t)t].ev.push_back(mk_meta_text(0, 0x09, names[port_of_track[(size_t)t]])); }
    struct FOp { int track, kind, ch, a, b; };
    std::vector<FOp> ops;
    uint64_t tick = 0;
    const int chans[3] = {(int)r.below(9), 10 + (int)r.below(6), (int)r.below(9)};
    const int keys[4] = {r.range(40, 80), r.range(40, 80), r.range(40, 80), r.range(40, 80)};
    const int nev = r.range(10, 60);
    for(int i = 0; i < nev; i++)
    {
        FOp o; o.track = 1 + (int)r.below((uint32_t)ntr); o.ch = chans[r.below(3)]; o.a = keys[r.below(4)]; o.b = 100;
        unsigned k = r.below(10);
        o.kind = k < 6 ? 9 : k < 9 ? 8 : 0xB;
        if(o.kind == 0xB) { o.a = 64; o.b = r.chance(0.5) ? 127 : 0; }
        if(o.kind == 8) o.b = 0;
        tick += (uint64_t)r.range(1, 30);
        sg.tracks[(size_t)o.track].ev.push_back(mk_chan(tick, (uint8_t)((o.kind << 4) | o.ch), o.a, o.b));
        ops.push_back(o);
    }
    tick += 10;
    for(int t = 0; t <= ntr; t++) sg.tracks[(size_t)t].ev.push_back(mk_meta(tick, 0x2F, std::vector<uint8_t>()));
    std::vector<uint8_t> file = serialize_song(sg);
    { ExactBuf in(file); API("opn2_openData", rc = opn2_openData(x.d, in.p, (unsigned long)in.n)); }
    if(rc != 0) { c.violation("oracle:C06:wellformed-file-rejected", opn2_errorInfo(x.d)); opn2_close(x.d); return; }
    API("opn2_setRawEventHook", opn2_setRawEventHook(x.d, port_hook, NULL));
    StateSnap before, after;
    size_t next = 0; double delay = 0; long guard = 0; bool lost = false; long on_further = 0;
    std::string trail = vfmt("[song, %d ports, %d chip(s), alloc mode %d]", nports, x.chips, amode);
    // the last event of the song is not judged: the End-of-Track rows that stand alone behind it are delivered with it (trailing
    // silence is skipped), the song ends inside that call and the sequencer silences the first port
    while(guard++ < 4000 && next + 1 < ops.size() && !lost && g_w.violations_in_case < 4)
    {
        g_port_seen.clear();
        take_snapshot(x.d, x.tap, before);
        double nd = 0; API("opn2_tickEvents", nd = opn2_tickEvents(x.d, delay, 1e-6));
        delay = nd;
        if(g_port_seen.empty()) { int e = 0; API("opn2_atEnd", e = opn2_atEnd(x.d)); if(e) break; continue; }
        if(g_port_seen.size() != 1) { lost = true; break; }
        const FOp &o = ops[next]; const PortEv &s = g_port_seen[0];
        if(s.kind != o.kind || s.ch != o.ch || s.a != o.a) { lost = true; break; }
        next++;
        const int port = port_of_track[(size_t)o.track], midch = 16 * port + o.ch;
        trail += vfmt(" %s(p%d ch%d %d)", o.kind == 9 ? "on" : o.kind == 8 ? "off" : "cc64", port, o.ch, o.kind == 0xB ? o.b : o.a);
        if(trail.size() > 900) trail = trail.substr(0, 60) + " ..." + trail.substr(trail.size() - 700);
        if(o.kind != 9) continue;
        take_snapshot(x.d, x.tap, after);
        bool active = false;
        for(size_t ch = 0; ch < before.chip.size(); ch++) if(before.has_user(ch, (unsigned)midch, (unsigned)o.a)) active = true;
        bool placed = false;
        for(size_t ch = 0; ch < after.chip.size(); ch++) if(after.has_user(ch, (unsigned)midch, (unsigned)o.a)) placed = true;
        if(getenv("VERIF_C06_DBG")) { fprintf(stderr, "[dbg] note-on midch %d key %d placed %d active %d\n", midch, o.a, (int)placed, (int)active); for(size_t ch = 0; ch < after.chip.size(); ch++) { fprintf(stderr, "[dbg]  chip ch %zu keyon %d:", ch, (int)after.chip[ch].keyon); for(size_t i = 0; i < after.chip[ch].users.size(); i++) fprintf(stderr, " (%u,%u,s%u)", after.chip[ch].users[i].midch, after.chip[ch].users[i].note, after.chip[ch].users[i].sustained); fprintf(stderr, " | before:"); for(size_t i = 0; i < before.chip[ch].users.size(); i++) fprintf(stderr, " (%u,%u,s%u)", before.chip[ch].users[i].midch, before.chip[ch].users[i].note, before.chip[ch].users[i].sustained); fprintf(stderr, "\n"); } }
        Op on; on.kind = OP_ON; on.ch = midch; on.a = o.a; on.b = 100;
        c06_check(c, before, after, on, placed ? 1 : 0, active, false, trail, x, amode);
        if(port > 0) on_further++;
    }
    if(lost) { c.inconclusive = true; count("ports_events_not_attributable"); }
    count("ports_noteons_on_further_ports", on_further);
    cover(vfmt("ports|p%d|chips%d|m%d", nports, x.chips, amode));
    c.sig = vfmt("ports|%d|%d", nports, x.chips);
    c.sample(std::string("{\"mode\":\"c06-ports\",\"history\":") + jstr(trail) + "}");
    API("opn2_setRawEventHook", opn2_setRawEventHook(x.d, NULL, NULL));
    opn2_close(x.d);
}

static void run_case(Case &c)
{
    if(g_w.optnum("longhold", 0)) { run_longhold(c); return; }
    if(g_w.optnum("ports", 0)) { run_ports(c); return; }
    Rng &r = c.rng;
    std::string mode = g_w.optstr("mode", "c04");
    Ctx x;
    std::vector<Op> ops;
    if(g_w.stage.compare(0, 10, "exhaustive") == 0)
    {
        int depth = (int)g_w.optnum("depth", 4);
        long total = 1; for(int i = 0; i < depth; i++) total *= 20;
        if(c.k >= total) { c.skip = true; return; }
        long v = c.k;
        for(int i = 0; i < depth; i++) { ops.push_back(alphabet((int)(v % 20))); v /= 20; }
        x.chips = 1; x.emu = 2; x.rate = 8000;
    }
    else
    {
        x.chips = (mode == "c06") ? r.range(1, 8) : r.range(1, 4);
        x.emu = r.chance(0.5) ? 2 : 0;
        x.rate = 8000;
        int n = r.range(10, (int)g_w.optnum("maxops", 400));
        int nkeys = r.chance(0.5) ? r.range(2, 5) : r.range(6, 24);
        if(mode == "c05") nkeys = r.range(2, 4 + x.chips);    // keep polyphony mostly below the limit
        for(int i = 0; i < n; i++) ops.push_back(gen_op(r, mode, nkeys, true));
        if(mode != "c05" && r.chance(0.08))
        {   // a phrase far outside the chip's range: the widest bend range, the wheel at an end, keys at the top or bottom of the keyboard
            int ch = (int)r.pick((const int[]){0, 1, 2});
            std::vector<Op> ph; Op o; o.ch = ch;
            o.kind = OP_CTRL; o.a = 8; o.b = (int)(r.below(2) * 5 + 8 * r.below(128)); ph.push_back(o);          // range MSB 127
            o.kind = OP_CTRL; o.a = 0; o.b = r.chance(0.7) ? 0 : 1; ph.push_back(o);                              // wheel fully up / fully down
            for(int i = 0, m = r.range(1, 4); i < m; i++) { o.kind = OP_ON; o.a = r.chance(0.7) ? r.range(70, 127) : r.range(0, 30); o.b = 100; ph.push_back(o); if(r.chance(0.5)) { Op g; g.kind = OP_GEN; g.ch = 0; g.a = r.range(1, 20); g.b = 0; ph.push_back(g); } }
            ops.insert(ops.begin() + (long)r.below((uint32_t)ops.size() + 1), ph.begin(), ph.end());
        }
        if(g_w.optnum("pressure", 0))
        {   // polyphony pressure on one chip: more keys than chip channels, pedals held, few timbres, hardly any audio in
            // between and nothing that empties the chip -> channel stealing, arpeggio sharing and evacuation all the time
            x.chips = 1; ops.clear();
            nkeys = r.range(5, 10);
            static const int progs[] = {0, 12, 0, 12, 1, 30, 81};
            for(int i = 0; i < n; i++)
            {
                Op o = gen_op(r, mode, nkeys, false);
                switch(o.kind)
                {
                case OP_PANIC: case OP_RESETSTATE: case OP_CC123: case OP_CC120: case OP_CC121: case OP_SYSEX: case OP_ARP: case OP_INSEDIT: case OP_CTRL:
                    if(r.chance(0.9)) { o.kind = r.chance(0.7) ? OP_ON : OP_CC64; o.a = o.kind == OP_ON ? ((o.ch == 9) ? 36 : 60) + (int)r.below((uint32_t)nkeys) : (r.chance(0.7) ? 127 : 0); o.b = 100; }
                    break;
                case OP_GEN: if(r.chance(0.85)) o.a = (int)r.below(2); break;
                case OP_PROG: o.a = r.pick(progs); break;
                default: break;
                }
                ops.push_back(o);
            }
        }
    }
    bool arp = (mode == "c04" || mode == "c06") && r.chance(0.5) && g_w.stage.compare(0, 10, "exhaustive") != 0;
    if(g_w.optnum("pressure", 0)) arp = r.chance(0.85);
    if(g_w.optnum("shrink", 0))
    {   // delta-debugging of the history for the first violation key (development aid: --only K --opt shrink=1)
        std::vector<std::string> keys; std::string target;
        auto fails = [&](const std::vector<Op> &h) -> bool {
            Ctx y; y.chips = x.chips; y.emu = x.emu; y.rate = x.rate;
            keys.clear(); g_capture_keys = &keys; int saved = g_w.violations_in_case;
            bool ok = open_instance(c, y, mode != "c04");
            if(ok) { if(arp) { y.arpeggio = true; opn2_setAutoArpeggio(y.d, 1); } run_history(c, y, h, mode); opn2_close(y.d); }
            g_capture_keys = NULL; g_w.violations_in_case = saved;
            if(target.empty()) { if(!keys.empty()) target = keys[0]; return !keys.empty(); }
            for(size_t i = 0; i < keys.size(); i++) if(keys[i] == target) return true;
            return false;
        };
        if(fails(ops))
        {
            size_t chunk = ops.size() / 2;
            while(chunk >= 1)
            {
                bool removed = false;
                for(size_t at = 0; at + chunk <= ops.size();)
                {
                    std::vector<Op> h(ops.begin(), ops.begin() + (long)at); h.insert(h.end(), ops.begin() + (long)(at + chunk), ops.end());
                    if(fails(h)) { ops = h; removed = true; } else at += chunk;
                }
                if(!removed) chunk /= 2;
            }
            std::string hs; for(size_t i = 0; i < ops.size(); i++) hs += op_str(ops[i]) + " ";
            fprintf(stderr, "[shrink] key=%s chips=%d emu=%d arpeggio=%d minimal history (%zu ops): %s\n", target.c_str(), x.chips, x.emu, arp ? 1 : 0, ops.size(), hs.c_str());
        }
        else fprintf(stderr, "[shrink] case does not fail\n");
    }
    // exhaustive stages recycle one instance per worker through opn2_reset (no structural ops in the alphabet);
    // after a violation the instance is thrown away
    static Ctx *recycled = NULL;
    const bool recycle = g_w.stage.compare(0, 10, "exhaustive") == 0;
    if(recycle && recycled)
    {
        Ctx &y = *recycled;
        API("opn2_reset", opn2_reset(y.d));
        for(int i = 0; i < 16; i++) y.prog[i] = 0;
        StateSnap s0; take_snapshot(y.d, y.tap, s0);
        if(s0.busy() != 0) c.violation("oracle:" + mode + ":state-survives-opn2_reset", "chip channels still have users after opn2_reset");
        run_history(c, y, ops, mode);
        if(g_w.violations_in_case) { API("opn2_close", opn2_close(y.d)); delete recycled; recycled = NULL; }
    }
    else if(recycle)
    {
        recycled = new Ctx(); recycled->chips = x.chips; recycled->emu = x.emu; recycled->rate = x.rate;
        if(!open_instance(c, *recycled, mode == "c05")) { delete recycled; recycled = NULL; return; }
        run_history(c, *recycled, ops, mode);
        if(g_w.violations_in_case) { API("opn2_close", opn2_close(recycled->d)); delete recycled; recycled = NULL; }
    }
    else
    {
        if(!open_instance(c, x, mode != "c04")) return;
        if(arp) { x.arpeggio = true; opn2_setAutoArpeggio(x.d, 1); }
        run_history(c, x, ops, mode);
        API("opn2_close", opn2_close(x.d));
    }
    std::string s;
    for(size_t i = 0; i < ops.size() && i < 12; i++) s += op_str(ops[i]) + " ";
    c.sig = mode + s;
    c.sample(std::string("{\"mode\":") + jstr(mode) + ",\"chips\":" + vfmt("%d", x.chips) + ",\"ops\":" + vfmt("%zu", ops.size()) + ",\"history_head\":" + jstr(s) + "}");
}
