// C09 — loop points: the marked section repeats exactly as often as requested.
// Generated songs with 0..2 loop markers (text markers in any case, CC111 alone, CC110/CC111 pair; valid and invalid
// placements) x loop enabled/disabled x counts -1,0..4 x hooks registered before/after loading (and across reset /
// emulator switch / second load). Reference: Appendix A.3 of DESIGN.md.
#include "vseq.hpp"
#include "vconv.hpp"

static const char *harness_name() { return "c09_loops"; }
static void harness_init() { default_bank(); }

struct LoopPlan
{
    int kind;                 // 0 none, 1 start only, 2 end only, 3 both, 4 CC111 only, 5 CC110+CC111, 6 invalid: end<=start, 7 invalid: duplicate, 8 invalid: both in one row
    bool valid;               // markers form a valid loop
    uint64_t L, E;            // reference loop section in ticks [L, E)
    bool has_start, has_end;
    std::string desc;
};

static SEv marker_event(Rng &r, bool start, int style, int ch)
{
    // style 0: text marker (random case), 1: CC111 (start) / CC110+CC111 handled by caller
    if(style == 0)
    {
        static const char *s1[] = {"loopStart", "LOOPSTART", "loopstart", "LoopStart"}, *s2[] = {"loopEnd", "LOOPEND", "loopend", "LoopEnd"};
        return mk_meta_text(0, 0x06, start ? s1[r.below(4)] : s2[r.below(4)]);
    }
    return mk_chan(0, (uint8_t)(0xB0 | ch), start ? (style == 2 ? 110 : 111) : 111, 0);
}

// insert `e` at `tick` into track `t` keeping file order stable (after existing events of that tick)
static void insert_at(Song &s, int t, uint64_t tick, SEv e)
{
    std::vector<SEv> &ev = s.tracks[(size_t)t].ev;
    e.tick = tick; e.serial = 9000 + (int)ev.size();
    size_t pos = 0; while(pos < ev.size() && ev[pos].tick <= tick && !ev[pos].is_eot()) pos++;
    // keep End-of-Track last
    if(pos == ev.size()) { pos = ev.size() - 1; if(ev[pos].tick < tick) ev[pos].tick = tick; }
    ev.insert(ev.begin() + (long)pos, e);
}

// ticks that carry no event of track t (so a marker stands alone in its row)
static uint64_t free_tick(Rng &r, const Song &s, int t, uint64_t lo, uint64_t hi)
{
    std::set<uint64_t> used; for(size_t i = 0; i < s.tracks[(size_t)t].ev.size(); i++) used.insert(s.tracks[(size_t)t].ev[i].tick);
    for(int attempt = 0; attempt < 200; attempt++) { uint64_t k = lo + (hi > lo ? r.next() % (hi - lo + 1) : 0); if(!used.count(k)) return k; }
    return hi + 1;
}

struct LoopUD { Capture *cap; int which; long wrong; };
static void c09_on_start(void *ud) { LoopUD *u = (LoopUD *)ud; if(u->which != 1) u->wrong++; Capture::on_loop_start(u->cap); }
static void c09_on_end(void *ud) { LoopUD *u = (LoopUD *)ud; if(u->which != 2) u->wrong++; Capture::on_loop_end(u->cap); }

// ------------------------------------------------------------------------------------------
// stage xmi: the song of a multi-song XMI file has no loop markers, so the whole song is the loop body. Whichever way it became the
// current song (chosen before the load, or with opn2_selectSongNum afterwards), with looping enabled and count N its events are
// delivered N times in total, then the end of the song is reported; callbacks once per pass.
// ------------------------------------------------------------------------------------------
static void stage_xmi(Case &c)
{
    Rng &r = c.rng;
    XmiFile x = gen_xmi(r, r.range(1, 3), 14);
    const int nsongs = (int)x.songs.size();
    const bool loop_en = r.chance(0.8);
    const int count_api = r.pick((const int[]){-1, 0, 1, 2, 3, 4, 2, 3});
    const long passes = !loop_en ? 1 : (count_api < 0 ? -1 : std::max(count_api, 1));
    const int presel = r.chance(0.5) ? -1 : (int)r.below((uint32_t)nsongs);
    const int later = r.chance(0.65) ? (int)r.below((uint32_t)nsongs) : -1;
    const int how = (int)r.below(3);       // selection right after the load / after part of the first song / after its end (finite counts)
    OPN2_MIDIPlayer *d = NULL;
    API("opn2_init", d = opn2_init(8000));
    if(!d) { c.violation("oracle:init-failed", "opn2_init returned NULL"); return; }
    int rc = 0;
    API("opn2_setNumChips", rc = opn2_setNumChips(d, 2));
    API("opn2_switchEmulator", rc = opn2_switchEmulator(d, OPNMIDI_EMU_GENS));
    { ExactBuf bk(default_bank()); API("opn2_openBankData", rc = opn2_openBankData(d, bk.p, (long)bk.n)); }
    Capture cap; cap.attach(d);
    LoopUD ud_start = {&cap, 1, 0}, ud_end = {&cap, 2, 0};
    API("opn2_setLoopEnabled", opn2_setLoopEnabled(d, loop_en ? 1 : 0));
    API("opn2_setLoopCount", opn2_setLoopCount(d, count_api));
    API("opn2_setLoopStartHook", opn2_setLoopStartHook(d, &c09_on_start, &ud_start)); API("opn2_setLoopEndHook", opn2_setLoopEndHook(d, &c09_on_end, &ud_end));
    if(presel >= 0) API("opn2_selectSongNum", opn2_selectSongNum(d, presel));
    { ExactBuf in(x.bytes); API("opn2_openData", rc = opn2_openData(d, in.p, (unsigned long)in.n)); }
    std::string ctx = vfmt("XMI %zu bytes, %d songs, chosen before the load %d, opn2_selectSongNum afterwards %d (%s); loop %s count %d", x.bytes.size(), nsongs, presel, later,
                           how == 0 ? "at once" : how == 1 ? "after part of the first song" : "after the end of the first song", loop_en ? "on" : "off", count_api);
    if(rc != 0) { c.violation("oracle:C09:wellformed-file-rejected", vfmt("generated XMI rejected: %s; %s", opn2_errorInfo(d), ctx.c_str())); API("opn2_close", opn2_close(d)); return; }
    int sel = presel >= 0 ? presel : 0;
    if(later >= 0)
    {
        if(how)
        {
            double len0 = 0; API("opn2_totalTimeLength", len0 = opn2_totalTimeLength(d));
            const bool whole = how == 2 && passes >= 0;
            double limit = whole ? 1e18 : r.unit() * len0 * (double)(passes < 0 ? 2 : passes), dly = 0, acc = 0; long g2 = 0;
            while(g2++ < 200000 && acc <= limit && cap.ev.size() < 20000)
            {
                double nd = 0; API("opn2_tickEvents", nd = opn2_tickEvents(d, dly, 1e-6)); acc += dly; dly = nd;
                int e0 = 0; API("opn2_atEnd", e0 = opn2_atEnd(d)); if(e0) break;
            }
        }
        API("opn2_selectSongNum", opn2_selectSongNum(d, later)); sel = later;
        count("xmi_songs_selected_after_the_load");
    }
    cap.clear();
    const XmiSong &s = x.songs[(size_t)sel];
    uint64_t last_tick = 0; for(size_t i = 0; i < s.expect.size(); i++) last_tick = std::max(last_tick, s.expect[i].tick);
    // judged on the note-ons: the converter adds controllers of its own (volume at a channel's first use), never notes
    size_t n_inner = 0, n_last = 0; for(size_t i = 0; i < s.expect.size(); i++) if((s.expect[i].status >> 4) == 9 && s.expect[i].d1 > 0) { if(s.expect[i].tick < last_tick) n_inner++; else n_last++; }
    const size_t n_all = n_inner + n_last;
    if(n_inner < 2) { c.inconclusive = true; count("inconclusive_song_too_short"); API("opn2_close", opn2_close(d)); return; }
    const long watch = passes < 0 ? 6 : passes;
    const size_t max_events = (size_t)((watch + 2) * (long)(s.expect.size() + 40) + 400);
    double delay = 0; long guard = 0; bool ended = false; size_t chan_events = 0, seen = 0;
    while(guard++ < 400000)
    {
        double nd = 0; API("opn2_tickEvents", nd = opn2_tickEvents(d, delay, 1e-6));
        for(; seen < cap.ev.size(); seen++) if(cap.ev[seen].type == 0x9) chan_events++;
        int end = 0; API("opn2_atEnd", end = opn2_atEnd(d));
        if(end) { ended = true; break; }
        if(passes < 0 && chan_events >= 7 * n_all) break;
        if(cap.ev.size() > max_events) break;
        delay = nd;
    }
    // note-ons delivered: every one in front of the last tick once per pass, those of the last tick (= loop end) 1..N times
    const size_t lo = (size_t)watch * n_inner + (n_last ? n_last : 0);
    if(passes >= 0)
    {
        if(!ended) c.violation("oracle:C09:song-does-not-end:xmi", vfmt("no end of song after %zu note-ons (%ld passes of %zu note-ons demanded); %s", chan_events, passes, n_all, ctx.c_str()));
        else
        {
            if(chan_events < lo || chan_events > (size_t)passes * n_all)
                c.violation(chan_events < lo ? "oracle:C09:event-delivered-too-few-times:xmi" : "oracle:C09:event-delivered-too-many-times:xmi",
                            vfmt("%zu note-ons delivered, %ld passes of %zu note-ons (%zu at the last tick) demanded; %s", chan_events, passes, n_all, n_last, ctx.c_str()));
            if(cap.loop_end_cb != passes) c.violation("oracle:C09:loop-end-callback-count:xmi", vfmt("loop-end callback fired %ld times, %ld arrivals at the song end; %s", cap.loop_end_cb, passes, ctx.c_str()));
            if(cap.loop_start_cb != passes) c.violation("oracle:C09:loop-start-callback-count:xmi", vfmt("loop-start callback fired %ld times, %ld passes through the song begin; %s", cap.loop_start_cb, passes, ctx.c_str()));
        }
    }
    else if(ended) c.violation("oracle:C09:endless-loop-ended:xmi", vfmt("end of song reported after %zu note-ons with count -1; %s", chan_events, ctx.c_str()));
    if(ud_start.wrong || ud_end.wrong) c.violation("oracle:C09:callback-user-data-mixed-up", ctx);
    count("xmi_events_delivered", (long long)chan_events);
    API("opn2_close", opn2_close(d));
    c.nontrivial = true;
    cover(vfmt("xmi|songs%d|pre%d|later%d|how%d|loop%d|count%d", nsongs, presel >= 0, later >= 0, later >= 0 ? how : 0, loop_en, count_api));
    c.sample(std::string("{\"stage\":\"xmi\",\"context\":") + jstr(ctx) + vfmt(",\"channel_events\":%zu,\"ended\":%d}", chan_events, (int)ended));
}

static void run_case(Case &c)
{
    if(g_w.stage == "xmi") { stage_xmi(c); return; }
    Rng &r = c.rng;
    SongOpts so; so.max_tracks = 4; so.max_events = 30; so.tempo_changes = r.chance(0.5); so.lone_eot = true; so.force_division = r.chance(0.5) ? 96 : 0; so.allow_cc_special = false;
    Song song = gen_song(r, so);
    int nt = (int)song.tracks.size();
    uint64_t song_ticks = 0;
    for(int t = 0; t < nt; t++) song_ticks = std::max(song_ticks, song.tracks[(size_t)t].ev.back().tick);
    if(song_ticks < 8) { c.inconclusive = true; count("inconclusive_song_too_short"); return; }

    LoopPlan lp; lp.kind = (int)r.below(9); lp.valid = false; lp.L = 0; lp.E = song_ticks; lp.has_start = lp.has_end = false;
    int ts = (int)r.below((uint32_t)nt), te = (int)r.below((uint32_t)nt);
    if(lp.kind == 5) te = ts;      // CC110/CC111 pair lives in one track
    uint64_t a = free_tick(r, song, ts, 1, song_ticks / 2), b = free_tick(r, song, te, song_ticks / 2 + 1, song_ticks - 1);
    if(lp.kind == 6) { a = free_tick(r, song, te, 1, song_ticks / 2); b = free_tick(r, song, ts, song_ticks / 2 + 1, song_ticks - 1); }   // swapped roles below
    if(a > song_ticks / 2 || b > song_ticks - 1 || b <= a) { c.inconclusive = true; count("inconclusive_no_free_tick"); return; }
    int style = (int)r.below(2);   // text or controller start
    switch(lp.kind)
    {
    case 0: lp.desc = "no markers"; break;
    case 1: insert_at(song, ts, a, marker_event(r, true, 0, ts)); lp.valid = true; lp.L = a; lp.has_start = true; lp.desc = vfmt("loopStart@%llu trk%d", (unsigned long long)a, ts); break;
    case 2: insert_at(song, te, b, marker_event(r, false, 0, te)); lp.valid = false; lp.has_end = true; lp.desc = vfmt("loopEnd only@%llu trk%d", (unsigned long long)b, te); break;
    case 3: insert_at(song, ts, a, marker_event(r, true, 0, ts)); insert_at(song, te, b, marker_event(r, false, 0, te)); lp.valid = true; lp.L = a; lp.E = b; lp.has_start = lp.has_end = true; lp.desc = vfmt("loopStart@%llu trk%d loopEnd@%llu trk%d", (unsigned long long)a, ts, (unsigned long long)b, te); break;
    case 4: insert_at(song, ts, a, marker_event(r, true, 1, ts)); lp.valid = true; lp.L = a; lp.has_start = true; lp.desc = vfmt("CC111@%llu trk%d", (unsigned long long)a, ts); break;
    case 5: insert_at(song, ts, a, marker_event(r, true, 2, ts)); insert_at(song, ts, b, marker_event(r, false, 2, ts)); lp.valid = true; lp.L = a; lp.E = b; lp.has_start = lp.has_end = true; lp.desc = vfmt("CC110@%llu CC111@%llu trk%d", (unsigned long long)a, (unsigned long long)b, ts); break;
    case 6: insert_at(song, ts, b, marker_event(r, true, 0, ts)); insert_at(song, te, a, marker_event(r, false, 0, te)); lp.desc = "invalid: loopEnd before loopStart"; lp.has_start = lp.has_end = true; break;
    case 7: { bool dupstart = r.chance(0.5); insert_at(song, ts, a, marker_event(r, true, 0, ts)); insert_at(song, te, b, marker_event(r, false, 0, te));
              uint64_t x = free_tick(r, song, dupstart ? ts : te, 1, song_ticks - 1); if(x > song_ticks - 1) { c.inconclusive = true; return; }
              insert_at(song, dupstart ? ts : te, x, marker_event(r, dupstart, 0, ts)); lp.desc = dupstart ? "invalid: two loopStart" : "invalid: two loopEnd"; lp.has_start = lp.has_end = true; break; }
    default: insert_at(song, ts, a, marker_event(r, true, 0, ts)); insert_at(song, ts, a, marker_event(r, false, 0, ts)); lp.desc = "invalid: loopStart and loopEnd in one row"; lp.has_start = lp.has_end = true; break;
    }
    (void)style;
    // kind 2: "loopEnd only" — the statement: loop start = beginning of the song when absent => valid loop [0, E)
    if(lp.kind == 2) { lp.valid = true; lp.L = 0; lp.E = b; }
    if(!lp.valid) { lp.L = 0; lp.E = song_ticks; }

    std::vector<uint8_t> file = serialize_song(song);
    TempoMap tm; tm.build(song);
    if(getenv("VERIF_SONG_DUMP")) for(int t = 0; t < nt; t++) for(size_t i = 0; i < song.tracks[(size_t)t].ev.size(); i++) { const SEv &e = song.tracks[(size_t)t].ev[i]; fprintf(stderr, "[song] trk %d tick %llu st %02x meta %02x data %s\n", t, (unsigned long long)e.tick, e.status, e.meta, hexs(e.data, 10).c_str()); }
    // configuration
    bool loop_en = r.chance(0.75);
    int count_api = r.pick((const int[]){-1, 0, 1, 2, 3, 4, 2, 3});
    int hook_when = (int)r.below(4);        // 0: before load, 1: after load, 2: before load + reset after load, 3: before load + emulator switch + second load of the same file
    long passes = !loop_en ? 1 : (count_api < 0 ? -1 : std::max(count_api, 1));
    long rate = 8000;
    std::string ctx = vfmt("%s; loop %s count %d; hooks %s; %d tracks division %d song %llu ticks", lp.desc.c_str(), loop_en ? "on" : "off", count_api,
                           hook_when == 0 ? "before-load" : hook_when == 1 ? "after-load" : hook_when == 2 ? "before-load+reset" : "before-load+switch+reload", nt, song.division, (unsigned long long)song_ticks);

    OPN2_MIDIPlayer *d = NULL;
    API("opn2_init", d = opn2_init(rate));
    if(!d) { c.violation("oracle:init-failed", "opn2_init returned NULL"); return; }
    int rc = 0;
    API("opn2_setNumChips", rc = opn2_setNumChips(d, 2));
    API("opn2_switchEmulator", rc = opn2_switchEmulator(d, OPNMIDI_EMU_GENS));
    { ExactBuf bk(default_bank()); API("opn2_openBankData", rc = opn2_openBankData(d, bk.p, (long)bk.n)); }
    Capture cap; cap.attach(d);
    LoopUD ud_start = {&cap, 1, 0}, ud_end = {&cap, 2, 0};     // each callback has its own user data object
    API("opn2_setLoopEnabled", opn2_setLoopEnabled(d, loop_en ? 1 : 0));
    // the count in force for the measured playback is set before the load, or only after it (another count was in force at load time),
    // or only after part of the song has been played with that other count
    const int late_count = r.chance(0.35) ? 1 + (int)r.below(2) : 0;
    int decoy_count = 0;
    if(late_count) { static const int dc[] = {1, 2, 3, 4, -1, 0}; do decoy_count = (int)r.pick(dc); while(decoy_count == count_api); }
    API("opn2_setLoopCount", opn2_setLoopCount(d, late_count ? decoy_count : count_api));
    if(late_count) ctx += vfmt("; loop count %d at load time, %d set %s", decoy_count, count_api, late_count == 1 ? "after the load" : "before the restart");
    if(hook_when != 1) { API("opn2_setLoopStartHook", opn2_setLoopStartHook(d, &c09_on_start, &ud_start)); API("opn2_setLoopEndHook", opn2_setLoopEndHook(d, &c09_on_end, &ud_end)); }
    { ExactBuf in(file); API("opn2_openData", rc = opn2_openData(d, in.p, (unsigned long)in.n)); }
    if(rc != 0) { c.violation("oracle:C09:wellformed-file-rejected", vfmt("generated SMF rejected: %s; %s", opn2_errorInfo(d), ctx.c_str())); opn2_close(d); return; }
    if(hook_when == 1) { API("opn2_setLoopStartHook", opn2_setLoopStartHook(d, &c09_on_start, &ud_start)); API("opn2_setLoopEndHook", opn2_setLoopEndHook(d, &c09_on_end, &ud_end)); }
    if(hook_when == 2) { API("opn2_reset", opn2_reset(d)); }
    if(hook_when == 3)
    {
        API("opn2_switchEmulator", rc = opn2_switchEmulator(d, OPNMIDI_EMU_MAME));
        ExactBuf in(file); API("opn2_openData", rc = opn2_openData(d, in.p, (unsigned long)in.n));
        if(rc != 0) { c.violation("oracle:C09:wellformed-file-rejected", vfmt("second load rejected: %s", opn2_errorInfo(d))); opn2_close(d); return; }
    }
    cap.clear();
    if(late_count == 1) { API("opn2_setLoopCount", opn2_setLoopCount(d, count_api)); count("loop_count_set_after_the_load"); }

    // optional pre-history on the same instance: play the song (to its end, or part of it incl. jumps), then rewind or seek to 0;
    // the measured playback below must then behave like the first one (passes left, callbacks, loop start)
    {
        int prehist = (int)r.below(5);
        if(late_count == 2 && prehist == 0) { API("opn2_setLoopCount", opn2_setLoopCount(d, count_api)); count("loop_count_set_after_the_load"); }
        if(prehist == 4)
        {   // a seek into the tail of the song (behind the last event, inside the reported length), then rewind
            double len0 = 0; API("opn2_totalTimeLength", len0 = opn2_totalTimeLength(d));
            double tgt = len0 - 0.05 - r.unit() * 0.9; if(tgt < 0) tgt = 0;
            API("opn2_positionSeek", opn2_positionSeek(d, tgt));
            if(late_count == 2) { API("opn2_setLoopCount", opn2_setLoopCount(d, count_api)); count("loop_count_set_before_the_restart"); }
            API("opn2_positionRewind", opn2_positionRewind(d));
            ctx += vfmt("; pre-history: seek to %.3f of %.3f s (tail) then rewind", tgt, len0);
            count("prehistory_tail_seek_then_rewind");
            cap.clear();
        }
        else if(prehist)
        {
            double len0 = 0; API("opn2_totalTimeLength", len0 = opn2_totalTimeLength(d));
            bool whole = (prehist == 1 && passes >= 0);
            double limit = whole ? 1e18 : r.unit() * len0 * (double)(passes < 0 ? 2 : passes);
            double dly = 0, acc = 0; long g2 = 0; bool end0 = false;
            while(g2++ < 200000 && acc <= limit && cap.ev.size() < 60000)
            {
                double nd = 0; API("opn2_tickEvents", nd = opn2_tickEvents(d, dly, 1e-6));
                acc += dly; dly = nd;
                int e0 = 0; API("opn2_atEnd", e0 = opn2_atEnd(d)); if(e0) { end0 = true; break; }
            }
            if(late_count == 2) { API("opn2_setLoopCount", opn2_setLoopCount(d, count_api)); count("loop_count_set_before_the_restart"); }
            if(prehist == 3) API("opn2_positionSeek", opn2_positionSeek(d, 0.0)); else API("opn2_positionRewind", opn2_positionRewind(d));
            ctx += vfmt("; pre-history: %s then %s", whole ? (end0 ? "played to the end" : "played (no end reached)") : vfmt("played %.3f s", acc).c_str(), prehist == 3 ? "seek(0)" : "rewind");
            count(prehist == 3 ? "prehistory_then_seek0" : "prehistory_then_rewind");
            cap.clear();
        }
    }

    // reported loop times
    double ls = 0, le = 0; API("opn2_loopStartTime", ls = opn2_loopStartTime(d)); API("opn2_loopEndTime", le = opn2_loopEndTime(d));
    {
        bool explicit_valid = lp.valid && (lp.has_start || lp.has_end) && lp.kind != 6 && lp.kind != 7 && lp.kind != 8;
        double ref_ls = explicit_valid && lp.has_start ? (double)tm.seconds(lp.L) : -1.0;
        double ref_le = explicit_valid && lp.has_end ? (double)tm.seconds(lp.E) : -1.0;
        // three-valued where a marker is absent: -1 or the implied point (0 / song end)
        bool ls_ok = fabs(ls - ref_ls) < 1e-6 || (!lp.has_start && explicit_valid && fabs(ls - 0.0) < 1e-9) || (!explicit_valid && ls < 0);
        bool le_ok = fabs(le - ref_le) < 1e-6 || (!lp.has_end && explicit_valid && le >= 0) || (!explicit_valid && le < 0);
        // does another track end with a lone End-of-Track exactly at that tick? (its row time is the time of the row before: trailing silence skipped)
        auto lone_eot_at = [&](uint64_t tick) { for(int t = 0; t < nt; t++) { const std::vector<SEv> &ev = song.tracks[(size_t)t].ev; if(ev.back().is_eot() && ev.back().tick == tick && (ev.size() < 2 || ev[ev.size() - 2].tick != tick)) return true; } return false; };
        if(explicit_valid && !ls_ok) c.violation(std::string("oracle:C09:loop-start-time") + (lone_eot_at(lp.L) ? ":tick-shared-with-lone-end-of-track" : ""), vfmt("opn2_loopStartTime %.9f, reference %.9f; %s", ls, ref_ls, ctx.c_str()));
        if(explicit_valid && !le_ok) c.violation(std::string("oracle:C09:loop-end-time") + (lone_eot_at(lp.E) ? ":tick-shared-with-lone-end-of-track" : ""), vfmt("opn2_loopEndTime %.9f, reference %.9f; %s", le, ref_le, ctx.c_str()));
        if(!explicit_valid && (lp.kind >= 6) && (ls >= 0 || le >= 0)) c.violation("oracle:C09:loop-times-for-invalid-loop", vfmt("invalid loop points but loop times %.6f / %.6f reported; %s", ls, le, ctx.c_str()));
    }

    // a jump back is recognised by the song time going backwards: that needs an event strictly inside the section
    {
        bool inside = false;
        for(int t = 0; t < nt; t++) for(size_t i = 0; i < song.tracks[(size_t)t].ev.size(); i++) { const SEv &e = song.tracks[(size_t)t].ev[i]; if(!e.is_eot() && e.tick > lp.L && e.tick < lp.E && tm.seconds(e.tick) > tm.seconds(lp.L)) inside = true; }
        if(!inside && loop_en) { c.inconclusive = true; count("inconclusive_empty_loop_section"); API("opn2_close", opn2_close(d)); return; }
    }
    // passes are counted on a probe: an event strictly inside the section whose hook form is unique in the file
    std::string probe;
    {
        std::map<std::string, int> occurrences;
        for(int t = 0; t < nt; t++) for(size_t i = 0; i < song.tracks[(size_t)t].ev.size(); i++) { const SEv &e = song.tracks[(size_t)t].ev[i]; if(!e.is_eot()) occurrences[expected_of(e, t).e.str()]++; }
        for(int t = 0; t < nt && probe.empty(); t++) for(size_t i = 0; i < song.tracks[(size_t)t].ev.size() && probe.empty(); i++)
        { const SEv &e = song.tracks[(size_t)t].ev[i]; if(!e.is_eot() && e.serial < 9000 && e.tick > lp.L && e.tick < lp.E && occurrences[expected_of(e, t).e.str()] == 1) probe = expected_of(e, t).e.str(); }
        if(probe.empty() && loop_en) { c.inconclusive = true; count("inconclusive_no_unique_probe_event"); API("opn2_close", opn2_close(d)); return; }
    }
    long probe_seen = 0;
    // play: tick-driven; for endless loops watch 6 passes
    long watch_passes = passes < 0 ? 6 : passes;
    double delay = 0; long guard = 0; bool ended = false;
    size_t key_down_after_jump = 0; int jumps_seen = 0;
    size_t last_n = 0; double last_song_t = -1;
    uint64_t body_events_per_pass = 0;
    for(int t = 0; t < nt; t++) for(size_t i = 0; i < song.tracks[(size_t)t].ev.size(); i++) { const SEv &e = song.tracks[(size_t)t].ev[i]; if(e.tick >= lp.L && e.tick < lp.E) body_events_per_pass++; }
    size_t max_events = (size_t)((watch_passes + 2) * 400 + 2000);
    while(guard++ < 400000)
    {
        cap.acc_t += delay; cap.call++;
        double nd = 0; API("opn2_tickEvents", nd = opn2_tickEvents(d, delay, 1e-6));
        // jump detection: song time went backwards since the previous delivered event
        for(size_t i = last_n; i < cap.ev.size(); i++)
        {
            if(cap.ev[i].song_t < last_song_t)
            {
                jumps_seen++;
                // after the jump (we are between calls): no key-down active note may have survived it
                OPNMIDIplay *p = P(d);
                for(size_t ch = 0; ch < 16 && ch < p->m_midiChannels.size(); ch++)
                    for(OPNMIDIplay::MIDIchannel::notes_iterator it = p->m_midiChannels[ch].activenotes.begin(); !it.is_end(); ++it)
                        if(!it->value.isBlank) { bool started_after = false; for(size_t j = i; j < cap.ev.size(); j++) if(cap.ev[j].type == 9 && cap.ev[j].channel == ch && (cap.ev[j].data[0] & 127) == it->value.note) started_after = true; if(!started_after) key_down_after_jump++; }
            }
            last_song_t = cap.ev[i].song_t;
            if(!probe.empty() && cap.ev[i].str() == probe) probe_seen++;
        }
        last_n = cap.ev.size();
        int end = 0; API("opn2_atEnd", end = opn2_atEnd(d));
        if(end) { ended = true; break; }
        if(passes < 0 && probe_seen >= 7) break;
        if(cap.ev.size() > max_events) break;
        delay = nd;
    }
    if(key_down_after_jump) c.violation("oracle:C09:note-survives-loop-jump", vfmt("%zu key-down active notes survived a jump back (no All-Notes-Off effect); %s", key_down_after_jump, ctx.c_str()));

    // count deliveries per file event (by identity: track attribution + payload + per-track order)
    // expected: tick < L: once; L <= tick < E: passes; tick == E: 1..passes (three-valued); tick > E: once
    std::map<std::string, long> delivered;
    for(size_t i = 0; i < cap.ev.size(); i++) { const DEv &e = cap.ev[i]; if(is_song_begin_marker(e)) continue; if(e.type == 0xFF && (e.subtype == 0x2F)) continue; delivered[e.str()]++; }
    std::map<std::string, std::pair<long, long> > expect;   // min,max deliveries
    long npass = passes < 0 ? probe_seen : passes;
    for(int t = 0; t < nt; t++) for(size_t i = 0; i < song.tracks[(size_t)t].ev.size(); i++)
    {
        const SEv &se = song.tracks[(size_t)t].ev[i];
        if(se.is_eot()) continue;
        XE x = expected_of(se, t);
        if(se.serial >= 9000 && se.is_chan() && (se.status & 0xF0) == 0xB0 && (se.data[0] == 110 || se.data[0] == 111))
        {   // controller-style loop markers reach the hook as loop start (E1) / loop end (E2) events
            bool is_end = (lp.kind == 5 && se.data[0] == 111);
            x.e.type = 0xFF; x.e.subtype = is_end ? 0xE2 : 0xE1; x.e.data.clear();
        }
        long lo, hi;
        if(passes < 0) { if(se.tick < lp.L) { lo = hi = 1; } else if(se.tick < lp.E) { lo = npass - 1; hi = npass + 1; } else { lo = 0; hi = npass + 1; } }   // observation stops inside a pass
        else if(se.tick < lp.L || se.tick > lp.E) { lo = hi = 1; }
        else if(se.tick < lp.E) { lo = hi = npass; }
        else { lo = 1; hi = npass; }
        // the loop markers themselves: controller-style markers are consumed, text markers are delivered as E1/E2 events; count them like body/edge events
        std::pair<long, long> &p = expect[x.e.str()];
        p.first += lo; p.second += hi;
    }
    if(ended || passes < 0)
    {
        for(std::map<std::string, std::pair<long, long> >::iterator it = expect.begin(); it != expect.end() && g_w.violations_in_case < 3; ++it)
        {
            long got = delivered.count(it->first) ? delivered[it->first] : 0;
            if(got < it->second.first) c.violation(std::string("oracle:C09:event-delivered-too-few-times:") + (loop_en ? (lp.valid && lp.kind != 0 ? "marked-loop" : "whole-song-loop") : "loop-disabled"), vfmt("%s delivered %ld time(s), expected %ld..%ld; %s", it->first.c_str(), got, it->second.first, it->second.second, ctx.c_str()));
            else if(got > it->second.second) c.violation(std::string("oracle:C09:event-delivered-too-many-times:") + (loop_en ? (lp.valid && lp.kind != 0 ? "marked-loop" : "whole-song-loop") : "loop-disabled"), vfmt("%s delivered %ld time(s), expected %ld..%ld; %s", it->first.c_str(), got, it->second.first, it->second.second, ctx.c_str()));
        }
        for(std::map<std::string, long>::iterator it = delivered.begin(); it != delivered.end() && g_w.violations_in_case < 3; ++it)
            if(!expect.count(it->first)) c.violation("oracle:C09:unexpected-event", vfmt("%s delivered %ld time(s) but is not in the file; %s", it->first.c_str(), it->second, ctx.c_str()));
    }
    if(passes >= 0 && !ended) c.violation("oracle:C09:song-does-not-end", vfmt("no end of song after %zu delivered events (expected %ld passes of %llu body events); %s", cap.ev.size(), passes, (unsigned long long)body_events_per_pass, ctx.c_str()));
    if(passes < 0 && ended) c.violation("oracle:C09:endless-loop-ended", vfmt("count -1 but the song ended after %ld passes; %s", probe_seen, ctx.c_str()));
    if(passes >= 0 && ended && loop_en && probe_seen != passes) c.violation("oracle:C09:pass-count", vfmt("%ld passes through the section observed (probe %s), expected %ld; %s", probe_seen, probe.c_str(), passes, ctx.c_str()));

    // callbacks
    if(loop_en && passes >= 0 && ended)
    {
        long exp_start = passes;
        long exp_end = (lp.E < song_ticks) ? passes + 1 : passes;
        if(cap.loop_start_cb != exp_start) c.violation(std::string("oracle:C09:loop-start-callback-count:") + (lp.L > 0 ? "marked-start" : "start-at-song-begin") + ":hooks-" + (hook_when == 0 ? "before-load" : hook_when == 1 ? "after-load" : hook_when == 2 ? "before-load+reset" : "before-load+switch+reload"),
                                                     vfmt("loop-start callback fired %ld time(s), expected %ld (one per pass through the loop start); %s", cap.loop_start_cb, exp_start, ctx.c_str()));
        if(cap.loop_end_cb != exp_end) c.violation(std::string("oracle:C09:loop-end-callback-count:") + (lp.E < song_ticks ? "marked-end" : "end-at-song-end") + ":hooks-" + (hook_when == 0 ? "before-load" : hook_when == 1 ? "after-load" : hook_when == 2 ? "before-load+reset" : "before-load+switch+reload"),
                                                 vfmt("loop-end callback fired %ld time(s), expected %ld (one per arrival at the loop end or song end); %s", cap.loop_end_cb, exp_end, ctx.c_str()));
    }
    if(ud_start.wrong || ud_end.wrong)
        c.violation("oracle:C09:loop-callback-user-data", vfmt("a loop callback was called with the other callback's user data (%ld time(s) the start data at the end callback, %ld the end data at the start callback); %s", ud_start.wrong, ud_end.wrong, ctx.c_str()));
    count("events_delivered", (long long)cap.ev.size());
    count("jumps_observed", jumps_seen);
    count("loop_callbacks_observed", cap.loop_start_cb + cap.loop_end_cb);
    API("opn2_close", opn2_close(d));
    c.nontrivial = cap.ev.size() >= 10;
    c.sig = vfmt("k%d|en%d|n%d|h%d", lp.kind, loop_en ? 1 : 0, count_api, hook_when);
    if(c.nontrivial) cover(c.sig);
    c.sample(std::string("{\"context\":") + jstr(ctx) + ",\"jumps\":" + vfmt("%d", jumps_seen) + ",\"loop_start_callbacks\":" + vfmt("%ld", cap.loop_start_cb) + ",\"loop_end_callbacks\":" + vfmt("%ld", cap.loop_end_cb) +
             ",\"events_delivered\":" + vfmt("%zu", cap.ev.size()) + "}");
}
