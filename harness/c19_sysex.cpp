// C19 — only well-formed, correctly addressed SysEx messages take effect.
// An independent validator (written from DESIGN.md Appendix A.8, not from the parser) classifies every byte string as
// VALID (canonical addressing, pinned data), INVALID, or THREE-VALUED (addressing forms / data values the statement does not
// decide). The monitor snapshots the complete observable MIDI state (H2) and the register-write log (H1) around every
// opn2_rt_systemExclusive call:
//   INVALID  => returns 0, snapshot unchanged, no register write inside the call;
//   VALID    => returns 1 and the documented effect is visible (mode, controller reset, pedal-held notes ended, master volume
//               stored and TL of every key-down note rewritten inside the call, drum-part flag), nothing else changes;
//   3V       => either, but self-consistent (accepted => effect of the sibling message; rejected => nothing changed) and the same
//               class of message always gets the same answer.
#include "vlib.hpp"
#include "vsmf.hpp"

static const char *harness_name() { return "c19_sysex"; }
static void harness_init() { default_bank(); }

typedef std::vector<uint8_t> Bytes;

enum Kind { K_GM_ON = 0, K_GM_OFF, K_MVOL, K_GS_RESET, K_GS_MODESET, K_GS_DRUM, K_XG_ON, K_NKINDS, K_NONE = -1 };
static const char *kind_name(int k)
{
    static const char *n[] = {"gm-on", "gm-off", "master-volume", "gs-reset", "gs-mode-set", "gs-drum-part", "xg-on"};
    return (k >= 0 && k < K_NKINDS) ? n[k] : "none";
}
enum Verdict { V_VALID = 0, V_INVALID, V_TV };
static const char *verdict_name(int v) { return v == V_VALID ? "valid" : v == V_INVALID ? "invalid" : "3v"; }
enum { MODE_GM = OPNMIDIplay::Mode_GM, MODE_GS = OPNMIDIplay::Mode_GS, MODE_XG = OPNMIDIplay::Mode_XG };   // as stored in m_synthMode

// ------------------------------------------------------------------------------------------
// Independent validator (Appendix A.8)
// ------------------------------------------------------------------------------------------
struct Judg
{
    int v; int kind; std::string reason;   // INVALID: first failing rule; 3V: the undecided aspects
    int mm;        // master volume value
    int chan;      // drum part: MIDI channel
    int drum;      // drum part: 1 drums, 0 melodic, -1 not pinned
    int mode;      // mode switches: expected mode, -1 = not pinned (GM off)
    Judg(): v(V_INVALID), kind(K_NONE), mm(-1), chan(-1), drum(-1), mode(-1) {}
};

static unsigned roland_sum(const uint8_t *p, size_t n) { unsigned s = 0; for(size_t i = 0; i < n; i++) s += p[i]; return (128 - (s % 128)) % 128; }

// device byte of Roland / Yamaha messages: 0 canonical, 1 undecided (aspect appended), 2 wrong device
static int dev_byte_class(unsigned dv, unsigned id, std::string &aspects)
{
    if(dv == (0x10u | id)) return 0;
    if(dv == 0x7F) { aspects += "+dev-7f"; return 1; }
    if((dv & 0x0F) == id && (dv & 0xF0) != 0x10) { aspects += "+dev-high-nibble"; return 1; }
    return 2;
}

static Judg validate(const Bytes &m, unsigned id)
{
    Judg j;
    const size_t n = m.size();
    if(n < 2 || m[0] != 0xF0 || m[n - 1] != 0xF7) { j.reason = "bad-framing"; return j; }
    for(size_t i = 1; i + 1 < n; i++) if(m[i] >= 0x80) { j.reason = "data-byte-ge-0x80"; return j; }
    if(n < 4) { j.reason = "wrong-length"; return j; }
    std::string asp;
    switch(m[1])
    {
    case 0x7E:
        if(n >= 6 && m[3] == 0x09 && (m[4] == 0x01 || m[4] == 0x02)) j.kind = m[4] == 0x01 ? K_GM_ON : K_GM_OFF;
        if(n < 6) { j.reason = "wrong-length"; return j; }
        if(m[2] != 0x7F && m[2] != id) { j.reason = "wrong-device"; return j; }
        if(m[3] != 0x09 || (m[4] != 0x01 && m[4] != 0x02)) { j.reason = "wrong-address"; return j; }
        if(n > 6) { j.reason = "gm-trailing-bytes"; return j; }
        j.v = V_VALID; j.mode = (j.kind == K_GM_ON) ? MODE_GM : -1;
        return j;
    case 0x7F:
        if(n >= 8 && m[3] == 0x04 && m[4] == 0x01) j.kind = K_MVOL;
        if(n < 8) { j.reason = "wrong-length"; return j; }
        if(m[2] != 0x7F && m[2] != id) { j.reason = "wrong-device"; return j; }
        if(m[3] != 0x04 || m[4] != 0x01) { j.reason = "wrong-address"; return j; }
        if(n > 8) { j.reason = "wrong-length"; return j; }
        j.v = V_VALID; j.mm = m[6];
        return j;
    case 0x41:
    {
        if(n != 11) { j.reason = "wrong-length"; return j; }
        int dc = dev_byte_class(m[2], id, asp);
        if(dc == 2) { j.reason = "wrong-device"; return j; }
        if(m[3] != 0x42) asp += "+model";
        if(m[4] != 0x12) { j.reason = "wrong-command"; return j; }
        const unsigned a1 = m[5], a2 = m[6], a3 = m[7], vv = m[8];
        if(a1 == 0x40 && a2 == 0x00 && a3 == 0x7F) { j.kind = K_GS_RESET; j.mode = MODE_GS; if(vv != 0x00) asp += "+vv"; }
        else if(a1 == 0x00 && a2 == 0x00 && a3 == 0x7F) { j.kind = K_GS_MODESET; j.mode = MODE_GS; if(vv > 0x01) asp += "+vv"; }
        else if(a1 == 0x40 && (a2 & 0xF0) == 0x10 && a3 == 0x15)
        {
            static const int part2chan[16] = {9, 0, 1, 2, 3, 4, 5, 6, 7, 8, 10, 11, 12, 13, 14, 15};
            j.kind = K_GS_DRUM; j.chan = part2chan[a2 & 0x0F];
            if(vv == 0) j.drum = 0; else if(vv == 1 || vv == 2) j.drum = 1; else { j.drum = -1; asp += "+vv"; }
        }
        else { j.reason = "wrong-address"; return j; }
        if(m[9] != roland_sum(&m[5], 4)) { j.reason = "bad-checksum"; return j; }
        break;
    }
    case 0x43:
    {
        if(n != 9) { j.reason = "wrong-length"; return j; }
        int dc = dev_byte_class(m[2], id, asp);
        if(dc == 2) { j.reason = "wrong-device"; return j; }
        if(m[3] != 0x4C) asp += "+model";
        if(m[4] != 0x00 || m[5] != 0x00 || m[6] != 0x7E) { j.reason = "wrong-address"; return j; }
        j.kind = K_XG_ON; j.mode = MODE_XG;
        if(m[7] != 0x00) asp += "+vv";
        break;
    }
    default:
        j.reason = "wrong-manufacturer"; return j;
    }
    if(asp.empty()) j.v = V_VALID; else { j.v = V_TV; j.reason = asp.substr(1); }
    return j;
}

// ------------------------------------------------------------------------------------------
// canonical messages
// ------------------------------------------------------------------------------------------
static Bytes mk_gm(unsigned dd, bool on) { const uint8_t b[] = {0xF0, 0x7E, (uint8_t)dd, 0x09, (uint8_t)(on ? 1 : 2), 0xF7}; return Bytes(b, b + sizeof(b)); }
static Bytes mk_mvol(unsigned dd, unsigned ll, unsigned mm) { const uint8_t b[] = {0xF0, 0x7F, (uint8_t)dd, 0x04, 0x01, (uint8_t)ll, (uint8_t)mm, 0xF7}; return Bytes(b, b + sizeof(b)); }
static Bytes mk_roland(unsigned dv, unsigned a1, unsigned a2, unsigned a3, unsigned vv)
{
    uint8_t b[] = {0xF0, 0x41, (uint8_t)dv, 0x42, 0x12, (uint8_t)a1, (uint8_t)a2, (uint8_t)a3, (uint8_t)vv, 0, 0xF7};
    b[9] = (uint8_t)roland_sum(&b[5], 4);
    return Bytes(b, b + sizeof(b));
}
static Bytes mk_xg(unsigned dv, unsigned vv) { const uint8_t b[] = {0xF0, 0x43, (uint8_t)dv, 0x4C, 0x00, 0x00, 0x7E, (uint8_t)vv, 0xF7}; return Bytes(b, b + sizeof(b)); }

static Bytes mk_valid(Rng &r, int kind, unsigned id)
{
    unsigned dd = r.chance(0.5) ? 0x7F : id, dv = 0x10 | id;
    switch(kind)
    {
    case K_GM_ON: return mk_gm(dd, true);
    case K_GM_OFF: return mk_gm(dd, false);
    case K_MVOL: return mk_mvol(dd, r.below(128), r.chance(0.3) ? (unsigned)r.pick((const int[]){0, 1, 64, 126, 127}) : r.below(128));
    case K_GS_RESET: return mk_roland(dv, 0x40, 0x00, 0x7F, 0x00);
    case K_GS_MODESET: return mk_roland(dv, 0x00, 0x00, 0x7F, r.below(2));
    case K_GS_DRUM: return mk_roland(dv, 0x40, 0x10 | r.below(16), 0x15, r.below(3));
    default: return mk_xg(dv, 0x00);
    }
}

// ------------------------------------------------------------------------------------------
// state snapshot (H2)
// ------------------------------------------------------------------------------------------
template<class T> static void put(std::string &s, const T &v) { s.append((const char *)&v, sizeof(v)); }

struct NoteRef { uint16_t ch; uint8_t note; std::vector<uint16_t> chips; };
struct Snap
{
    uint32_t mode; uint8_t devid; uint8_t mvol;
    std::string ctrl[16];      // every controller-like field
    uint8_t bank[16][3];       // msb, lsb, patch
    bool drum[16];
    std::string notes[16];     // active notes
    std::string users;         // chip-channel user lists
    std::string extra;         // controller-like fields, bank, drum flag and active notes of the channels beyond 16 (multi-port songs)
    size_t nch;                // size of the MIDI channel table
    std::vector<NoteRef> keydown;                    // non-blank active notes with their chip channels
    std::set<std::pair<int, int> > noteset;          // (channel, note) of active notes
    std::set<std::pair<int, int> > userset;          // (channel, note) of chip-channel users
    int held;                                        // users with a sustain flag
    std::string all(bool with_mvol = true, int skip_drum = -1) const
    {
        std::string s; put(s, mode); put(s, devid); if(with_mvol) put(s, mvol);
        for(int i = 0; i < 16; i++) { s += ctrl[i]; s.append((const char *)bank[i], 3); if(i != skip_drum) s += drum[i] ? 'D' : 'm'; s += notes[i]; s += '|'; }
        s += users; s += extra; put(s, nch);
        return s;
    }
};

static void take_snap(OPN2_MIDIPlayer *dev, Snap &S)
{
    OPNMIDIplay *p = P(dev);
    S.mode = p->m_synthMode; S.devid = p->m_sysExDeviceId; S.mvol = p->m_synth->m_masterVolume;
    S.keydown.clear(); S.noteset.clear(); S.userset.clear(); S.held = 0; S.users.clear();
    S.extra.clear(); S.nch = p->m_midiChannels.size();
    std::string xctrl, xnotes;
    for(int i = 0; i < (int)p->m_midiChannels.size(); i++)
    {
        OPNMIDIplay::MIDIchannel &ch = p->m_midiChannels[(size_t)i];
        const bool hi = i >= 16;
        if(hi) { xctrl.clear(); xnotes.clear(); }
        std::string &s = hi ? xctrl : S.ctrl[i]; s.clear();
        put(s, ch.volume); put(s, ch.expression); put(s, ch.panning); put(s, ch.vibrato); put(s, ch.aftertouch); put(s, ch.portamento);
        put(s, ch.sustain); put(s, ch.softPedal); put(s, ch.portamentoEnable); put(s, ch.portamentoSource); put(s, ch.portamentoRate);
        s.append((const char *)ch.noteAftertouch, 128); put(s, ch.noteAfterTouchInUse); put(s, ch.bend); put(s, ch.bendsense);
        put(s, ch.bendsense_lsb); put(s, ch.bendsense_msb); put(s, ch.vibpos); put(s, ch.vibspeed); put(s, ch.vibdepth); put(s, ch.vibdelay_us);
        put(s, ch.lastlrpn); put(s, ch.lastmrpn); put(s, ch.nrpn); put(s, ch.brightness);
        if(!hi) { S.bank[i][0] = ch.bank_msb; S.bank[i][1] = ch.bank_lsb; S.bank[i][2] = ch.patch; S.drum[i] = ch.is_xg_percussion; }
        else { put(s, ch.bank_msb); put(s, ch.bank_lsb); put(s, ch.patch); put(s, ch.is_xg_percussion); }
        std::string &n = hi ? xnotes : S.notes[i]; n.clear();
        put(n, ch.gliding_note_count); put(n, ch.extended_note_count);
        for(OPNMIDIplay::MIDIchannel::notes_iterator it = ch.activenotes.begin(); !it.is_end(); ++it)
        {
            OPNMIDIplay::MIDIchannel::NoteInfo &ni = it->value;
            put(n, ni.note); put(n, ni.vol); put(n, ni.vibrato); put(n, ni.noteTone); put(n, ni.currentTone); put(n, ni.glideRate);
            put(n, ni.midiins); put(n, ni.isPercussion); put(n, ni.isBlank); put(n, ni.isOnExtendedLifeTime); put(n, ni.ttl);
            put(n, ni.ains); put(n, ni.chip_channels_count);
            NoteRef nr; nr.ch = (uint16_t)i; nr.note = ni.note;
            for(unsigned k = 0; k < ni.chip_channels_count; k++) { put(n, ni.chip_channels[k].chip_chan); nr.chips.push_back(ni.chip_channels[k].chip_chan); }
            S.noteset.insert(std::make_pair(i, (int)ni.note));
            if(!ni.isBlank && !nr.chips.empty()) S.keydown.push_back(nr);
        }
        if(hi) { S.extra += xctrl; S.extra += xnotes; S.extra += '|'; }
    }
    std::vector<OPNMIDIplay::OpnChannel> &cc = VA::chipChannels(p);
    for(size_t c = 0; c < cc.size(); c++)
    {
        put(S.users, cc[c].koff_time_until_neglible_us);
        for(OPNMIDIplay::OpnChannel::users_iterator it = cc[c].users.begin(); !it.is_end(); ++it)
        {
            OPNMIDIplay::OpnChannel::LocationData &d = it->value;
            put(S.users, d.loc.MidCh); put(S.users, d.loc.note); put(S.users, d.sustained); put(S.users, d.fixed_sustain);
            put(S.users, d.kon_time_until_neglible_us); put(S.users, d.vibdelay_us);
            S.userset.insert(std::make_pair((int)d.loc.MidCh, (int)d.loc.note));
            if(d.sustained != 0) S.held++;
        }
        S.users += ';';
    }
}

static std::string diff_desc(const Snap &a, const Snap &b)
{
    std::string d;
    if(a.mode != b.mode) d += vfmt(" mode %u->%u", a.mode, b.mode);
    if(a.devid != b.devid) d += vfmt(" devid %u->%u", a.devid, b.devid);
    if(a.mvol != b.mvol) d += vfmt(" master %u->%u", a.mvol, b.mvol);
    for(int i = 0; i < 16; i++)
    {
        if(a.ctrl[i] != b.ctrl[i]) d += vfmt(" ctrl[ch%d]", i);
        if(memcmp(a.bank[i], b.bank[i], 3)) d += vfmt(" bank/patch[ch%d]", i);
        if(a.drum[i] != b.drum[i]) d += vfmt(" drumflag[ch%d] %d->%d", i, a.drum[i], b.drum[i]);
        if(a.notes[i] != b.notes[i]) d += vfmt(" notes[ch%d]", i);
    }
    if(a.users != b.users) d += " chip-users";
    return d.empty() ? " (none)" : d;
}

// ------------------------------------------------------------------------------------------
// prior states
// ------------------------------------------------------------------------------------------
struct Spec { int mode; int mvol; bool ctrls, notes, pedal, drums, banks, audio; uint64_t seed; };

static int sx(OPN2_MIDIPlayer *dev, const Bytes &m) { ExactBuf eb(m); int rc = -99; API("opn2_rt_systemExclusive", rc = opn2_rt_systemExclusive(dev, eb.p, eb.n)); return rc; }

// Drive the instance into the prior state described by sp using only API calls. Returns false when the state could not be reached
// (the canonical messages used here are themselves judged by the main loop, so a failure is reported there).
static bool establish(OPN2_MIDIPlayer *dev, unsigned id, const Spec &sp)
{
    Rng r(sp.seed, 77, 0);
    OPNMIDIplay *p = P(dev);
    API("opn2_panic", opn2_panic(dev));
    // (a canonical, correctly addressed message that is refused here is a refuting event of its own, not a reason to set the case aside)
    #define CANON(msg, what) do { Bytes m_ = (msg); if(sx(dev, m_) != 1) { if(g_case) g_case->violation(std::string("oracle:C19:valid-rejected:") + what + ":while-establishing-the-prior-state", vfmt("msg=%s devid=%u: library returned != 1", hexs(m_, 40).c_str(), id)); return false; } } while(0)
    CANON(mk_roland(0x10 | id, 0x40, 0x00, 0x7F, 0x00), "gs-reset");      // controllers, master volume, drum flags
    for(int ch = 0; ch < 16; ch++) { API("opn2_rt_bankChange", opn2_rt_bankChange(dev, (uint8_t)ch, 0)); API("opn2_rt_patchChange", opn2_rt_patchChange(dev, (uint8_t)ch, 0)); }
    if(sp.mode == MODE_GM) CANON(mk_gm(0x7F, true), "gm-on");
    if(sp.mode == MODE_XG) CANON(mk_xg(0x10 | id, 0), "xg-on");
    if((int)p->m_synthMode != sp.mode) return false;
    for(int ch = 0; ch < 16; ch++)
        if(p->m_midiChannels[(size_t)ch].is_xg_percussion)
        {   // a drum flag that survived the resets: withdraw it with an explicit "melodic part" message
            static const int chan2part[16] = {1, 2, 3, 4, 5, 6, 7, 8, 9, 0, 10, 11, 12, 13, 14, 15};
            if(sx(dev, mk_roland(0x10 | id, 0x40, 0x10 | chan2part[ch], 0x15, 0)) != 1 || p->m_midiChannels[(size_t)ch].is_xg_percussion) return false;
        }
    if(sp.banks)
        for(int i = 0, n = r.range(1, 4); i < n; i++)
        {
            uint8_t ch = (uint8_t)r.below(16);
            API("opn2_rt_controllerChange", opn2_rt_controllerChange(dev, ch, 0, (uint8_t)r.pick((const int[]){0, 1, 5, 64, 126, 127})));
            API("opn2_rt_controllerChange", opn2_rt_controllerChange(dev, ch, 32, (uint8_t)r.pick((const int[]){0, 1, 3, 127})));
            API("opn2_rt_patchChange", opn2_rt_patchChange(dev, ch, (uint8_t)r.below(128)));
        }
    if(sp.drums)
        for(int i = 0, n = r.range(1, 3); i < n; i++)
            if(sx(dev, mk_roland(0x10 | id, 0x40, 0x10 | r.below(16), 0x15, 1 + r.below(2))) != 1) return false;
    if(sp.ctrls)
        for(int i = 0, n = r.range(2, 6); i < n; i++)
        {
            uint8_t ch = (uint8_t)r.below(16);
            #define CC(t, v) API("opn2_rt_controllerChange", opn2_rt_controllerChange(dev, ch, (uint8_t)(t), (uint8_t)(v)))
            CC(7, r.below(128)); CC(11, r.below(128)); CC(10, r.below(128)); CC(1, r.below(128));
            API("opn2_rt_pitchBend", opn2_rt_pitchBend(dev, ch, (OPN2_UInt16)r.below(16384)));
            if(r.chance(0.7)) { CC(101, 0); CC(100, 0); CC(6, r.range(0, 24)); CC(38, r.below(100)); }
            if(r.chance(0.3)) { CC(99, r.below(128)); CC(98, r.below(128)); }
            if(r.chance(0.5)) CC(74, r.below(128));
            if(r.chance(0.3)) CC(67, 127);
            if(r.chance(0.3)) { CC(5, r.below(128)); CC(65, 127); }
            if(r.chance(0.3)) API("opn2_rt_channelAfterTouch", opn2_rt_channelAfterTouch(dev, ch, (uint8_t)r.below(128)));
            if(r.chance(0.3)) API("opn2_rt_noteAfterTouch", opn2_rt_noteAfterTouch(dev, ch, (uint8_t)r.below(128), (uint8_t)r.range(1, 127)));
            #undef CC
        }
    if(sp.mvol >= 0 && sx(dev, mk_mvol(0x7F, 0, (unsigned)sp.mvol)) != 1) return false;
    if(sp.pedal)
    {
        uint8_t ch = (uint8_t)r.pick((const int[]){0, 3, 9, 12});
        API("opn2_rt_controllerChange", opn2_rt_controllerChange(dev, ch, 64, 127));
        uint8_t k0 = (uint8_t)r.range(40, 60), k1 = (uint8_t)r.range(61, 80);
        int rc = 0;
        API("opn2_rt_noteOn", rc = opn2_rt_noteOn(dev, ch, k0, 100)); API("opn2_rt_noteOn", rc = opn2_rt_noteOn(dev, ch, k1, 90));
        API("opn2_rt_noteOff", opn2_rt_noteOff(dev, ch, k0)); API("opn2_rt_noteOff", opn2_rt_noteOff(dev, ch, k1));
        (void)rc;
    }
    const size_t nch = p->m_midiChannels.size();
    if(nch > 16 && (sp.ctrls || sp.notes))
        for(int i = 0, n = r.range(1, 3); i < n; i++)
        {   // a multi-port song is loaded: channels of the further ports carry state and notes, too
            uint8_t ch = (uint8_t)(16 + r.below((uint32_t)(nch - 16)));
            API("opn2_rt_controllerChange", opn2_rt_controllerChange(dev, ch, 7, (uint8_t)r.range(1, 127)));
            API("opn2_rt_controllerChange", opn2_rt_controllerChange(dev, ch, 11, (uint8_t)r.range(1, 127)));
            if(r.chance(0.4)) { API("opn2_rt_controllerChange", opn2_rt_controllerChange(dev, ch, 64, 127)); }
            int rc = 0; API("opn2_rt_noteOn", rc = opn2_rt_noteOn(dev, ch, (uint8_t)r.range(36, 90), (uint8_t)r.range(40, 127))); (void)rc;
            count("prior_states_with_notes_on_further_ports");
        }
    if(sp.notes)
        for(int i = 0, n = r.range(1, 3); i < n; i++)
        {
            int rc = 0; uint8_t ch = (uint8_t)r.pick((const int[]){1, 2, 9, 15, 0});
            API("opn2_rt_noteOn", rc = opn2_rt_noteOn(dev, ch, (uint8_t)r.range(36, 90), (uint8_t)r.range(40, 127)));
            (void)rc;
        }
    if(sp.audio) { short buf[64]; int rc = 0; API("opn2_generate", rc = opn2_generate(dev, 64, buf)); (void)rc; }
    return true;
}

// ------------------------------------------------------------------------------------------
// mutation families
// ------------------------------------------------------------------------------------------
struct Mut { const char *fam; Bytes m; };

static void add(std::vector<Mut> &v, const char *fam, const Bytes &m) { Mut x; x.fam = fam; x.m = m; v.push_back(x); }

static void mutations(std::vector<Mut> &out, const Bytes &base, unsigned id, Rng &r)
{
    const size_t n = base.size();
    add(out, "base", base);
    for(size_t i = 0; i < n; i++)
    {
        const uint8_t o = base[i];
        const uint8_t vals[] = {0x00, 0x01, 0x7F, 0x80, 0xFF, (uint8_t)(o ^ 1), (uint8_t)(o + 1), (uint8_t)(o | 0x80), (uint8_t)(o ^ 0x10), r.byte()};
        std::set<int> seen; seen.insert(o);
        for(size_t k = 0; k < sizeof(vals); k++) if(seen.insert(vals[k]).second) { Bytes m = base; m[i] = vals[k]; add(out, (vals[k] & 0x80) && !(o & 0x80) ? "subst-hi" : "subst", m); }
    }
    for(size_t i = 0; i < n; i++) { Bytes m = base; m.erase(m.begin() + (long)i); add(out, "delete", m); }
    for(size_t i = 0; i <= n; i++)
    {
        const uint8_t vals[] = {0x00, 0x7F, 0xF7, (uint8_t)(i < n ? base[i] : 0xF0), (uint8_t)r.below(128)};
        for(size_t k = 0; k < sizeof(vals); k++) { Bytes m = base; m.insert(m.begin() + (long)i, vals[k]); add(out, "insert", m); }
    }
    for(size_t len = 0; len < n; len++)
    {
        Bytes m(base.begin(), base.begin() + (long)len); add(out, "truncate", m);
        if(len >= 1 && len + 1 < n) { m.push_back(0xF7); add(out, "truncate-framed", m); }
    }
    for(int e = 1; e <= 3; e++)
    {
        Bytes m = base; for(int q = 0; q < e; q++) m.insert(m.end() - 1, (uint8_t)(q == 0 && r.chance(0.5) ? 0 : r.below(128))); add(out, "extend-inside", m);
        Bytes a = base; for(int q = 0; q < e; q++) a.push_back((uint8_t)r.pick((const int[]){0x00, 0xF7, 0xF0, 0x7F})); add(out, "extend-after", a);
        Bytes f = base; for(int q = 0; q < e; q++) f.insert(f.begin(), (uint8_t)r.pick((const int[]){0x00, 0xF0, 0xF7})); add(out, "extend-before", f);
    }
    if(base[1] == 0x41)
    {
        const int d[] = {1, -1, 64, 0x80};
        for(size_t k = 0; k < 4; k++) { Bytes m = base; m[9] = (uint8_t)(d[k] == 0x80 ? (m[9] | 0x80) : ((m[9] + d[k]) & 0x7F)); add(out, "checksum", m); }
        // data changed, checksum kept / recomputed
        for(int vv = 0; vv < 128; vv += (vv < 4 ? 1 : 13)) { Bytes m = base; m[8] = (uint8_t)vv; add(out, "data-stale-checksum", m); m[9] = (uint8_t)roland_sum(&m[5], 4); add(out, "data-new-checksum", m); }
        for(int a = 0; a < 3; a++) { Bytes m = base; m[5 + a] = (uint8_t)(m[5 + a] ^ (1 << r.below(7))); m[9] = (uint8_t)roland_sum(&m[5], 4); add(out, "address-new-checksum", m); }
        { Bytes m = base; m[3] = (uint8_t)r.pick((const int[]){0x16, 0x45, 0x00, 0x41, 0x43}); add(out, "model", m); }
    }
    if(base[1] == 0x43)
    {
        for(int vv = 1; vv < 128; vv += 21) { Bytes m = base; m[7] = (uint8_t)vv; add(out, "data", m); }
        { Bytes m = base; m[3] = (uint8_t)r.pick((const int[]){0x4B, 0x27, 0x00, 0x42}); add(out, "model", m); }
    }
    // device ids
    if(base[1] == 0x7E || base[1] == 0x7F)
        for(unsigned dd = 0; dd < 128; dd += (dd < 17 ? 1 : 5)) { Bytes m = base; m[2] = (uint8_t)dd; add(out, "device", m); }
    else
    {
        for(unsigned j = 0; j < 16; j++) { Bytes m = base; m[2] = (uint8_t)(0x10 | j); add(out, "device", m); }
        for(unsigned h = 0; h < 8; h++) { Bytes m = base; m[2] = (uint8_t)((h << 4) | id); add(out, "device", m); m[2] = (uint8_t)((h << 4) | ((id + 1) & 15)); add(out, "device", m); }
        { Bytes m = base; m[2] = 0x7F; add(out, "device", m); m[2] = (uint8_t)(0x90 | id); add(out, "device", m); }
    }
}

static Bytes random_string(Rng &r, unsigned id, const char *&fam)
{
    Bytes m;
    switch(r.below(7))
    {
    case 0: { fam = "random"; int n = r.range(0, 64); for(int i = 0; i < n; i++) m.push_back(r.byte()); return m; }
    case 1:
    {
        fam = "random-framed"; int n = r.range(0, 62);
        m.push_back(0xF0); if(n > 0) m.push_back((uint8_t)(r.chance(0.8) ? r.pick((const int[]){0x7E, 0x7F, 0x41, 0x43}) : r.below(128)));
        for(int i = 1; i < n; i++) m.push_back((uint8_t)(r.chance(0.9) ? r.below(128) : r.byte()));
        m.push_back(0xF7); return m;
    }
    case 2:
    {   // recognised header, random tail
        fam = "random-tail"; Bytes b = mk_valid(r, (int)r.below(K_NKINDS), id); size_t keep = r.range(2, (int)b.size() - 1);
        m.assign(b.begin(), b.begin() + (long)keep); int n = r.range(0, 10); for(int i = 0; i < n; i++) m.push_back((uint8_t)r.below(128));
        if(m.size() > 63) m.resize(63);
        m.push_back(0xF7); return m;
    }
    case 3:
    {   // two substitutions / one substitution and one length change
        fam = "double-mutation"; m = mk_valid(r, (int)r.below(K_NKINDS), id);
        for(int q = 0; q < 2; q++)
        {
            size_t pos = r.below((uint32_t)m.size());
            switch(r.below(3)) { case 0: m[pos] = r.chance(0.5) ? (uint8_t)r.below(128) : r.byte(); break; case 1: m.erase(m.begin() + (long)pos); break; default: m.insert(m.begin() + (long)pos, (uint8_t)r.below(128)); }
            if(m.empty()) break;
        }
        return m;
    }
    case 4:
    {   // two messages in one buffer
        fam = "concatenated"; m = mk_valid(r, (int)r.below(K_NKINDS), id); Bytes b = mk_valid(r, (int)r.below(K_NKINDS), id); put_bytes(m, b); return m;
    }
    case 5:
    {   // Roland / Yamaha with random address and data, checksum correct
        fam = "random-address";
        if(r.chance(0.7)) return mk_roland(0x10 | id, r.pick((const int[]){0x40, 0x00, 0x41, 0x20}), r.below(128), r.pick((const int[]){0x7F, 0x15, 0x00, 0x14, 0x16}), r.below(128));
        m = mk_xg(0x10 | id, r.below(128)); m[4 + r.below(3)] = (uint8_t)r.below(128); return m;
    }
    default: fam = "valid"; return mk_valid(r, (int)r.below(K_NKINDS), id);
    }
}

// ------------------------------------------------------------------------------------------
// oracle
// ------------------------------------------------------------------------------------------
static std::map<std::string, int> g_tv_seen;   // 3V class -> outcome adopted by this worker

struct Ctx
{
    Case &c; OPN2_MIDIPlayer *dev; Tap &tap; unsigned id; const Spec &sp; std::set<std::string> keys_in_case;
    Ctx(Case &c_, OPN2_MIDIPlayer *d, Tap &t, unsigned i, const Spec &s): c(c_), dev(d), tap(t), id(i), sp(s) {}
    void viol(const std::string &key, const Bytes &m, const std::string &what)
    {
        count("violating_messages");
        if(!keys_in_case.insert(key).second || keys_in_case.size() > 12) return;   // one witness per key and case
        c.violation(key, vfmt("msg=%s devid=%u prior-mode=%s: %s", hexs(m, 70).c_str(), id, sp.mode == MODE_GM ? "GM" : sp.mode == MODE_GS ? "GS" : "XG", what.c_str()));
    }
};

// Effect of an accepted message of kind j.kind (VALID, or 3V with the pinned-down parts only). pre = "valid-no-effect" etc.
static void check_effect(Ctx &x, const Judg &j, const Bytes &m, const Snap &a, const Snap &b, size_t l0, size_t l1, const char *pre_noeffect, const char *pre_side)
{
    const std::string kn = kind_name(j.kind);
    OPNMIDIplay *p = P(x.dev);
    size_t n28 = 0, nfreq = 0;
    for(size_t i = l0; i < l1; i++) { const RegWrite &w = x.tap.log[i]; if(w.port != 0xFF && w.reg == 0x28) n28++; if(w.port != 0xFF && w.reg >= 0xA0 && w.reg < 0xA8) nfreq++; }
    if(b.devid != a.devid) x.viol(std::string("oracle:C19:") + pre_side + ":" + kn + ":device-id", m, vfmt("device id %u->%u", a.devid, b.devid));
    switch(j.kind)
    {
    case K_MVOL:
    {
        if(j.mm >= 0 && b.mvol != j.mm) x.viol(std::string("oracle:C19:") + pre_noeffect + ":" + kn + ":master-volume", m, vfmt("master volume is %u, message says %d", b.mvol, j.mm));
        if(a.all(false) != b.all(false)) x.viol(std::string("oracle:C19:") + pre_side + ":" + kn + ":other-state", m, "changed besides master volume:" + diff_desc(a, b));
        if(n28 || nfreq) x.viol(std::string("oracle:C19:") + pre_side + ":" + kn + ":key-or-pitch-writes", m, vfmt("%zu key on/off and %zu frequency writes inside the call", n28, nfreq));
        // TL of every key-down note rewritten inside the call
        for(size_t q = 0; q < a.keydown.size(); q++)
            for(size_t k = 0; k < a.keydown[q].chips.size(); k++)
            {
                unsigned c = a.keydown[q].chips[k], chip = c / 6, port = (c % 6) / 3, low = c % 3, got = 0;
                for(size_t i = l0; i < l1; i++) { const RegWrite &w = x.tap.log[i]; if(w.chip == chip && w.port == port && w.reg >= 0x40 && w.reg < 0x50 && (w.reg & 3u) == low) got |= 1u << ((w.reg >> 2) & 3); }
                count("tl_rewrites_checked");
                if(got != 0xF) x.viol(std::string("oracle:C19:") + pre_noeffect + ":" + kn + ":tl-not-rewritten", m, vfmt("key-down note ch%u key %u on chip channel %u: TL operator mask written %x", a.keydown[q].ch, a.keydown[q].note, c, got));
            }
        if(a.held) count("master_volume_with_pedal_held_notes_3v");
        break;
    }
    case K_GS_DRUM:
    {
        if(j.drum >= 0 && b.drum[j.chan] != (j.drum != 0)) x.viol(std::string("oracle:C19:") + pre_noeffect + ":" + kn + ":drum-flag", m, vfmt("channel %d percussion flag is %d, message says %d", j.chan, b.drum[j.chan], j.drum));
        if(a.all(true, j.chan) != b.all(true, j.chan)) x.viol(std::string("oracle:C19:") + pre_side + ":" + kn + ":other-state", m, vfmt("changed besides the flag of channel %d:", j.chan) + diff_desc(a, b));
        if(n28 || nfreq) x.viol(std::string("oracle:C19:") + pre_side + ":" + kn + ":key-or-pitch-writes", m, vfmt("%zu key on/off and %zu frequency writes inside the call", n28, nfreq));
        break;
    }
    default:
    {   // mode switches
        if(j.mode >= 0 && (int)b.mode != j.mode) x.viol(std::string("oracle:C19:") + pre_noeffect + ":" + kn + ":mode", m, vfmt("mode is %u, expected %d", b.mode, j.mode));
        if(j.mode < 0 && b.mode != MODE_GM && b.mode != MODE_GS && b.mode != MODE_XG) x.viol(std::string("oracle:C19:") + pre_noeffect + ":" + kn + ":mode", m, vfmt("mode is %u", b.mode));
        std::string bad;
        for(int i = 0; i < (int)p->m_midiChannels.size(); i++)
        {
            OPNMIDIplay::MIDIchannel &ch = p->m_midiChannels[(size_t)i];
            if(ch.volume != 100) bad += vfmt(" ch%d.volume=%u", i, ch.volume);
            if(ch.expression != 127) bad += vfmt(" ch%d.expression=%u", i, ch.expression);
            if(ch.panning != 64) bad += vfmt(" ch%d.pan=%u", i, ch.panning);
            if(ch.bend != 0) bad += vfmt(" ch%d.bend=%d", i, ch.bend);
            if(ch.vibrato != 0) bad += vfmt(" ch%d.modulation=%u", i, ch.vibrato);
            if(ch.aftertouch != 0) bad += vfmt(" ch%d.aftertouch=%u", i, ch.aftertouch);
            if(ch.sustain) bad += vfmt(" ch%d.sustain", i);
            if(ch.softPedal) bad += vfmt(" ch%d.softpedal", i);
            if(ch.portamentoEnable) bad += vfmt(" ch%d.portamento", i);
            if(ch.bendsense_msb != 2 || ch.bendsense_lsb != 0) bad += vfmt(" ch%d.bendrange=%d/%d", i, ch.bendsense_msb, ch.bendsense_lsb);
            if(bad.size() > 200 || i >= 16) continue;
            // not pinned by the statement: bank/program (kept or cleared), drum flags (kept or cleared), RPN selection, brightness
            if(memcmp(a.bank[i], b.bank[i], 3) && (b.bank[i][0] || b.bank[i][1] || b.bank[i][2])) bad += vfmt(" ch%d.bank/patch=%u/%u/%u", i, b.bank[i][0], b.bank[i][1], b.bank[i][2]);
            if(b.drum[i] && !a.drum[i]) bad += vfmt(" ch%d.drumflag-set", i);
            // ... except that a GS reset returns every part to its GS default: only part 10 is a rhythm part afterwards
            if(j.mode == MODE_GS && i != 9 && b.drum[i]) bad += vfmt(" ch%d.still-a-drum-part-after-GS-reset", i);
        }
        count("controller_resets_checked");
        if(!bad.empty()) x.viol(std::string("oracle:C19:") + pre_noeffect + ":" + kn + ":controllers-not-reset", m, "after the mode switch:" + bad);
        if(b.mvol != a.mvol && b.mvol != 127) x.viol(std::string("oracle:C19:") + pre_side + ":" + kn + ":master-volume", m, vfmt("master volume %u->%u", a.mvol, b.mvol));
        if(b.held) x.viol(std::string("oracle:C19:") + pre_noeffect + ":" + kn + ":pedal-held-notes-survive", m, vfmt("%d pedal-held chip-channel user(s) still present after the mode switch (pedal flags reset)", b.held));
        // key-down notes: three-valued, but nothing new may appear
        for(std::set<std::pair<int, int> >::const_iterator it = b.noteset.begin(); it != b.noteset.end(); ++it) if(!a.noteset.count(*it)) { x.viol(std::string("oracle:C19:") + pre_side + ":" + kn + ":new-note", m, vfmt("note ch%d key %d appeared", it->first, it->second)); break; }
        for(std::set<std::pair<int, int> >::const_iterator it = b.userset.begin(); it != b.userset.end(); ++it) if(!a.userset.count(*it)) { x.viol(std::string("oracle:C19:") + pre_side + ":" + kn + ":new-user", m, vfmt("chip user ch%d key %d appeared", it->first, it->second)); break; }
        cover(vfmt("modeswitch|%s|keydown-notes-%s", kn.c_str(), a.noteset.empty() ? "none" : (b.noteset.empty() ? "ended" : (b.noteset == a.noteset ? "kept" : "some-ended"))));
        break;
    }
    }
}

static void judge(Ctx &x, const char *fam, const Bytes &m, int rc, const Snap &a, const Snap &b, size_t l0, size_t l1)
{
    const Judg j = validate(m, x.id);
    const bool changed = a.all() != b.all();
    const size_t writes = l1 - l0;
    count("messages_checked");
    count(j.v == V_VALID ? "messages_valid" : j.v == V_INVALID ? "messages_invalid" : "messages_three_valued");
    if(rc == 1) count("messages_accepted_by_library"); else if(rc == 0) { count("messages_rejected_by_library"); count("register_writes_observed_in_rejected_calls", (long long)writes); if(changed) count("state_changes_observed_in_rejected_calls"); }
    const char *pm = x.sp.mode == MODE_GM ? "GM" : x.sp.mode == MODE_GS ? "GS" : "XG";
    cover(vfmt("%s|%s|%s|%s|%s|rc%d", kind_name(j.kind), fam, verdict_name(j.v), j.v == V_VALID ? "-" : j.reason.c_str(), pm, rc));
    cover(vfmt("state|%s|%s|notes%d|held%d|ctrl%d|mvol%d|drums%d|rc%d", verdict_name(j.v), pm, a.keydown.empty() ? 0 : 1, a.held ? 1 : 0, x.sp.ctrls, x.sp.mvol >= 0, x.sp.drums, rc));
    if(rc != 0 && rc != 1) { x.viol("oracle:C19:return-value", m, vfmt("returned %d", rc)); return; }
    switch(j.v)
    {
    case V_INVALID:
        if(rc == 1) x.viol("oracle:C19:invalid-accepted:" + j.reason, m, vfmt("validator: %s (%s); library returned 1; state change:%s; %zu register writes", j.reason.c_str(), kind_name(j.kind), diff_desc(a, b).c_str(), writes));
        else if(changed) x.viol("oracle:C19:invalid-changed-state:" + j.reason, m, "returned 0 but changed:" + diff_desc(a, b));
        else if(writes) x.viol("oracle:C19:invalid-register-writes:" + j.reason, m, vfmt("returned 0, state equal, but %zu register writes (first reg %02x)", writes, x.tap.log[l0].reg));
        break;
    case V_VALID:
        if(rc == 0)
        {
            x.viol(std::string("oracle:C19:valid-rejected:") + kind_name(j.kind), m, "validator: valid, canonical addressing; library returned 0");
            if(changed || writes) x.viol(std::string("oracle:C19:rejected-changed-state:") + kind_name(j.kind), m, "returned 0 but changed:" + diff_desc(a, b));
        }
        else check_effect(x, j, m, a, b, l0, l1, "valid-no-effect", "valid-side-effect");
        break;
    default:
    {
        std::string cls = std::string(kind_name(j.kind)) + ":" + j.reason;
        std::map<std::string, int>::iterator it = g_tv_seen.find(cls);
        if(it == g_tv_seen.end()) g_tv_seen[cls] = rc;
        else if(it->second != rc) x.viol("oracle:C19:3v-inconsistent:" + cls, m, vfmt("this class of message was %s before and is %s now", it->second ? "accepted" : "rejected", rc ? "accepted" : "rejected"));
        cover(vfmt("3v|%s|rc%d", cls.c_str(), rc));
        if(rc == 0) { if(changed || writes) x.viol(std::string("oracle:C19:3v-rejected-changed-state:") + kind_name(j.kind), m, vfmt("returned 0 but %zu register writes, changed:", writes) + diff_desc(a, b)); }
        else check_effect(x, j, m, a, b, l0, l1, "3v-accepted-no-effect", "3v-accepted-side-effect");
        break;
    }
    }
}

// ------------------------------------------------------------------------------------------
// ------------------------------------------------------------------------------------------
// stage file: the same strings reaching the synthesizer from a Standard MIDI File. An F0 event of a file is a complete message;
// an F7 event is an escape / continuation packet whose bytes do not start with F0, so it is not framed by F0..F7 and must change
// nothing, whatever it contains.
// ------------------------------------------------------------------------------------------
static void stage_file(Case &c)
{
    Rng &r = c.rng;
    OPN2_MIDIPlayer *dev = NULL;
    API("opn2_init", dev = opn2_init(22050));
    if(!dev) { c.violation("oracle:init-failed", "opn2_init returned NULL"); return; }
    int rc = 0;
    API("opn2_switchEmulator", rc = opn2_switchEmulator(dev, r.chance(0.5) ? 0 : 2));
    { ExactBuf b(default_bank()); API("opn2_openBankData", rc = opn2_openBankData(dev, b.p, (long)b.n)); }
    const int kind = (int)r.below(4);          // 0 GM on, 1 GS reset, 2 XG on, 3 master volume
    const bool escape = r.chance(0.5);         // F7 event instead of F0
    const int vol = r.range(1, 99), mv = r.range(1, 126);
    Bytes msg = kind == 0 ? mk_gm(0x7F, true) : kind == 1 ? mk_roland(0x10, 0x40, 0x00, 0x7F, 0x00) : kind == 2 ? mk_xg(0x10, 0) : mk_mvol(0x7F, 0, (unsigned)mv);
    // the file: CC7 on channel 0 and a preparatory mode (so that the switch under test changes something), then the event, then a note
    Song sg; sg.format = 0; sg.division = 96; sg.running_status = false; sg.tracks.resize(1);
    int serial = 0;
    auto push = [&](SEv e) { e.serial = serial++; sg.tracks[0].ev.push_back(e); };
    auto sysex = [&](uint64_t tick, uint8_t status, const Bytes &m) { SEv e; e.tick = tick; e.status = status; e.meta = 0; e.data.assign(m.begin() + 1, m.end()); push(e); };   // payload = everything behind the leading F0
    const Bytes prep = kind == 2 ? mk_gm(0x7F, true) : mk_xg(0x10, 0);          // XG on is tested from GM, the others from XG
    sysex(0, 0xF0, prep);
    push(mk_chan(10, 0xB0, 7, vol));
    sysex(20, escape ? 0xF7 : 0xF0, msg);
    push(mk_chan(30, 0x90, 60, 100)); push(mk_chan(60, 0x80, 60, 0));
    push(mk_meta(60, 0x2F, std::vector<uint8_t>()));
    std::vector<uint8_t> file = serialize_song(sg);
    { ExactBuf in(file); API("opn2_openData", rc = opn2_openData(dev, in.p, (unsigned long)in.n)); }
    if(rc != 0) { c.violation("oracle:C19:file:wellformed-file-rejected", opn2_errorInfo(dev)); API("opn2_close", opn2_close(dev)); return; }
    double delay = 0; long guard = 0;
    while(guard++ < 100000) { double nd = 0; API("opn2_tickEvents", nd = opn2_tickEvents(dev, delay, 1e-6)); int e = 0; API("opn2_atEnd", e = opn2_atEnd(dev)); if(e) break; delay = nd; }
    OPNMIDIplay *p = P(dev);
    const int mode = (int)p->m_synthMode, v0 = p->m_midiChannels[0].volume, master = (int)p->m_synth->m_masterVolume;
    const int mode_before = kind == 2 ? MODE_GM : MODE_XG, mode_after = kind == 0 ? MODE_GM : kind == 1 ? MODE_GS : kind == 2 ? MODE_XG : mode_before;
    static const char *kn[] = {"gm-on", "gs-reset", "xg-on", "master-volume"};
    std::string ctx = vfmt("%s event %s in a file (CC7=%d before it): mode %d, channel 0 volume %d, master volume %d afterwards", escape ? "F7" : "F0", hexs(msg, 40).c_str(), vol, mode, v0, master);
    if(escape)
    {
        if(mode != mode_before || v0 != vol || master != 127)
            c.violation(std::string("oracle:C19:file:escape-event-took-effect:") + kn[kind], ctx + vfmt("; expected mode %d, volume %d, master volume 127 (an F7 packet is not a framed message)", mode_before, vol));
    }
    else
    {
        if(kind < 3 && (mode != mode_after || v0 != 100))
            c.violation(std::string("oracle:C19:file:message-without-effect:") + kn[kind], ctx + vfmt("; expected mode %d and the controllers reset (volume 100)", mode_after));
        if(kind == 3 && (master != mv || v0 != vol || mode != mode_before))
            c.violation(std::string("oracle:C19:file:message-without-effect:") + kn[kind], ctx + vfmt("; expected master volume %d, volume %d, mode %d", mv, vol, mode_before));
    }
    c.nontrivial = true;
    cover(vfmt("file|%s|%s", kn[kind], escape ? "F7" : "F0"));
    c.sig = vfmt("file|%d|%d", kind, (int)escape);
    c.sample(std::string("{\"stage\":\"file\",\"context\":") + jstr(ctx) + "}");
    API("opn2_close", opn2_close(dev));
}

static void run_case(Case &c)
{
    if(g_w.stage == "file") { stage_file(c); return; }
    Rng &r = c.rng;
    const int sel = (int)(c.k % 8);                       // 0..6 mutation sweep of one kind, 7 random strings
    const unsigned id = (unsigned)((c.k / 8) % 16);
    Spec sp;
    sp.mode = (int)((c.k / 128) % 3);
    sp.mvol = r.chance(0.4) ? (int)r.below(128) : -1;
    sp.ctrls = r.chance(0.6); sp.notes = r.chance(0.6); sp.pedal = r.chance(0.5); sp.drums = r.chance(0.3); sp.banks = r.chance(0.4); sp.audio = r.chance(0.15);
    sp.seed = r.next();

    OPN2_MIDIPlayer *dev = NULL;
    API("opn2_init", dev = opn2_init(r.chance(0.5) ? 44100 : 22050));
    if(!dev) { c.violation("oracle:init-failed", "opn2_init returned NULL"); return; }
    Tap tap; tap.keep_log = true; tap.attach(dev);
    int rc = 0;
    API("opn2_switchEmulator", rc = opn2_switchEmulator(dev, r.chance(0.5) ? 0 : 2));
    API("opn2_setNumChips", rc = opn2_setNumChips(dev, r.range(1, 2)));
    { ExactBuf b(default_bank()); API("opn2_openBankData", rc = opn2_openBankData(dev, b.p, (long)b.n)); if(rc != 0) { c.violation("oracle:default-bank-rejected", "default bank rejected"); API("opn2_close", opn2_close(dev)); return; } }
    API("opn2_setDeviceIdentifier", rc = opn2_setDeviceIdentifier(dev, id));
    if(rc != 0 || P(dev)->m_sysExDeviceId != id) { c.violation("oracle:C19:device-id-not-set", vfmt("opn2_setDeviceIdentifier(%u) -> %d", id, rc)); API("opn2_close", opn2_close(dev)); return; }

    // "this device id" is the one that was set, also after a reset or a music load in between
    {
        int between = (int)r.below(5);
        if(between == 1) { API("opn2_reset", opn2_reset(dev)); count("cases_with_a_reset_after_setting_the_device_id"); }
        else if(between == 2)
        {
            SongOpts so; so.max_tracks = 2; so.max_events = 6; so.sysex_meta = false;
            Song sg = gen_song(r, so); std::vector<uint8_t> f = serialize_song(sg);
            ExactBuf in(f); int rl = 0; API("opn2_openData", rl = opn2_openData(dev, in.p, (unsigned long)in.n)); (void)rl;
            count("cases_with_a_music_load_after_setting_the_device_id");
        }
        else if(between == 3)
        {   // a song whose tracks name two or three MIDI ports (FF 09): once its first row has been played the channel table holds
            // 32 or 48 channels, and real-time calls address the further ports directly
            const int ports = r.range(2, 3);
            std::vector<uint8_t> f; put_str(f, "MThd"); put_be(f, 6, 4); put_be(f, 1, 2); put_be(f, (uint64_t)ports + 1, 2); put_be(f, 96, 2);
            { std::vector<uint8_t> t; t.push_back(0); t.push_back(0xFF); t.push_back(0x51); t.push_back(3); put_be(t, 500000, 3); put_vlq(t, 9600); t.push_back(0xFF); t.push_back(0x2F); t.push_back(0);
              put_str(f, "MTrk"); put_be(f, t.size(), 4); put_bytes(f, t); }
            for(int q = 0; q < ports; q++)
            {
                std::vector<uint8_t> t; std::string nm = vfmt("Port %c", 'A' + q);
                t.push_back(0); t.push_back(0xFF); t.push_back(0x09); t.push_back((uint8_t)nm.size()); t.insert(t.end(), nm.begin(), nm.end());
                t.push_back(0); t.push_back((uint8_t)(0xB0 | q)); t.push_back(7); t.push_back(100);
                put_vlq(t, 9600); t.push_back(0xFF); t.push_back(0x2F); t.push_back(0);
                put_str(f, "MTrk"); put_be(f, t.size(), 4); put_bytes(f, t);
            }
            ExactBuf in(f); int rl = 0; API("opn2_openData", rl = opn2_openData(dev, in.p, (unsigned long)in.n));
            double nd = 0; API("opn2_tickEvents", nd = opn2_tickEvents(dev, 0.001, 0.0005)); (void)nd;
            if(rl == 0 && P(dev)->m_midiChannels.size() > 16) count("cases_with_a_multi_port_song_loaded");
        }
    }
    std::vector<Mut> muts;
    if(sel < K_NKINDS) mutations(muts, mk_valid(r, sel, id), id, r);
    else for(int i = 0; i < 260; i++) { Mut x; x.m = random_string(r, id, x.fam); muts.push_back(x); }
    // every case also sends a few valid messages of other kinds from the prior state
    for(int i = 0; i < 4; i++) add(muts, "valid", mk_valid(r, (int)r.below(K_NKINDS), id));

    Ctx x(c, dev, tap, id, sp);
    bool ok = establish(dev, id, sp);
    if(!ok) { c.inconclusive = true; count("prior_state_not_reached"); }
    Snap a, b; bool have_a = false;
    size_t judged = 0;
    for(size_t i = 0; i < muts.size() && ok && g_w.violations_in_case < 12; i++)
    {
        if(!have_a) { take_snap(dev, a); have_a = true; }
        tap.log.clear();
        ExactBuf eb(muts[i].m); int ret = -99;
        API("opn2_rt_systemExclusive", ret = opn2_rt_systemExclusive(dev, eb.p, eb.n));
        const size_t l1 = tap.log.size();
        take_snap(dev, b);
        judge(x, muts[i].fam, muts[i].m, ret, a, b, 0, l1);
        judged++;
        if(ret != 0 || l1 != 0 || a.all() != b.all())
        {   // the state moved: go back to the prior state
            ok = establish(dev, id, sp);
            if(!ok) { c.inconclusive = true; count("prior_state_not_reached"); }
            have_a = false;
        }
    }
    c.nontrivial = judged >= 10;
    c.sig = vfmt("%d|%u|%d", sel, id, sp.mode);
    c.sample(std::string("{\"sweep\":") + jstr(sel < K_NKINDS ? kind_name(sel) : "random-strings") + vfmt(",\"device_id\":%u,\"prior_mode\":%d,\"messages\":%zu,\"first\":", id, sp.mode, judged) + jstr(hexs(muts[0].m)) +
             vfmt(",\"prior\":{\"master\":%d,\"ctrls\":%d,\"notes\":%d,\"pedal\":%d,\"drums\":%d}}", sp.mvol, sp.ctrls, sp.notes, sp.pedal, sp.drums));
    Tap::detach(dev);
    API("opn2_close", opn2_close(dev));
}
