// C15 — WOPN/OPNI serialisation round-trips and never writes past its buffer.
//
// Stages (selected by g_w.stage):
//   values : generated WOPNFile values x; for versions 1 and 2: size = WOPN_CalculateBankFileSize, save into
//            size bytes (+ canary) -> OK, nothing at or beyond `size` written; y = load(save(x)) equals x on
//            every field the version carries; z = load(save(y)) == y (fixed point, also for the values the
//            format cannot represent); every destination length < size is refused and leaves the bytes at and
//            beyond `length` alone; WOPN_BanksCmp agrees with the field-wise comparison where that is decidable.
//   bytes  : byte strings (own serializer of the on-disk layout + mutated library images, zero bank counts,
//            unterminated names, version codes 0/1/2 behind the version-2 magic, trailing bytes); for every
//            accepted b: load(save(load(b))) == load(b).
//   inst   : the same for single-instrument files (OPNIFile, WOPN_*Inst*), values and byte strings.
//
// The expected layout comes from docs/wopn specification.txt (field tables), not from wopn_file.c:
//   bank header v1 = 11 + 2 + 2 + 1, v2 = 11 + 2 + 2 + 2 + 1, v2 bank meta = 32 + 1 + 1 per bank,
//   instrument entry = 65 bytes (v1, and OPNI of both versions), 65 + 2 + 2 in version-2 banks.
// Every buffer handed to the library is a heap block of exactly the stated length (ASan red zone behind it),
// or that length plus an explicit canary region that is verified afterwards.
#include "vlib.hpp"

static const char *harness_name() { return "c15_wopn"; }
static void harness_init() {}

typedef std::vector<uint8_t> Bytes;

// ------------------------------------------------------------------------------------------------
// memory helpers
// ------------------------------------------------------------------------------------------------
enum { GUARD = 48 };
static inline uint8_t canary_byte(size_t i) { return (uint8_t)(0xA5 ^ (i * 29 + 7)); }

struct Block
{   // `n` bytes for the library followed by `guard` canary bytes (guard == 0: exact-size block)
    uint8_t *p; size_t n, guard;
    Block(size_t n_, size_t guard_, bool fill_body = true): n(n_), guard(guard_)
    {
        size_t tot = n + guard;
        p = (uint8_t *)malloc(tot ? tot : 1);
        if(fill_body && n) memset(p, 0x5A, n);
        for(size_t i = 0; i < guard; i++) p[n + i] = canary_byte(i);
    }
    ~Block() { free(p); }
    long first_damaged() const { for(size_t i = 0; i < guard; i++) if(p[n + i] != canary_byte(i)) return (long)i; return -1; }
private:
    Block(const Block &); Block &operator=(const Block &);
};

static std::set<std::string> g_case_keys;   // one report per key and case
static void viol(Case &c, const std::string &key, const std::string &detail)
{
    if(g_case_keys.insert(key).second) c.violation(key, detail);
}

// ------------------------------------------------------------------------------------------------
// layout according to the specification
// ------------------------------------------------------------------------------------------------
static size_t spec_ins_size(int v) { return v >= 2 ? 69 : 65; }
static size_t spec_bank_header(int v) { return v >= 2 ? 11 + 2 + 2 + 2 + 1 : 11 + 2 + 2 + 1; }
static size_t spec_bank_size(int v, unsigned m, unsigned p)
{
    return spec_bank_header(v) + (v >= 2 ? 34u * (m + p) : 0u) + spec_ins_size(v) * 128u * (m + p);
}
static size_t spec_inst_size(int v) { return 11 + (v >= 2 ? 2 : 0) + 1 + 65; }

// region of a destination length inside the image (for coverage items / boundary lists)
static const char *bank_region(int v, unsigned m, unsigned p, size_t L)
{
    size_t h = spec_bank_header(v), meta = v >= 2 ? 34u * (m + p) : 0u, mi = spec_ins_size(v) * 128u * m;
    if(L < 11) return "magic";
    if(L < h) return "header";
    if(L < h + meta) return "meta";
    if(L < h + meta + mi) return "melodic";
    if(L < spec_bank_size(v, m, p)) return "percussion";
    return "past-image";
}

// ------------------------------------------------------------------------------------------------
// generators
// ------------------------------------------------------------------------------------------------
static uint8_t g_byte(Rng &r) { static const int v[] = {0, 1, 0x7F, 0x80, 0xFF, 0x0F, 0xF0}; return r.chance(0.3) ? (uint8_t)r.pick(v) : r.byte(); }
static uint16_t g_u16(Rng &r) { static const int v[] = {0, 1, 0xFF, 0x100, 0x7FFF, 0x8000, 0xFFFF, 0x00FF, 0xFF00}; return r.chance(0.4) ? (uint16_t)r.pick(v) : (uint16_t)r.next(); }
static uint8_t g_namechar(Rng &r) { return r.chance(0.8) ? (uint8_t)r.range(0x20, 0x7E) : (uint8_t)r.range(1, 255); }

// C-string value into a field of `field` bytes: length len (< field), optional garbage behind the terminator
static void g_name(Rng &r, char *dst, size_t field, size_t len, bool dirty)
{
    for(size_t i = 0; i < len; i++) dst[i] = (char)g_namechar(r);
    dst[len] = 0;
    for(size_t i = len + 1; i < field; i++) dst[i] = dirty ? (char)r.byte() : 0;
}
static size_t g_namelen(Rng &r, size_t maxlen)
{
    int k = r.below(10);
    if(k == 0) return 0;
    if(k == 1) return maxlen;
    if(k == 2) return maxlen - 1;
    if(k == 3) return 1;
    return (size_t)r.range(0, (int)maxlen);
}

struct InsClass { bool blank, on0, off0, pseudo8, vel, dirty_name; size_t namelen; };

static InsClass gen_instrument(Rng &r, WOPNInstrument &in)
{   // `in` is zeroed memory (struct padding stays zero)
    InsClass k;
    k.namelen = g_namelen(r, 31);
    k.dirty_name = r.chance(0.25);
    g_name(r, in.inst_name, 32, k.namelen, k.dirty_name);
    if(r.chance(0.04)) { for(int i = 0; i < 32; i++) in.inst_name[i] = (char)g_namechar(r); k.namelen = 32; k.dirty_name = false; }   // fills the field, no terminator: 31 characters are the capacity
    static const int offs[] = {0, 1, -1, 12, -12, 127, -128, 255, 256, -256, 32767, -32768, 0x7F00, -0x100};
    in.note_offset = r.chance(0.5) ? (int16_t)r.pick(offs) : (int16_t)r.next();
    k.vel = r.chance(0.04);
    in.midi_velocity_offset = k.vel ? (int8_t)r.range(-128, 127) : 0;      // reserved: no version stores it
    in.percussion_key_number = g_byte(r);
    k.blank = r.chance(0.3);
    k.pseudo8 = r.chance(0.04);                                            // reserved flag: no version stores it
    in.inst_flags = (uint8_t)((k.blank ? WOPN_Ins_IsBlank : 0) | (k.pseudo8 ? WOPN_Ins_Pseudo8op : 0));
    in.fbalg = g_byte(r);
    in.lfosens = g_byte(r);
    for(int o = 0; o < 4; o++)
    {
        WOPNOperator &op = in.operators[o];
        op.dtfm_30 = g_byte(r); op.level_40 = g_byte(r); op.rsatk_50 = g_byte(r); op.amdecay1_60 = g_byte(r);
        op.decay2_70 = g_byte(r); op.susrel_80 = g_byte(r); op.ssgeg_90 = g_byte(r);
    }
    int dc = r.below(k.blank ? 3 : 6);        // blank entries mostly carry zero delays, non-blank mostly non-zero ones
    k.on0 = k.off0 = false;
    if(k.blank) { if(dc <= 1) k.on0 = k.off0 = true; }
    else { if(dc == 0) k.on0 = k.off0 = true; else if(dc == 1) k.on0 = true; else if(dc == 2) k.off0 = true; }
    do { in.delay_on_ms = k.on0 ? 0 : g_u16(r); } while(!k.on0 && in.delay_on_ms == 0);
    do { in.delay_off_ms = k.off0 ? 0 : g_u16(r); } while(!k.off0 && in.delay_off_ms == 0);
    return k;
}

static void pick_counts(Rng &r, unsigned &m, unsigned &p)
{
    int k = r.below(100);
    if(k < 45) { m = 1; p = 1; }
    else if(k < 75) { m = (unsigned)r.range(1, 3); p = (unsigned)r.range(1, 3); }
    else if(k < 93) { m = (unsigned)r.range(1, 8); p = (unsigned)r.range(1, 8); }
    else if(k < 98) { m = (unsigned)r.range(1, 24); p = (unsigned)r.range(1, 24); }
    else if(k < 99) { m = 64; p = (unsigned)r.range(1, 2); }
    else { m = (unsigned)r.range(1, 2); p = 64; }
}

struct ValueInfo { bool dirty_names, unrepresentable_common; };

static WOPNFile *gen_value(Rng &r, unsigned m, unsigned p, ValueInfo &vi)
{
    WOPNFile *f = NULL;
    API("WOPN_Init", f = WOPN_Init((uint16_t)m, (uint16_t)p));
    if(!f) return NULL;
    vi.dirty_names = false; vi.unrepresentable_common = false;
    f->lfo_freq = (uint8_t)r.below(16);
    f->chip_type = (uint8_t)r.below(2);
    f->volume_model = r.chance(0.05) ? (uint8_t)r.range(1, 255) : 0;     // reserved: not stored by any version
    if(f->volume_model) vi.unrepresentable_common = true;
    for(int s = 0; s < 2; s++)
    {
        WOPNBank *bk = s ? f->banks_percussive : f->banks_melodic;
        unsigned n = s ? p : m;
        for(unsigned j = 0; j < n; j++)
        {
            bool dirty = r.chance(0.25);
            size_t len = g_namelen(r, 32);
            g_name(r, bk[j].bank_name, 33, len, dirty);
            if(dirty && len < 32) vi.dirty_names = true;
            bk[j].bank_midi_lsb = g_byte(r);
            bk[j].bank_midi_msb = g_byte(r);
            for(int i = 0; i < 128; i++)
            {
                InsClass k = gen_instrument(r, bk[j].ins[i]);
                if(k.dirty_name && k.namelen < 31) vi.dirty_names = true;
                if(k.vel || k.pseudo8) vi.unrepresentable_common = true;
                cover(vfmt("gen-ins|blank%d|on0=%d|off0=%d", k.blank, k.on0, k.off0));
                cover(vfmt("gen-insname|len%s|dirty%d", k.namelen == 0 ? "0" : k.namelen == 32 ? "32-unterminated" : k.namelen == 31 ? "31" : k.namelen == 30 ? "30" : "mid", k.dirty_name));
            }
        }
    }
    return f;
}

// ------------------------------------------------------------------------------------------------
// comparisons
// ------------------------------------------------------------------------------------------------
static bool cstr_eq(const char *a, const char *b, size_t cap)
{   // equal as C strings, looking at no more than `cap` bytes
    for(size_t i = 0; i < cap; i++) { if(a[i] != b[i]) return false; if(!a[i]) return true; }
    return true;
}
static std::string cstr_show(const char *a, size_t cap) { size_t n = strnlen(a, cap); return hexs((const uint8_t *)a, n, 40); }

struct Diff
{   // first differing member (names the violation key) + the first difference of every other member kind
    std::string field, detail; bool any;
    std::set<std::string> fields;
    Diff(): any(false) {}
    void set(const std::string &f, const std::string &d)
    {
        if(!any) { any = true; field = f; detail = d; fields.insert(f); return; }
        if(fields.size() < 6 && fields.insert(f).second) detail += "; also " + d;
    }
};

// fields of an instrument entry that every version and both file kinds store
static void cmp_ins_core(const WOPNInstrument &a, const WOPNInstrument &b, const std::string &where, Diff &d)
{
    // capacity of the field is 31 characters: when `a` fills all 32 bytes its last byte is beyond what can be kept
    if(!cstr_eq(a.inst_name, b.inst_name, strnlen(a.inst_name, 32) == 32 ? 31 : 32))
        d.set("inst_name", where + " name " + cstr_show(a.inst_name, 32) + " -> " + cstr_show(b.inst_name, 32));
    if(a.note_offset != b.note_offset) d.set("note_offset", where + vfmt(" note_offset %d -> %d", a.note_offset, b.note_offset));
    if(a.percussion_key_number != b.percussion_key_number) d.set("percussion_key_number", where + vfmt(" key %u -> %u", a.percussion_key_number, b.percussion_key_number));
    if(a.fbalg != b.fbalg) d.set("fbalg", where + vfmt(" fbalg %02x -> %02x", a.fbalg, b.fbalg));
    if(a.lfosens != b.lfosens) d.set("lfosens", where + vfmt(" lfosens %02x -> %02x", a.lfosens, b.lfosens));
    for(int o = 0; o < 4; o++)
    {
        const uint8_t *x = &a.operators[o].dtfm_30, *y = &b.operators[o].dtfm_30;   // seven consecutive uint8_t members
        const WOPNOperator &ao = a.operators[o], &bo = b.operators[o];
        if(ao.dtfm_30 != bo.dtfm_30 || ao.level_40 != bo.level_40 || ao.rsatk_50 != bo.rsatk_50 || ao.amdecay1_60 != bo.amdecay1_60 ||
           ao.decay2_70 != bo.decay2_70 || ao.susrel_80 != bo.susrel_80 || ao.ssgeg_90 != bo.ssgeg_90)
            d.set("operators", where + vfmt(" op%d ", o) + hexs(x, 7) + " -> " + hexs(y, 7));
    }
}
// complete comparison of two instrument entries (names as C strings)
static void cmp_ins_all(const WOPNInstrument &a, const WOPNInstrument &b, const std::string &where, Diff &d)
{
    cmp_ins_core(a, b, where, d);
    if(a.midi_velocity_offset != b.midi_velocity_offset) d.set("midi_velocity_offset", where + vfmt(" velocity offset %d -> %d", a.midi_velocity_offset, b.midi_velocity_offset));
    if(a.inst_flags != b.inst_flags) d.set("inst_flags", where + vfmt(" flags %02x -> %02x (delays %u/%u -> %u/%u)", a.inst_flags, b.inst_flags, a.delay_on_ms, a.delay_off_ms, b.delay_on_ms, b.delay_off_ms));
    if(a.delay_on_ms != b.delay_on_ms) d.set("delay_on_ms", where + vfmt(" delay_on %u -> %u", a.delay_on_ms, b.delay_on_ms));
    if(a.delay_off_ms != b.delay_off_ms) d.set("delay_off_ms", where + vfmt(" delay_off %u -> %u", a.delay_off_ms, b.delay_off_ms));
}
// all bytes of the character arrays equal too (what a memcmp of padding-free structures would see)
static bool ins_name_bytes_equal(const WOPNInstrument &a, const WOPNInstrument &b) { return memcmp(a.inst_name, b.inst_name, 32) == 0; }

static bool same_shape(const WOPNFile *a, const WOPNFile *b, Diff &d)
{
    if(a->banks_count_melodic != b->banks_count_melodic) d.set("banks_count_melodic", vfmt("melodic banks %u -> %u", a->banks_count_melodic, b->banks_count_melodic));
    if(a->banks_count_percussion != b->banks_count_percussion) d.set("banks_count_percussion", vfmt("percussion banks %u -> %u", a->banks_count_percussion, b->banks_count_percussion));
    return a->banks_count_melodic == b->banks_count_melodic && a->banks_count_percussion == b->banks_count_percussion;
}

// x -> y = load(save(x, v)): every field version v stores must be equal. Blank flag / delays of entries the
// version-2 format cannot represent are left to the fixed-point check.
static void cmp_roundtrip(const WOPNFile *x, const WOPNFile *y, int v, Diff &d)
{
    if(y->version != v) d.set("version", vfmt("saved as version %d, loaded value says version %u", v, y->version));
    if(!same_shape(x, y, d)) return;
    if(x->lfo_freq != y->lfo_freq) d.set("lfo_freq", vfmt("lfo_freq %02x -> %02x", x->lfo_freq, y->lfo_freq));
    if(v >= 2 && x->chip_type != y->chip_type) d.set("chip_type", vfmt("chip_type %u -> %u", x->chip_type, y->chip_type));
    for(int s = 0; s < 2; s++)
    {
        const WOPNBank *xb = s ? x->banks_percussive : x->banks_melodic, *yb = s ? y->banks_percussive : y->banks_melodic;
        unsigned n = s ? x->banks_count_percussion : x->banks_count_melodic;
        for(unsigned j = 0; j < n && !d.any; j++)
        {
            std::string wb = vfmt("%s bank %u", s ? "percussion" : "melodic", j);
            if(v >= 2)
            {
                if(!cstr_eq(xb[j].bank_name, yb[j].bank_name, 33))
                    d.set("bank_name", wb + " name " + cstr_show(xb[j].bank_name, 33) + " -> " + cstr_show(yb[j].bank_name, 33));
                if(xb[j].bank_midi_lsb != yb[j].bank_midi_lsb) d.set("bank_midi_lsb", wb + vfmt(" lsb %u -> %u", xb[j].bank_midi_lsb, yb[j].bank_midi_lsb));
                if(xb[j].bank_midi_msb != yb[j].bank_midi_msb) d.set("bank_midi_msb", wb + vfmt(" msb %u -> %u", xb[j].bank_midi_msb, yb[j].bank_midi_msb));
            }
            for(int i = 0; i < 128 && !d.any; i++)
            {
                const WOPNInstrument &a = xb[j].ins[i], &b = yb[j].ins[i];
                std::string wi = wb + vfmt(" ins %d", i);
                cmp_ins_core(a, b, wi, d);
                if(v >= 2)
                {
                    bool blank = (a.inst_flags & WOPN_Ins_IsBlank) != 0, zero = a.delay_on_ms == 0 && a.delay_off_ms == 0;
                    if(blank == zero)
                    {   // representable: blank with null delays, or sounding with a non-null delay
                        bool bblank = (b.inst_flags & WOPN_Ins_IsBlank) != 0;
                        if(bblank != blank) d.set("blank_flag", wi + vfmt(" blank %d -> %d (delays %u/%u -> %u/%u)", blank, bblank, a.delay_on_ms, a.delay_off_ms, b.delay_on_ms, b.delay_off_ms));
                        if(a.delay_on_ms != b.delay_on_ms) d.set("delay_on_ms", wi + vfmt(" delay_on %u -> %u", a.delay_on_ms, b.delay_on_ms));
                        if(a.delay_off_ms != b.delay_off_ms) d.set("delay_off_ms", wi + vfmt(" delay_off %u -> %u", a.delay_off_ms, b.delay_off_ms));
                        cover(vfmt("rt-ins|v2|representable|blank%d", blank));
                    }
                    else
                        cover(vfmt("rt-ins|v2|unrepresentable|blank%d|reads-back-blank%d-zero%d", blank, (b.inst_flags & WOPN_Ins_IsBlank) != 0, b.delay_on_ms == 0 && b.delay_off_ms == 0));
                }
            }
        }
    }
}

// identity of two values (names as C strings); name_bytes_equal reports whether the character arrays also agree bytewise
static void cmp_identity(const WOPNFile *a, const WOPNFile *b, Diff &d, bool &name_bytes_equal, bool exempt_blank_flag = false)
{
    name_bytes_equal = true;
    if(a->version != b->version) d.set("version", vfmt("version %u -> %u", a->version, b->version));
    if(!same_shape(a, b, d)) return;
    if(a->lfo_freq != b->lfo_freq) d.set("lfo_freq", vfmt("lfo_freq %02x -> %02x", a->lfo_freq, b->lfo_freq));
    if(a->chip_type != b->chip_type) d.set("chip_type", vfmt("chip_type %u -> %u", a->chip_type, b->chip_type));
    if(a->volume_model != b->volume_model) d.set("volume_model", vfmt("volume_model %u -> %u", a->volume_model, b->volume_model));
    for(int s = 0; s < 2; s++)
    {
        const WOPNBank *ab = s ? a->banks_percussive : a->banks_melodic, *bb = s ? b->banks_percussive : b->banks_melodic;
        unsigned n = s ? a->banks_count_percussion : a->banks_count_melodic;
        for(unsigned j = 0; j < n; j++)
        {
            std::string wb = vfmt("%s bank %u", s ? "percussion" : "melodic", j);
            if(!cstr_eq(ab[j].bank_name, bb[j].bank_name, 33)) d.set("bank_name", wb + " name " + cstr_show(ab[j].bank_name, 33) + " -> " + cstr_show(bb[j].bank_name, 33));
            if(memcmp(ab[j].bank_name, bb[j].bank_name, 33)) name_bytes_equal = false;
            if(ab[j].bank_midi_lsb != bb[j].bank_midi_lsb) d.set("bank_midi_lsb", wb + vfmt(" lsb %u -> %u", ab[j].bank_midi_lsb, bb[j].bank_midi_lsb));
            if(ab[j].bank_midi_msb != bb[j].bank_midi_msb) d.set("bank_midi_msb", wb + vfmt(" msb %u -> %u", ab[j].bank_midi_msb, bb[j].bank_midi_msb));
            for(int i = 0; i < 128; i++)
            {
                std::string wi = wb + vfmt(" ins %d", i);
                if(exempt_blank_flag)
                {
                    WOPNInstrument t = ab[j].ins[i];
                    t.inst_flags = (uint8_t)((t.inst_flags & ~WOPN_Ins_IsBlank) | (bb[j].ins[i].inst_flags & WOPN_Ins_IsBlank));
                    cmp_ins_all(t, bb[j].ins[i], wi, d);
                }
                else
                    cmp_ins_all(ab[j].ins[i], bb[j].ins[i], wi, d);
                if(!ins_name_bytes_equal(ab[j].ins[i], bb[j].ins[i])) name_bytes_equal = false;
            }
        }
    }
}

// WOPN_BanksCmp against the field-wise comparison. Both operands have zeroed struct padding (calloc'ed by
// WOPN_Init and only ever written member by member), so "all members equal bytewise" must give 1 and "some
// member differs in value" must give 0; values whose names agree as C strings but not bytewise are left open.
static void check_bankscmp(Case &c, const WOPNFile *a, const WOPNFile *b, const char *what)
{
    Diff d; bool nbe = true;
    cmp_identity(a, b, d, nbe);
    int r = -1;
    API("WOPN_BanksCmp", r = WOPN_BanksCmp(a, b));
    count("bankscmp_evaluations");
    if(d.any) { cover(std::string("bankscmp|different|") + what); if(r != 0) viol(c, std::string("oracle:C15:BanksCmp-says-equal-for-different-values:") + what, vfmt("WOPN_BanksCmp returned %d although ", r) + d.detail); }
    else if(nbe) { cover(std::string("bankscmp|equal|") + what); if(r != 1) viol(c, std::string("oracle:C15:BanksCmp-says-different-for-equal-values:") + what, vfmt("WOPN_BanksCmp returned %d for values whose members are all equal", r)); }
    else cover(std::string("bankscmp|equal-as-strings-only|") + what + vfmt("|r%d", r));
}

// ------------------------------------------------------------------------------------------------
// library wrappers
// ------------------------------------------------------------------------------------------------
static bool valid_error_code(int e) { return e >= WOPN_ERR_BAD_MAGIC && e <= WOPN_ERR_NULL_POINTER; }

static WOPNFile *load_exact(const uint8_t *p, size_t n, int *err)
{
    ExactBuf b(p, n);
    WOPNFile *f = NULL;
    *err = -12345;
    API("WOPN_LoadBankFromMem", f = WOPN_LoadBankFromMem(b.p, b.n, err));
    return f;
}

// save `f` as version `ver` (the number the caller passes; 0 = "latest") into exactly the calculated size, once
// with a canary region and once as an exact-size block; returns the image (empty on failure)
static Bytes save_checked(Case &c, WOPNFile *f, unsigned ver, const std::string &tag)
{
    size_t size = 0;
    API("WOPN_CalculateBankFileSize", size = WOPN_CalculateBankFileSize(f, (uint16_t)ver));
    if(size == 0) { viol(c, "oracle:C15:calculated-size-zero:bank:" + tag, "WOPN_CalculateBankFileSize returned 0"); return Bytes(); }
    int rc = -1;
    {
        Block g(size, GUARD);
        API("WOPN_SaveBankToMem", rc = WOPN_SaveBankToMem(f, g.p, size, (uint16_t)ver, 0));
        if(rc != WOPN_ERR_OK) viol(c, "oracle:C15:save-into-calculated-size-failed:bank:" + tag, vfmt("WOPN_SaveBankToMem(length=%zu = calculated size, %u+%u banks) returned %d", size, f->banks_count_melodic, f->banks_count_percussion, rc));
        long dmg = g.first_damaged();
        if(dmg >= 0) viol(c, "oracle:C15:write-beyond-size:bank:" + tag, vfmt("byte %ld behind the %zu-byte destination was overwritten (rc %d)", dmg, size, rc));
        count("canary_checks");
    }
    Block e(size, 0);
    API("WOPN_SaveBankToMem", rc = WOPN_SaveBankToMem(f, e.p, size, (uint16_t)ver, 0));
    count("saves_exact_block");
    if(rc != WOPN_ERR_OK) return Bytes();
    return Bytes(e.p, e.p + size);
}

// destinations shorter than `size`: each must be refused and nothing at or beyond `length` may be written
static void undersized_bank(Case &c, WOPNFile *f, int v, size_t size, bool all)
{
    unsigned m = f->banks_count_melodic, p = f->banks_count_percussion;
    std::vector<size_t> Ls;
    if(all) for(size_t L = 0; L < size; L++) Ls.push_back(L);
    else
    {
        std::set<size_t> S;
        size_t h = spec_bank_header(v), meta = v >= 2 ? 34u * (m + p) : 0u, isz = spec_ins_size(v) * 128u;
        size_t marks[] = {0, 1, 10, 11, 12, 13, 14, 15, 16, 17, 18, h, h + 34, h + 34u * m, h + meta, h + meta + isz, h + meta + isz * m, h + meta + isz * m + isz, spec_bank_size(v, m, p), size};
        for(size_t i = 0; i < sizeof(marks) / sizeof(marks[0]); i++)
            for(int dlt = -3; dlt <= 2; dlt++) { long L = (long)marks[i] + dlt; if(L >= 0 && (size_t)L < size) S.insert((size_t)L); }
        int extra = size > 200000 ? 16 : 60;
        for(int i = 0; i < extra; i++) S.insert(c.rng.below((uint32_t)size));
        for(int i = 0; i < 12; i++) S.insert(size - 1 - c.rng.below((uint32_t)std::min<size_t>(size, 70)));
        Ls.assign(S.begin(), S.end());
    }
    long accepted = -1, damaged = -1; int arc = 0;
    std::set<std::string> cov;
    for(size_t q = 0; q < Ls.size(); q++)
    {
        size_t L = Ls[q];
        bool exact = !all ? (q & 1) != 0 : (L % 7) == 3;     // alternate: canary behind `length` / bare exact-size block
        Block b(L, exact ? 0 : GUARD, false);
        int rc = -1;
        API("WOPN_SaveBankToMem", rc = WOPN_SaveBankToMem(f, b.p, L, (uint16_t)v, 0));
        // "too small" = smaller than the image needs (layout of the specification); a size calculator that over-reports
        // (version 1: +2 bytes) leaves lengths in [needed, calculated) which are not too small: three-valued, counted
        if(rc == WOPN_ERR_OK && L >= spec_bank_size(v, m, p)) count("destinations_between_needed_and_calculated_size_accepted");
        if(rc == WOPN_ERR_OK && accepted < 0 && L < spec_bank_size(v, m, p)) { accepted = (long)L; arc = rc; }
        if(!exact && b.first_damaged() >= 0 && damaged < 0) damaged = (long)L;
        cov.insert(vfmt("undersized|bank|v%d|%s|%s|rc%d", v, bank_region(v, m, p, L), exact ? "exact" : "canary", rc));
        if(rc != WOPN_ERR_OK && !valid_error_code(rc)) viol(c, vfmt("oracle:C15:undersized-destination-unknown-error-code:bank:v%d", v), vfmt("length %zu of %zu: returned %d", L, size, rc));
    }
    count("undersized_destinations", (long long)Ls.size());
    for(std::set<std::string>::iterator i = cov.begin(); i != cov.end(); ++i) cover(*i);
    if(accepted >= 0)
        viol(c, vfmt("oracle:C15:undersized-destination-accepted:bank:v%d", v),
             vfmt("WOPN_SaveBankToMem(version %d, %u+%u banks) returned %d for length %ld < calculated size %zu (layout of the specification needs %zu bytes)", v, m, p, arc, accepted, size, spec_bank_size(v, m, p)));
    if(damaged >= 0)
        viol(c, vfmt("oracle:C15:write-beyond-length:bank:v%d", v), vfmt("destination length %ld of %zu: canary behind the destination overwritten", damaged, size));
}

// ------------------------------------------------------------------------------------------------
// stage `values`
// ------------------------------------------------------------------------------------------------
static void mutate_one_field(Rng &r, WOPNFile *f, std::string &what)
{
    unsigned m = f->banks_count_melodic, p = f->banks_count_percussion;
    bool perc = r.below(m + p) >= m;
    WOPNBank &b = perc ? f->banks_percussive[r.below(p)] : f->banks_melodic[r.below(m)];
    WOPNInstrument &in = b.ins[r.chance(0.2) ? (r.chance(0.5) ? 0 : 127) : r.below(128)];
    switch(r.below(12))
    {
    case 0: f->lfo_freq ^= 1; what = "lfo_freq"; break;
    case 1: f->chip_type ^= 1; what = "chip_type"; break;
    case 2: b.bank_midi_lsb ^= 0x40; what = "bank_midi_lsb"; break;
    case 3: b.bank_midi_msb ^= 0x01; what = "bank_midi_msb"; break;
    case 4: b.bank_name[0] = (char)(b.bank_name[0] == 'x' ? 'y' : 'x'); what = "bank_name"; break;
    case 5: in.inst_name[0] = (char)(in.inst_name[0] == 'x' ? 'y' : 'x'); what = "inst_name"; break;
    case 6: in.note_offset = (int16_t)(in.note_offset ^ 0x100); what = "note_offset"; break;
    case 7: in.percussion_key_number ^= 0x80; what = "percussion_key_number"; break;
    case 8: in.operators[r.below(4)].ssgeg_90 ^= 0x08; what = "operators"; break;
    case 9: in.delay_off_ms = (uint16_t)(in.delay_off_ms ^ 0x8000); what = "delay_off_ms"; break;
    case 10: in.inst_flags ^= WOPN_Ins_IsBlank; what = "inst_flags"; break;
    default: in.lfosens ^= 0x10; what = "lfosens"; break;
    }
}

static void run_values(Case &c)
{
    Rng &r = c.rng;
    unsigned m, p; pick_counts(r, m, p);
    bool sweep_all = (m + p == 2) && r.chance(g_w.optnum("sweep_pct", 12) / 100.0);
    ValueInfo vi;
    WOPNFile *x = gen_value(r, m, p, vi);
    if(!x) { c.inconclusive = true; return; }
    const char *szc = (m + p) <= 2 ? "2" : (m + p) <= 6 ? "3-6" : (m + p) <= 16 ? "7-16" : (m == 64 || p == 64) ? "64" : "17+";
    int vfirst = r.below(2);
    for(int vv = 0; vv < 2; vv++)
    {
        int v = 1 + ((vfirst + vv) & 1);
        std::string tag = vfmt("v%d", v);
        // the value's own version tag is a member like any other (0 = never set, 1 / 2 = where it was loaded from): the format that is
        // written is the one the caller asks for
        x->version = (uint16_t)(r.chance(0.5) ? v : (int)r.below(3));
        cover(vfmt("values|own-tag%u|saved-as-v%d", x->version, v));
        size_t size = 0;
        API("WOPN_CalculateBankFileSize", size = WOPN_CalculateBankFileSize(x, (uint16_t)v));
        Bytes img = save_checked(c, x, (unsigned)v, tag);
        if(img.empty()) continue;
        cover(vfmt("values|v%d|banks%s|size-vs-spec%+ld", v, szc, (long)size - (long)spec_bank_size(v, m, p)));
        int err = 0;
        WOPNFile *y = load_exact(img.data(), img.size(), &err);
        if(!y) { viol(c, "oracle:C15:saved-image-rejected:bank:" + tag, vfmt("WOPN_LoadBankFromMem of the %zu bytes just saved failed with error %d", img.size(), err)); continue; }
        c.nontrivial = true;
        Diff d;
        cmp_roundtrip(x, y, v, d);
        count("roundtrip_comparisons");
        if(d.any) viol(c, "oracle:C15:roundtrip-field-differs:bank:" + tag + ":" + d.field, vfmt("%u+%u banks, version %d: ", m, p, v) + d.detail);
        check_bankscmp(c, x, y, "value-vs-reloaded");
        check_bankscmp(c, x, x, "self");
        // fixed point: one more trip must change nothing at all
        y->version = (uint16_t)v;
        Bytes img2 = save_checked(c, y, (unsigned)v, tag);
        if(!img2.empty())
        {
            WOPNFile *z = load_exact(img2.data(), img2.size(), &err);
            if(!z) viol(c, "oracle:C15:saved-image-rejected:bank:" + tag, vfmt("second trip: load failed with error %d", err));
            else
            {
                Diff d2; bool nbe;
                cmp_identity(y, z, d2, nbe);
                count("fixed_point_comparisons");
                if(d2.any) viol(c, "oracle:C15:no-fixed-point-after-one-roundtrip:bank:" + tag + ":" + d2.field, d2.detail);
                check_bankscmp(c, y, z, "reloaded-vs-reloaded-twice");
                std::string what; mutate_one_field(r, z, what);
                check_bankscmp(c, y, z, "one-member-changed");
                cover("bankscmp-mutated|" + what);
                API("WOPN_Free", WOPN_Free(z));
            }
        }
        undersized_bank(c, x, v, size, sweep_all);
        if(sweep_all) cover(vfmt("undersized-sweep-all|v%d", v));
        API("WOPN_Free", WOPN_Free(y));
    }
    c.sig = vfmt("values|%u|%u|dirty%d|unrep%d", m, p, vi.dirty_names, vi.unrepresentable_common);
    c.sample(vfmt("{\"stage\":\"values\",\"melodic_banks\":%u,\"percussion_banks\":%u,\"all_lengths_swept\":%d,\"names_with_bytes_after_nul\":%d}", m, p, sweep_all, vi.dirty_names));
    API("WOPN_Free", WOPN_Free(x));
}

// ------------------------------------------------------------------------------------------------
// stage `bytes`: own serializer of the on-disk layout + mutations
// ------------------------------------------------------------------------------------------------
static void disk_name32(Rng &r, Bytes &out, std::string &cls)
{
    uint8_t n[32];
    int k = r.below(8);
    if(k == 0) { memset(n, 0, 32); cls = "empty"; }
    else if(k == 1) { for(int i = 0; i < 32; i++) n[i] = g_namechar(r); cls = "unterminated"; }
    else if(k == 2) { for(int i = 0; i < 31; i++) n[i] = g_namechar(r); n[31] = 0; cls = "len31"; }
    else if(k == 3) { int l = r.range(0, 30); for(int i = 0; i < 32; i++) n[i] = i < l ? g_namechar(r) : (i == l ? 0 : r.byte()); cls = "dirty"; }
    else if(k == 4) { for(int i = 0; i < 32; i++) n[i] = (uint8_t)r.range(0x80, 0xFF); cls = "unterminated-high"; }
    else { int l = r.range(1, 30); for(int i = 0; i < 32; i++) n[i] = i < l ? g_namechar(r) : 0; cls = "clean"; }
    out.insert(out.end(), n, n + 32);
}

static void disk_instrument(Rng &r, Bytes &out, bool with_delays, std::set<std::string> &cls)
{
    std::string nc; disk_name32(r, out, nc); cls.insert("ins-name-" + nc);
    put_be(out, g_u16(r), 2);
    for(int i = 0; i < 3 + 28; i++) out.push_back(g_byte(r));
    if(with_delays)
    {
        int k = r.below(5);
        uint16_t on = k == 0 || k == 1 ? 0 : g_u16(r), off = k == 0 || k == 2 ? 0 : g_u16(r);
        put_be(out, on, 2); put_be(out, off, 2);
        cls.insert(vfmt("ins-delays-%s%s", on ? "n" : "z", off ? "n" : "z"));
    }
}

static Bytes gen_bank_bytes(Rng &r, std::string &desc)
{
    Bytes b; std::set<std::string> cls;
    int hk = r.below(20);
    int fv;           // layout version
    unsigned vercode = 2; bool magic2 = true;
    if(hk < 5) { magic2 = false; fv = 1; }
    else if(hk < 15) { vercode = 2; fv = 2; }
    else if(hk < 17) { vercode = 1; fv = 1; }
    else if(hk < 19) { vercode = 0; fv = 1; }
    else { vercode = r.chance(0.5) ? 3 : (unsigned)r.pick((const int[]){0xFFFF, 0x0200, 0x0100, 4}); fv = 2; }
    unsigned m, p;
    int ck = r.below(10);
    if(ck == 0) { m = 0; p = (unsigned)r.range(1, 2); }
    else if(ck == 1) { m = (unsigned)r.range(1, 2); p = 0; }
    else if(ck == 2) { m = 0; p = 0; }
    else if(ck < 8) { m = 1; p = 1; }
    else { m = (unsigned)r.range(1, 4); p = (unsigned)r.range(1, 4); }
    put_str(b, magic2 ? "WOPN2-B2NK" : "WOPN2-BANK"); b.push_back(0);
    if(magic2) put_le(b, vercode, 2);
    put_be(b, m, 2); put_be(b, p, 2);
    b.push_back(r.chance(0.5) ? (uint8_t)r.below(32) : r.byte());
    if(fv >= 2)
        for(unsigned j = 0; j < m + p; j++) { std::string nc; disk_name32(r, b, nc); cls.insert("bank-name-" + nc); b.push_back(g_byte(r)); b.push_back(g_byte(r)); }
    for(unsigned j = 0; j < (m + p) * 128; j++) disk_instrument(r, b, fv >= 2, cls);
    desc = vfmt("own|%s|ver%u|m%u|p%u", magic2 ? "B2NK" : "BANK", vercode > 3 ? 9 : vercode, m, p);
    for(std::set<std::string>::iterator i = cls.begin(); i != cls.end(); ++i) cover("bytes-gen|" + *i);
    return b;
}

static void mutate_bytes(Rng &r, Bytes &b, std::string &desc)
{
    int k = r.below(20);
    if(k < 9) { desc += "|intact"; return; }
    if(k < 14) { int n = r.range(1, 8); for(int i = 0; i < n && !b.empty(); i++) { size_t pos = r.chance(0.3) ? r.below((uint32_t)std::min<size_t>(b.size(), 24)) : r.below((uint32_t)b.size()); b[pos] = r.byte(); } desc += "|bytes-changed"; return; }
    if(k < 16) { int n = r.range(1, 100); for(int i = 0; i < n; i++) b.push_back(r.byte()); desc += "|trailing-bytes"; return; }
    if(k < 18) { size_t cut = r.chance(0.5) ? b.size() - 1 - r.below((uint32_t)std::min<size_t>(b.size() - 1, 80)) : r.below((uint32_t)b.size()); b.resize(cut); desc += "|truncated"; return; }
    if(k < 19 && b.size() > 17) { size_t pos = (b[7] == '2' ? 13 : 11) + 2 * r.below(2); b[pos] = 0; b[pos + 1] = (uint8_t)(b[pos + 1] + 1); desc += "|count-raised"; return; }
    if(b.size() > 17) { size_t pos = (b[7] == '2' ? 13 : 11) + 2 * r.below(2); b[pos] = 0; b[pos + 1] = 0; desc += "|count-zeroed"; return; }   // data behind the instruments becomes trailing bytes
    desc += "|intact";
}

static void run_bytes(Case &c)
{
    Rng &r = c.rng;
    std::string desc;
    Bytes b;
    if(r.chance(0.2))
    {   // an image written by the library, then mutated
        unsigned m = (unsigned)r.range(1, 2), p = (unsigned)r.range(1, 2); ValueInfo vi;
        WOPNFile *x = gen_value(r, m, p, vi);
        if(!x) { c.inconclusive = true; return; }
        int v = r.range(1, 2); x->version = (uint16_t)(r.chance(0.5) ? v : (int)r.below(3));
        size_t size = WOPN_CalculateBankFileSize(x, (uint16_t)v);
        Block e(size, 0);
        int rc = -1; API("WOPN_SaveBankToMem", rc = WOPN_SaveBankToMem(x, e.p, size, (uint16_t)v, 0));
        API("WOPN_Free", WOPN_Free(x));
        if(rc != WOPN_ERR_OK) { c.inconclusive = true; return; }
        b.assign(e.p, e.p + std::min(size, spec_bank_size(v, m, p)));
        desc = vfmt("lib|v%d|m%u|p%u", v, m, p);
    }
    else b = gen_bank_bytes(r, desc);
    mutate_bytes(r, b, desc);

    int err = 0;
    WOPNFile *x1 = load_exact(b.data(), b.size(), &err);
    count("byte_strings_offered");
    if(!x1)
    {
        cover("bytes|" + desc + vfmt("|rejected-%d", err));
        if(!valid_error_code(err)) viol(c, "oracle:C15:load-refused-without-error-code:bank", vfmt("WOPN_LoadBankFromMem returned NULL and error %d for ", err) + hexs(b, 24));
        c.sig = "rejected";
        return;
    }
    c.nontrivial = true;
    count("byte_strings_accepted");
    unsigned ver = x1->version;
    std::string tag = vfmt("file-version-%u", ver);
    cover("bytes|" + desc + "|accepted|" + tag);
    // save the loaded value the way it describes itself, load again
    Bytes img = save_checked(c, x1, ver, "reload:" + tag);
    if(!img.empty())
    {
        WOPNFile *x2 = load_exact(img.data(), img.size(), &err);
        if(!x2) viol(c, "oracle:C15:saved-image-rejected:bank:reload:" + tag, vfmt("image saved from an accepted byte string is refused with error %d", err));
        else
        {
            // A version-1 image cannot say "blank" (the statement lists that as dropped by the format), so for values that
            // describe themselves as version 1 the flag is left out here and must instead be stable from then on.
            bool exempt = ver == 1;
            Diff d; bool nbe;
            cmp_identity(x1, x2, d, nbe, exempt);
            count("reload_comparisons");
            if(d.any)
                viol(c, "oracle:C15:reload-not-identity:bank:" + tag + ":" + d.field,
                     "load(save(load(b))) != load(b) for accepted b = " + hexs(b, 20) + vfmt(" (%zu bytes, %s; saved with version argument %u as %zu bytes): ", b.size(), desc.c_str(), ver, img.size()) + d.detail);
            if(!exempt) check_bankscmp(c, x1, x2, "loaded-vs-reloaded");
            // stability after that trip
            Bytes img3 = save_checked(c, x2, x2->version, "reload2:" + tag);
            if(!img3.empty())
            {
                WOPNFile *x3 = load_exact(img3.data(), img3.size(), &err);
                if(!x3) viol(c, "oracle:C15:saved-image-rejected:bank:reload2:" + tag, vfmt("error %d", err));
                else
                {
                    Diff d3; bool nbe3;
                    cmp_identity(x2, x3, d3, nbe3);
                    if(d3.any) viol(c, "oracle:C15:no-fixed-point-after-one-roundtrip:bank:reload:" + tag + ":" + d3.field, d3.detail);
                    check_bankscmp(c, x2, x3, "reloaded-vs-reloaded-twice");
                    API("WOPN_Free", WOPN_Free(x3));
                }
            }
            API("WOPN_Free", WOPN_Free(x2));
        }
    }
    // the loaded value is a value too: the other version must at least reach a fixed point, and short destinations are refused
    if(r.chance(0.3))
    {
        int v = ver == 2 ? 1 : 2;
        x1->version = (uint16_t)v;
        Bytes i2 = save_checked(c, x1, (unsigned)v, vfmt("v%d", v));
        if(!i2.empty())
        {
            WOPNFile *y = load_exact(i2.data(), i2.size(), &err);
            if(!y) viol(c, vfmt("oracle:C15:saved-image-rejected:bank:v%d", v), vfmt("error %d", err));
            else
            {
                Diff d; cmp_roundtrip(x1, y, v, d);
                if(d.any) viol(c, vfmt("oracle:C15:roundtrip-field-differs:bank:v%d:", v) + d.field, "value loaded from a byte string: " + d.detail);
                Bytes i3 = save_checked(c, y, (unsigned)v, vfmt("v%d", v));
                WOPNFile *z = i3.empty() ? NULL : load_exact(i3.data(), i3.size(), &err);
                if(z) { Diff d2; bool nbe; cmp_identity(y, z, d2, nbe); if(d2.any) viol(c, vfmt("oracle:C15:no-fixed-point-after-one-roundtrip:bank:v%d:", v) + d2.field, d2.detail); API("WOPN_Free", WOPN_Free(z)); }
                API("WOPN_Free", WOPN_Free(y));
            }
        }
        x1->version = (uint16_t)ver;
    }
    c.sig = desc + "|" + tag;
    c.sample("{\"stage\":\"bytes\",\"input\":" + jstr(desc) + ",\"head\":" + jstr(hexs(b, 24)) + vfmt(",\"length\":%zu,\"loaded_version\":%u,\"melodic\":%u,\"percussion\":%u}", b.size(), ver, x1->banks_count_melodic, x1->banks_count_percussion));
    API("WOPN_Free", WOPN_Free(x1));
}

// ------------------------------------------------------------------------------------------------
// stage `inst`: single-instrument files
// ------------------------------------------------------------------------------------------------
struct HeapInst
{   // OPNIFile in a heap block of exactly sizeof(OPNIFile), zero-filled as a caller's `OPNIFile f = {0}` would be
    OPNIFile *f;
    HeapInst() { f = (OPNIFile *)malloc(sizeof(OPNIFile)); memset(f, 0, sizeof(OPNIFile)); }
    ~HeapInst() { free(f); }
private:
    HeapInst(const HeapInst &); HeapInst &operator=(const HeapInst &);
};

static void cmp_inst_identity(const OPNIFile *a, const OPNIFile *b, Diff &d)
{
    if(a->version != b->version) d.set("version", vfmt("version %u -> %u", a->version, b->version));
    if(a->is_drum != b->is_drum) d.set("is_drum", vfmt("is_drum %u -> %u", a->is_drum, b->is_drum));
    cmp_ins_all(a->inst, b->inst, "instrument", d);
}

static Bytes save_inst_checked(Case &c, OPNIFile *f, unsigned ver, const std::string &tag)
{
    size_t size = 0;
    API("WOPN_CalculateInstFileSize", size = WOPN_CalculateInstFileSize(f, (uint16_t)ver));
    if(size == 0) { viol(c, "oracle:C15:calculated-size-zero:inst:" + tag, "WOPN_CalculateInstFileSize returned 0"); return Bytes(); }
    int rc = -1;
    {
        Block g(size, GUARD);
        API("WOPN_SaveInstToMem", rc = WOPN_SaveInstToMem(f, g.p, size, (uint16_t)ver));
        if(rc != WOPN_ERR_OK) viol(c, "oracle:C15:save-into-calculated-size-failed:inst:" + tag, vfmt("WOPN_SaveInstToMem(length=%zu = calculated size) returned %d", size, rc));
        long dmg = g.first_damaged();
        if(dmg >= 0) viol(c, "oracle:C15:write-beyond-size:inst:" + tag, vfmt("byte %ld behind the %zu-byte destination was overwritten", dmg, size));
        count("canary_checks");
    }
    Block e(size, 0);
    API("WOPN_SaveInstToMem", rc = WOPN_SaveInstToMem(f, e.p, size, (uint16_t)ver));
    count("saves_exact_block");
    if(rc != WOPN_ERR_OK) return Bytes();
    return Bytes(e.p, e.p + size);
}

static int load_inst_exact(OPNIFile *dst, const uint8_t *p, size_t n)
{
    ExactBuf b(p, n);
    int rc = -1;
    API("WOPN_LoadInstFromMem", rc = WOPN_LoadInstFromMem(dst, b.p, b.n));
    return rc;
}

static void undersized_inst(Case &c, OPNIFile *f, int v, size_t size)
{
    long accepted = -1, damaged = -1;
    for(size_t L = 0; L < size; L++)
        for(int exact = 0; exact < 2; exact++)
        {
            Block b(L, exact ? 0 : GUARD, false);
            int rc = -1;
            API("WOPN_SaveInstToMem", rc = WOPN_SaveInstToMem(f, b.p, L, (uint16_t)v));
            if(rc == WOPN_ERR_OK && accepted < 0 && L < spec_inst_size(v)) accepted = (long)L;
            if(!exact && b.first_damaged() >= 0 && damaged < 0) damaged = (long)L;
            if(rc != WOPN_ERR_OK && !valid_error_code(rc)) viol(c, vfmt("oracle:C15:undersized-destination-unknown-error-code:inst:v%d", v), vfmt("length %zu: returned %d", L, rc));
            cover(vfmt("undersized|inst|v%d|%s|%s|rc%d", v, L < 11 ? "magic" : L < spec_inst_size(v) - 65 ? "header" : "entry", exact ? "exact" : "canary", rc));
        }
    count("undersized_destinations", (long long)size * 2);
    if(accepted >= 0) viol(c, vfmt("oracle:C15:undersized-destination-accepted:inst:v%d", v), vfmt("WOPN_SaveInstToMem(version %d) returned 0 for length %ld < calculated size %zu (specification: %zu bytes)", v, accepted, size, spec_inst_size(v)));
    if(damaged >= 0) viol(c, vfmt("oracle:C15:write-beyond-length:inst:v%d", v), vfmt("destination length %ld of %zu: canary behind the destination overwritten", damaged, size));
}

static void run_inst(Case &c)
{
    Rng &r = c.rng;
    if(r.chance(0.5))
    {   // values
        HeapInst x;
        InsClass k = gen_instrument(r, x.f->inst);
        x.f->is_drum = r.chance(0.9) ? (uint8_t)r.below(2) : g_byte(r);
        for(int v = 1; v <= 2; v++)
        {
            std::string tag = vfmt("v%d", v);
            x.f->version = (uint16_t)(r.chance(0.5) ? v : (int)r.below(3));
            size_t size = 0; API("WOPN_CalculateInstFileSize", size = WOPN_CalculateInstFileSize(x.f, (uint16_t)v));
            Bytes img = save_inst_checked(c, x.f, (unsigned)v, tag);
            if(img.empty()) continue;
            cover(vfmt("inst-values|v%d|size-vs-spec%+ld|namelen%s|dirty%d", v, (long)size - (long)spec_inst_size(v), k.namelen == 0 ? "0" : k.namelen == 32 ? "32-unterminated" : k.namelen == 31 ? "31" : "mid", k.dirty_name));
            HeapInst y;
            int rc = load_inst_exact(y.f, img.data(), img.size());
            if(rc != WOPN_ERR_OK) { viol(c, "oracle:C15:saved-image-rejected:inst:" + tag, vfmt("WOPN_LoadInstFromMem of the %zu bytes just saved returned %d", img.size(), rc)); continue; }
            c.nontrivial = true;
            Diff d;   // the single-instrument format stores neither delays nor flags (specification section 1/2)
            if(y.f->version != v) d.set("version", vfmt("saved as version %d, loaded value says %u", v, y.f->version));
            if(y.f->is_drum != x.f->is_drum) d.set("is_drum", vfmt("is_drum %u -> %u", x.f->is_drum, y.f->is_drum));
            cmp_ins_core(x.f->inst, y.f->inst, "instrument", d);
            count("roundtrip_comparisons");
            if(d.any) viol(c, "oracle:C15:roundtrip-field-differs:inst:" + tag + ":" + d.field, d.detail);
            Bytes img2 = save_inst_checked(c, y.f, (unsigned)v, tag);
            if(!img2.empty())
            {
                HeapInst z;
                rc = load_inst_exact(z.f, img2.data(), img2.size());
                if(rc != WOPN_ERR_OK) viol(c, "oracle:C15:saved-image-rejected:inst:" + tag, vfmt("second trip returned %d", rc));
                else { Diff d2; cmp_inst_identity(y.f, z.f, d2); count("fixed_point_comparisons"); if(d2.any) viol(c, "oracle:C15:no-fixed-point-after-one-roundtrip:inst:" + tag + ":" + d2.field, d2.detail); }
            }
            undersized_inst(c, x.f, v, size);
        }
        c.sig = "inst-values";
        c.sample(vfmt("{\"stage\":\"inst\",\"kind\":\"value\",\"name_length\":%zu,\"is_drum\":%u}", k.namelen, x.f->is_drum));
        return;
    }
    // byte strings
    Bytes b; std::set<std::string> cls; std::string desc;
    int hk = r.below(20);
    unsigned vercode = 2; bool magic2 = true;
    if(hk < 6) magic2 = false;
    else if(hk < 14) vercode = 2;
    else if(hk < 16) vercode = 1;
    else if(hk < 18) vercode = 0;
    else vercode = (unsigned)r.pick((const int[]){3, 0xFFFF, 0x0200, 4});
    put_str(b, magic2 ? "WOPN2-IN2T" : "WOPN2-INST"); b.push_back(0);
    if(magic2) put_le(b, vercode, 2);
    b.push_back(r.chance(0.8) ? (uint8_t)r.below(2) : r.byte());
    disk_instrument(r, b, false, cls);
    desc = vfmt("%s|ver%u", magic2 ? "IN2T" : "INST", vercode > 3 ? 9 : vercode);
    int mk = r.below(10);
    if(mk == 0) { b.resize(r.below((uint32_t)b.size())); desc += "|truncated"; }
    else if(mk == 1) { b.resize(b.size() - 1); desc += "|one-short"; }
    else if(mk == 2) { int n = r.chance(0.5) ? 4 : r.range(1, 40); for(int i = 0; i < n; i++) b.push_back(r.byte()); desc += "|trailing-bytes"; }
    else if(mk == 3) { b[r.below((uint32_t)b.size())] = r.byte(); desc += "|byte-changed"; }
    else desc += "|intact";
    for(std::set<std::string>::iterator i = cls.begin(); i != cls.end(); ++i) cover("inst-bytes-gen|" + *i);

    HeapInst x1;
    int rc = load_inst_exact(x1.f, b.data(), b.size());
    count("byte_strings_offered");
    if(rc != WOPN_ERR_OK)
    {
        cover("inst-bytes|" + desc + vfmt("|rejected-%d", rc));
        if(!valid_error_code(rc)) viol(c, "oracle:C15:load-refused-without-error-code:inst", vfmt("WOPN_LoadInstFromMem returned %d", rc));
        c.sig = "rejected";
        return;
    }
    c.nontrivial = true;
    count("byte_strings_accepted");
    unsigned ver = x1.f->version;
    std::string tag = vfmt("file-version-%u", ver);
    cover("inst-bytes|" + desc + "|accepted|" + tag);
    Bytes img = save_inst_checked(c, x1.f, ver, "reload:" + tag);
    if(!img.empty())
    {
        HeapInst x2;
        rc = load_inst_exact(x2.f, img.data(), img.size());
        if(rc != WOPN_ERR_OK) viol(c, "oracle:C15:saved-image-rejected:inst:reload:" + tag, vfmt("returned %d", rc));
        else
        {
            Diff d; cmp_inst_identity(x1.f, x2.f, d);
            count("reload_comparisons");
            if(d.any) viol(c, "oracle:C15:reload-not-identity:inst:" + tag + ":" + d.field,
                           "load(save(load(b))) != load(b) for accepted b = " + hexs(b, 20) + vfmt(" (%zu bytes, %s; saved with version argument %u as %zu bytes): ", b.size(), desc.c_str(), ver, img.size()) + d.detail);
            Bytes img3 = save_inst_checked(c, x2.f, x2.f->version, "reload2:" + tag);
            if(!img3.empty())
            {
                HeapInst x3;
                rc = load_inst_exact(x3.f, img3.data(), img3.size());
                if(rc != WOPN_ERR_OK) viol(c, "oracle:C15:saved-image-rejected:inst:reload2:" + tag, vfmt("returned %d", rc));
                else { Diff d3; cmp_inst_identity(x2.f, x3.f, d3); if(d3.any) viol(c, "oracle:C15:no-fixed-point-after-one-roundtrip:inst:reload:" + tag + ":" + d3.field, d3.detail); }
            }
        }
    }
    c.sig = desc + "|" + tag;
    c.sample("{\"stage\":\"inst\",\"kind\":\"bytes\",\"input\":" + jstr(desc) + ",\"head\":" + jstr(hexs(b, 16)) + vfmt(",\"length\":%zu,\"loaded_version\":%u}", b.size(), ver));
}

static void run_case(Case &c)
{
    g_case_keys.clear();
    if(g_w.stage == "bytes") run_bytes(c);
    else if(g_w.stage == "inst") run_inst(c);
    else run_values(c);
}
