// C12 — bank select + program change pick the documented instrument, with fallbacks.
// Generated bank layouts (bank API or generated WOPN image): random subsets of melodic banks (MSB, LSB) and percussion kits with
// random blank entries; every instrument slot carries unique operator bytes (a 16-bit id in the SL/RR registers of operators 1-2, the
// rest derived from it), so the registers 0x50..0x9F / 0xB0 written inside opn2_rt_noteOn (H1) identify the slot that was loaded.
// A reference resolver written from the statement (DESIGN.md Appendix A.4) follows the same history of CC0 / CC32 / program change /
// opn2_rt_bankChange* / mode SysEx / GS drum-part SysEx and predicts, for every note-on, the slot (or silence) and, on percussion
// channels, the pitch (drum key) — compared with the register writes and the return value of the call.
#include "vlib.hpp"
#include "vsmf.hpp"

static const char *harness_name() { return "c12_banksel"; }
static void harness_init() {}

typedef std::vector<uint8_t> Bytes;
enum { MODE_GM = OPNMIDIplay::Mode_GM, MODE_GS = OPNMIDIplay::Mode_GS, MODE_XG = OPNMIDIplay::Mode_XG };   // as stored in m_synthMode
static const char *mode_name(int m) { return m == MODE_GM ? "GM" : m == MODE_GS ? "GS" : m == MODE_XG ? "XG" : "?"; }

// ------------------------------------------------------------------------------------------
// instrument bytes from a unique id
// ------------------------------------------------------------------------------------------
struct InsBytes { uint8_t row[5][4]; uint8_t fbalg; uint8_t tl[4]; };   // rows 0x50,0x60,0x70,0x80,0x90
static InsBytes ins_bytes(uint32_t uid)
{
    InsBytes b; uint32_t h = uid * 2654435761u;
    for(int op = 0; op < 4; op++)
    {
        b.row[0][op] = 0x1F;                                                  // RS 0, AR 31
        b.row[1][op] = (uint8_t)((h >> (op * 5)) & 0x1F);                     // D1R
        b.row[2][op] = (uint8_t)((h >> (op * 3 + 7)) & 0x1F);                 // D2R
        b.row[3][op] = (uint8_t)(op == 0 ? (uid & 0xFF) : op == 1 ? ((uid >> 8) & 0xFF) : ((h >> (op * 8)) & 0xFF));   // SL/RR: the id itself
        b.row[4][op] = 0;
        b.tl[op] = (uint8_t)((h >> (op * 4 + 3)) & 0x3F);
    }
    b.fbalg = (uint8_t)((h >> 11) & 0x3F);
    return b;
}
template<class I> static void fill_common(I &in, uint32_t uid, bool blank, uint8_t drumkey, uint8_t blank_flag)
{
    InsBytes b = ins_bytes(uid);
    in.note_offset = 0; in.midi_velocity_offset = 0; in.percussion_key_number = drumkey; in.inst_flags = blank ? blank_flag : 0;
    in.fbalg = b.fbalg; in.lfosens = 0;
    for(int op = 0; op < 4; op++)
    {
        in.operators[op].dtfm_30 = 0x01; in.operators[op].level_40 = b.tl[op];
        in.operators[op].rsatk_50 = b.row[0][op]; in.operators[op].amdecay1_60 = b.row[1][op]; in.operators[op].decay2_70 = b.row[2][op];
        in.operators[op].susrel_80 = b.row[3][op]; in.operators[op].ssgeg_90 = b.row[4][op];
    }
    in.delay_on_ms = blank ? 0 : 300; in.delay_off_ms = blank ? 0 : 120;     // WOPN v2 stores "blank" as both delays zero
}

// ------------------------------------------------------------------------------------------
// reference model
// ------------------------------------------------------------------------------------------
struct Ent { bool blank; uint32_t uid; uint8_t dk; };
struct MBank { bool perc; unsigned num; Ent e[128]; };      // num = msb*256 + lsb (percussion: the kit number)
struct UidInfo { bool perc; unsigned num; int prog; bool current; bool blank; };

struct ChanModel
{
    int msb, lsb, prog;
    int D;              // GS drum-part assignment 0/1
    bool either_D;      // assignment made/kept in a situation the statement does not decide
    bool either_X;      // MSB 126/127 carried over a mode switch, or contradicted by a drum-part "melodic" message
    const char *msb_via;
    std::vector<std::string> hist;
    ChanModel(): msb(0), lsb(0), prog(0), D(0), either_D(false), either_X(false), msb_via("initial") {}
    void log(const std::string &s) { hist.push_back(s); if(hist.size() > 10) hist.erase(hist.begin()); }
};

struct Model
{
    std::map<unsigned, MBank> mel, perc;
    std::map<uint32_t, UidInfo> uids;
    uint32_t next_uid;
    int mode;
    ChanModel ch[16];
    Model(): next_uid(1), mode(MODE_XG) {}
    Ent fresh(bool perc, unsigned num, int prog, bool blank, uint8_t dk)
    {
        Ent e; e.blank = blank; e.uid = next_uid++; e.dk = dk;
        UidInfo u; u.perc = perc; u.num = num; u.prog = prog; u.current = true; u.blank = blank; uids[e.uid] = u;
        return e;
    }
    std::string describe(uint32_t uid) const
    {
        std::map<uint32_t, UidInfo>::const_iterator i = uids.find(uid);
        if(i == uids.end()) return vfmt("unknown bytes (id %u)", uid);
        const UidInfo &u = i->second;
        return vfmt("%s bank %u/%u entry %d%s%s", u.perc ? "percussion" : "melodic", u.num >> 8, u.num & 255, u.prog, u.blank ? " [blank]" : "", u.current ? "" : " [replaced earlier]");
    }
};

enum Role { R_MEL, R_PERC, R_EITHER };

static Role role_of(const Model &M, int c)
{
    const ChanModel &ch = M.ch[c];
    if(c == 9) return R_PERC;
    if(ch.either_D || ch.either_X) return R_EITHER;
    const bool xgp = ch.msb == 126 || ch.msb == 127;
    if(M.mode == MODE_GS) return ch.D ? R_PERC : R_MEL;
    if(M.mode == MODE_XG) return (xgp || ch.D) ? R_PERC : R_MEL;
    if(xgp) return R_EITHER;                         // GM mode: "XG MSB 126/127" is not decided for a GM device
    return ch.D ? R_PERC : R_MEL;
}

struct Expect
{
    bool silent;                 // no admissible playable slot
    std::vector<Ent> ok;         // admissible slots
    std::string step;            // which step of the statement resolved
    std::string pattern;         // absent/blank/playable pattern of the candidates
    int tone;                    // percussion: -1 when several candidates with different pitch
    Expect(): silent(true), tone(-1) {}
};

static char cand_state(const std::map<unsigned, MBank> &banks, unsigned num, int idx, const Ent *&e)
{
    std::map<unsigned, MBank>::const_iterator i = banks.find(num);
    e = NULL;
    if(i == banks.end()) return 'a';
    e = &i->second.e[idx];
    return e->blank ? 'b' : 'p';
}

static Expect expect_melodic(const Model &M, int c)
{
    const ChanModel &ch = M.ch[c];
    Expect x;
    const unsigned lsb = (M.mode == MODE_GS) ? 0u : (unsigned)ch.lsb;
    const unsigned cand[3] = {(unsigned)ch.msb * 256 + lsb, (unsigned)ch.msb * 256, 0u};
    static const char *names[3] = {"exact", "lsb-cleared", "bank0"};
    for(int i = 0; i < 3; i++)
    {
        if(i > 0 && cand[i] == cand[i - 1]) { x.pattern += '='; continue; }
        const Ent *e; char st = cand_state(M.mel, cand[i], ch.prog, e);
        x.pattern += st;
        if(st == 'p' && x.silent) { x.silent = false; x.ok.push_back(*e); x.step = names[i]; }
    }
    if(x.silent) x.step = "silent";
    return x;
}

static Expect expect_percussion(const Model &M, int c, int key)
{
    const ChanModel &ch = M.ch[c];
    Expect x;
    const unsigned kit = (unsigned)ch.prog + ((M.mode == MODE_XG && ch.msb == 0x7E) ? 128u : 0u);
    const unsigned cand[3] = {kit, kit & 0x80u, 0u};
    const Ent *e; char st = cand_state(M.perc, kit, key, e);
    x.pattern += st;
    if(st == 'p') { x.silent = false; x.ok.push_back(*e); x.step = "kit-exact"; x.tone = e->dk ? e->dk : key; }
    for(int i = 1; i < 3; i++)
    {
        if(cand[i] == cand[i - 1]) { x.pattern += '='; continue; }
        st = cand_state(M.perc, cand[i], key, e); x.pattern += st;
        if(st == 'p' && (x.silent || x.step != "kit-exact")) { x.silent = false; x.ok.push_back(*e); x.step = x.ok.size() == 1 ? (cand[i] ? "kit-sfx0" : "kit0") : "kit-fallback-any"; }
    }
    if(x.silent) x.step = "silent";
    else if(x.step != "kit-exact")
    {
        int t0 = x.ok[0].dk ? x.ok[0].dk : key; x.tone = t0;
        for(size_t i = 1; i < x.ok.size(); i++) if((x.ok[i].dk ? x.ok[i].dk : key) != t0) x.tone = -1;
    }
    return x;
}

// ------------------------------------------------------------------------------------------
// observation (H1)
// ------------------------------------------------------------------------------------------
struct Obs
{
    int rc; int keyons; unsigned chip, cch;
    uint8_t row[7][4]; uint8_t seen[7]; uint8_t fbalg; bool fb_seen; uint8_t a4, a0; bool a4_seen, a0_seen;
    bool patch_complete() const { for(int r = 2; r < 7; r++) if(seen[r] != 0xF) return false; return fb_seen; }
    uint32_t uid() const { return (uint32_t)row[5][0] | ((uint32_t)row[5][1] << 8); }
};

static Obs observe(const Tap &tap, size_t l0, size_t l1, int rc)
{
    Obs o; memset(&o, 0, sizeof(o)); o.rc = rc;
    static const int map[8] = {0, 1, 2, -1, 3, 4, 5, -1};
    for(size_t i = l0; i < l1; i++)
    {
        const RegWrite &w = tap.log[i];
        if(w.port == 0 && w.reg == 0x28 && (w.val & 0xF0) != 0 && map[w.val & 7] >= 0) { o.keyons++; o.chip = w.chip; o.cch = (unsigned)map[w.val & 7]; }
    }
    if(!o.keyons) return o;
    const unsigned port = o.cch / 3, low = o.cch % 3;
    for(size_t i = l0; i < l1; i++)
    {
        const RegWrite &w = tap.log[i];
        if(w.chip != o.chip || w.port != port) continue;
        if(w.reg >= 0x30 && w.reg < 0xA0 && (w.reg & 3u) == low) { unsigned r = (w.reg - 0x30u) >> 4, op = (w.reg >> 2) & 3u; o.row[r][op] = w.val; o.seen[r] |= (uint8_t)(1u << op); }
        else if(w.reg == 0xB0 + low) { o.fbalg = w.val; o.fb_seen = true; }
        else if(w.reg == 0xA4 + low) { o.a4 = w.val; o.a4_seen = true; }
        else if(w.reg == 0xA0 + low) { o.a0 = w.val; o.a0_seen = true; }
    }
    return o;
}

static bool obs_matches(const Obs &o, const Ent &e)
{
    InsBytes b = ins_bytes(e.uid);
    for(int r = 0; r < 5; r++) for(int op = 0; op < 4; op++) if(o.row[r + 2][op] != b.row[r][op]) return false;
    return o.fbalg == b.fbalg;
}

// ------------------------------------------------------------------------------------------
// driving the library
// ------------------------------------------------------------------------------------------
static unsigned roland_sum(const uint8_t *p, size_t n) { unsigned s = 0; for(size_t i = 0; i < n; i++) s += p[i]; return (128 - (s % 128)) % 128; }
static int sx(OPN2_MIDIPlayer *dev, const uint8_t *m, size_t n) { ExactBuf eb(m, n); int rc = -99; API("opn2_rt_systemExclusive", rc = opn2_rt_systemExclusive(dev, eb.p, eb.n)); return rc; }

struct Drv
{
    Case &c; OPN2_MIDIPlayer *dev; Tap tap; Model M; bool wopn_route; int initial_mode;
    std::vector<std::pair<int, int> > sounding;    // (channel, key) the harness holds down
    long resolved;
    bool live;               // false: the events reach the library through a file; the ev_* calls only move the model
    const char *route;
    Drv(Case &c_): c(c_), dev(NULL), wopn_route(false), initial_mode(0), resolved(0), live(true), route(NULL) {}

    bool lib_quiet()
    {
        OPNMIDIplay *p = P(dev);
        for(size_t i = 0; i < p->m_midiChannels.size(); i++) if(!p->m_midiChannels[i].activenotes.empty()) return false;
        std::vector<OPNMIDIplay::OpnChannel> &cc = VA::chipChannels(p);
        for(size_t i = 0; i < cc.size(); i++) if(!cc[i].users.empty()) return false;
        return true;
    }
    void release_all()
    {
        for(size_t i = 0; i < sounding.size(); i++) API("opn2_rt_noteOff", opn2_rt_noteOff(dev, (uint8_t)sounding[i].first, (uint8_t)sounding[i].second));
        sounding.clear();
    }
    bool drain()
    {   // end every note so that "no note sounds": note-offs, panic, and if drum notes still wait for their minimal life time, 45 ms of audio
        release_all();
        if(lib_quiet()) return true;
        API("opn2_panic", opn2_panic(dev));
        if(lib_quiet()) return true;
        std::vector<short> buf(2 * 2048); int rc = 0;
        API("opn2_generate", rc = opn2_generate(dev, (int)buf.size(), buf.data())); (void)rc;
        count("audio_frames_rendered", 2048);
        return lib_quiet();
    }

    // ---- bank layout -------------------------------------------------------------------
    MBank make_bank(Rng &r, bool perc, unsigned num)
    {
        MBank b; b.perc = perc; b.num = num;
        static const double bp[] = {0.0, 0.2, 0.5, 0.8, 1.0};
        double pb = r.pick(bp);
        for(int i = 0; i < 128; i++)
        {
            uint8_t dk = 0;
            if(perc) dk = r.chance(0.25) ? 0 : (uint8_t)r.range(12, 110);
            b.e[i] = M.fresh(perc, num, i, r.chance(pb), dk);
        }
        return b;
    }
    void choose_layout(Rng &r, std::vector<MBank> &mel, std::vector<MBank> &perc)
    {
        static const int msbs[] = {0, 1, 2, 5, 64, 126, 127}, lsbs[] = {0, 0, 1, 3, 127};
        std::set<unsigned> used;
        if(r.chance(0.8)) { used.insert(0); mel.push_back(make_bank(r, false, 0)); }
        for(int i = 0, n = r.range(0, 6); i < n; i++)
        {
            unsigned num = (unsigned)r.pick(msbs) * 256 + (unsigned)r.pick(lsbs);
            if(used.insert(num).second) mel.push_back(make_bank(r, false, num));
        }
        used.clear();
        static const int kits[] = {1, 8, 16, 25, 40, 127, 128, 129, 144, 255};
        if(r.chance(0.75)) { used.insert(0); perc.push_back(make_bank(r, true, 0)); }
        for(int i = 0, n = r.range(0, 5); i < n; i++)
        {
            unsigned num = (unsigned)r.pick(kits);
            if(num > 127 && !wopn_route) continue;                      // kit numbers 128..255 (XG SFX) need LSB bit 7: not expressible through OPN2_BankId
            if(used.insert(num).second) perc.push_back(make_bank(r, true, num));
        }
        if(r.chance(0.15)) perc.push_back(make_bank(r, true, 256 + (unsigned)r.below(3)));   // percussion bank with MSB 1: reachable by no program
    }
    bool api_write_slot(const MBank &b, int idx)
    {
        OPN2_BankId id; id.percussive = b.perc ? 1 : 0; id.msb = (uint8_t)(b.num >> 8); id.lsb = (uint8_t)(b.num & 255);
        OPN2_Bank bk; memset(&bk, 0, sizeof(bk)); int rc = -1;
        API("opn2_getBank", rc = opn2_getBank(dev, &id, 0, &bk));
        if(rc != 0) return false;
        OPN2_Instrument in; memset(&in, 0, sizeof(in)); in.version = 0;
        fill_common(in, b.e[idx].uid, b.e[idx].blank, b.e[idx].dk, (uint8_t)OPNMIDI_Ins_IsBlank);
        API("opn2_setInstrument", rc = opn2_setInstrument(dev, &bk, (unsigned)idx, &in));
        return rc == 0;
    }
    bool api_create_bank(const MBank &b)
    {
        OPN2_BankId id; id.percussive = b.perc ? 1 : 0; id.msb = (uint8_t)(b.num >> 8); id.lsb = (uint8_t)(b.num & 255);
        OPN2_Bank bk; memset(&bk, 0, sizeof(bk)); int rc = -1;
        API("opn2_getBank", rc = opn2_getBank(dev, &id, OPNMIDI_Bank_Create, &bk));
        if(rc != 0) return false;
        // half of the banks leave their blank entries as the bank API created them (a new bank reads as 128 blank instruments)
        const bool leave_blank_entries = (b.e[0].uid + b.num) % 2 == 0;
        if(leave_blank_entries) count("api_banks_with_untouched_blank_entries");
        for(int i = 0; i < 128; i++)
        {
            if(leave_blank_entries && b.e[i].blank) continue;
            OPN2_Instrument in; memset(&in, 0, sizeof(in)); in.version = 0;
            fill_common(in, b.e[i].uid, b.e[i].blank, b.e[i].dk, (uint8_t)OPNMIDI_Ins_IsBlank);
            API("opn2_setInstrument", rc = opn2_setInstrument(dev, &bk, (unsigned)i, &in));
            if(rc != 0) return false;
        }
        return true;
    }
    bool install(Rng &r)
    {
        std::vector<MBank> mel, perc;
        choose_layout(r, mel, perc);
        if(wopn_route)
        {
            // the file format needs at least one bank on each side
            if(mel.empty()) mel.push_back(make_bank(r, false, (unsigned)r.pick((const int[]){0, 256, 3})));
            const bool no_percussion_banks = perc.empty() && r.chance(0.5);   // a melodic-only file is legal: header count 0
            if(perc.empty() && !no_percussion_banks) perc.push_back(make_bank(r, true, (unsigned)r.pick((const int[]){0, 5, 130})));
            WOPNFile *f = WOPN_Init((uint16_t)mel.size(), (uint16_t)perc.size());
            f->version = 2; f->lfo_freq = 0; f->chip_type = 0;
            for(size_t i = 0; i < mel.size() + perc.size(); i++)
            {
                const MBank &b = i < mel.size() ? mel[i] : perc[i - mel.size()];
                WOPNBank &w = i < mel.size() ? f->banks_melodic[i] : f->banks_percussive[i - mel.size()];
                snprintf(w.bank_name, sizeof(w.bank_name), "%c%u", b.perc ? 'P' : 'M', b.num);
                w.bank_midi_msb = (uint8_t)(b.num >> 8); w.bank_midi_lsb = (uint8_t)(b.num & 255);
                for(int j = 0; j < 128; j++) { memset(&w.ins[j], 0, sizeof(w.ins[j])); snprintf(w.ins[j].inst_name, sizeof(w.ins[j].inst_name), "u%u", b.e[j].uid); fill_common(w.ins[j], b.e[j].uid, b.e[j].blank, b.e[j].dk, (uint8_t)WOPN_Ins_IsBlank); }
            }
            size_t sz = WOPN_CalculateBankFileSize(f, 2);
            Bytes img(sz);
            int wr = WOPN_SaveBankToMem(f, img.data(), sz, 2, 0);
            WOPN_Free(f);
            if(wr != 0) return false;
            if(no_percussion_banks)
            {   // WOPN_Init(n, 0) holds one placeholder percussion bank and the writer stores it: cut it out again and declare 0
                const size_t m = mel.size(), hdr = 18, meta = 34, insz = 69;
                if(img.size() != hdr + (m + 1) * meta + (m + 1) * 128 * insz) return false;
                Bytes cut(img.begin(), img.begin() + (long)(hdr + m * meta));
                cut.insert(cut.end(), img.begin() + (long)(hdr + (m + 1) * meta), img.begin() + (long)(hdr + (m + 1) * meta + m * 128 * insz));
                cut[15] = 0; cut[16] = 0;
                img.swap(cut);
                count("banks_without_percussion_side");
            }
            ExactBuf eb(img); int rc = -1;
            API("opn2_openBankData", rc = opn2_openBankData(dev, eb.p, (long)eb.n));
            if(rc != 0) { c.violation("oracle:C12:generated-bank-rejected", vfmt("opn2_openBankData rejected a generated WOPN v2 image with %zu+%zu banks: %s", mel.size(), perc.size(), opn2_errorInfo(dev))); return false; }
        }
        else
        {
            for(size_t i = 0; i < mel.size(); i++) if(!api_create_bank(mel[i])) return false;
            for(size_t i = 0; i < perc.size(); i++) if(!api_create_bank(perc[i])) return false;
        }
        for(size_t i = 0; i < mel.size(); i++) M.mel[mel[i].num] = mel[i];
        for(size_t i = 0; i < perc.size(); i++) M.perc[perc[i].num] = perc[i];
        // some layouts lose banks again before the history starts: a removed bank "does not exist" for the fallback chain
        if(r.chance(0.4))
            for(int t = 0, n = r.range(1, 3); t < n; t++)
            {
                bool perc_side = r.chance(0.4);
                std::map<unsigned, MBank> &side = perc_side ? M.perc : M.mel;
                if(side.empty()) continue;
                std::map<unsigned, MBank>::iterator it = side.begin(); std::advance(it, (long)r.below((uint32_t)side.size()));
                unsigned num = it->first;
                if(perc_side && (num & 255) > 127) continue;
                OPN2_BankId id; id.percussive = perc_side ? 1 : 0; id.msb = (uint8_t)(num >> 8); id.lsb = (uint8_t)(num & 255);
                OPN2_Bank bk; memset(&bk, 0, sizeof(bk)); int rc = -1;
                API("opn2_getBank", rc = opn2_getBank(dev, &id, 0, &bk));
                if(rc != 0) { c.violation("oracle:C12:installed-bank-not-found", vfmt("opn2_getBank does not find installed %s bank %u/%u", perc_side ? "percussion" : "melodic", num >> 8, num & 255)); return false; }
                API("opn2_removeBank", rc = opn2_removeBank(dev, &bk));
                if(rc != 0) { c.violation("oracle:C12:bank-removal-failed", vfmt("opn2_removeBank failed for %s bank %u/%u", perc_side ? "percussion" : "melodic", num >> 8, num & 255)); return false; }
                side.erase(it);
                count("banks_removed_before_the_history");
            }
        return true;
    }

    // ---- events ------------------------------------------------------------------------
    void ev_cc(int ch, int cc, int v)
    {
        if(live) API("opn2_rt_controllerChange", opn2_rt_controllerChange(dev, (uint8_t)ch, (uint8_t)cc, (uint8_t)v));
        ChanModel &m = M.ch[ch];
        if(cc == 0) { m.msb = v; m.msb_via = "cc0"; } else m.lsb = v;
        m.either_X = false;
        if(M.mode != MODE_GS) m.either_D = m.D && !(m.msb == 126 || m.msb == 127);
        m.log(vfmt("CC%d=%d", cc, v));
    }
    void ev_prog(int ch, int p) { if(live) API("opn2_rt_patchChange", opn2_rt_patchChange(dev, (uint8_t)ch, (uint8_t)p)); M.ch[ch].prog = p; M.ch[ch].log(vfmt("PC=%d", p)); }
    void ev_bank_api(int ch, int which, int msb, int lsb)
    {
        ChanModel &m = M.ch[ch];
        if(which == 0) { API("opn2_rt_bankChangeMSB", opn2_rt_bankChangeMSB(dev, (uint8_t)ch, (uint8_t)msb)); m.msb = msb; m.msb_via = "rt_bankChangeMSB"; m.log(vfmt("rt_bankChangeMSB(%d)", msb)); }
        else if(which == 1) { API("opn2_rt_bankChangeLSB", opn2_rt_bankChangeLSB(dev, (uint8_t)ch, (uint8_t)lsb)); m.lsb = lsb; m.log(vfmt("rt_bankChangeLSB(%d)", lsb)); }
        else { API("opn2_rt_bankChange", opn2_rt_bankChange(dev, (uint8_t)ch, (OPN2_SInt16)((msb << 8) | lsb))); m.msb = msb; m.lsb = lsb; m.msb_via = "rt_bankChange"; m.log(vfmt("rt_bankChange(0x%04x)", (msb << 8) | lsb)); }
        if(which != 1) m.either_X = false;       // the MSB was selected again in the current mode
        if(M.mode != MODE_GS) m.either_D = m.D && !(m.msb == 126 || m.msb == 127);   // documented aliases of CC0/CC32: same three-valued case as there
    }
    bool ev_mode(int which)   // 0 GM on, 1 GS reset, 2 XG on, 3 GM off, 4 GS system mode set
    {
        release_all();
        static const uint8_t gm[] = {0xF0, 0x7E, 0x7F, 0x09, 0x01, 0xF7}, gmoff[] = {0xF0, 0x7E, 0x7F, 0x09, 0x02, 0xF7}, gs[] = {0xF0, 0x41, 0x10, 0x42, 0x12, 0x40, 0x00, 0x7F, 0x00, 0x41, 0xF7},
                             xg[] = {0xF0, 0x43, 0x10, 0x4C, 0x00, 0x00, 0x7E, 0x00, 0xF7}, gsm[] = {0xF0, 0x41, 0x10, 0x42, 0x12, 0x00, 0x00, 0x7F, 0x00, 0x01, 0xF7};
        int rc = which == 0 ? sx(dev, gm, sizeof(gm)) : which == 1 ? sx(dev, gs, sizeof(gs)) : which == 2 ? sx(dev, xg, sizeof(xg)) : which == 3 ? sx(dev, gmoff, sizeof(gmoff)) : sx(dev, gsm, sizeof(gsm));
        if(rc != 1) return false;
        OPNMIDIplay *p = P(dev);
        int want = which == 0 ? MODE_GM : (which == 1 || which == 4) ? MODE_GS : which == 2 ? MODE_XG : -1;
        int got = (int)p->m_synthMode;
        if(want >= 0 && got != want) { count("mode_after_accepted_switch_not_the_documented_one"); got = want; }   // C19 names that; here the documented mode is assumed and the following note-ons are judged by its rules
        if(got != MODE_GM && got != MODE_GS && got != MODE_XG) return false;
        M.mode = got;
        static const char *nm[] = {"GM-on", "GS-reset", "XG-on", "GM-off", "GS-mode-set"};
        for(int ch = 0; ch < 16; ch++)
        {
            ChanModel &m = M.ch[ch];
            // not decided by the statement: whether a mode switch keeps bank select / program and drum-part assignments -> adopt what is observed
            m.msb = p->m_midiChannels[(size_t)ch].bank_msb; m.lsb = p->m_midiChannels[(size_t)ch].bank_lsb; m.prog = p->m_midiChannels[(size_t)ch].patch;
            // In GS mode the percussion channels are channel 10 and the GS drum-part assignments (statement); whether a drum-part
            // assignment made earlier survives the switch is adopted, but a channel that never got one (its percussion role, if any,
            // came from an XG bank MSB) must be melodic now
            const bool had_part = m.D != 0 || m.either_D;
            if(M.mode == MODE_GS) { m.D = (had_part && p->m_midiChannels[(size_t)ch].is_xg_percussion) ? 1 : 0; m.either_D = false; m.either_X = false; }
            else { m.either_D = m.D != 0; m.either_X = (m.msb == 126 || m.msb == 127); }
            m.log(nm[which]);
        }
        return true;
    }
    // opn2_reset: the instance is as good as new (default mode, bank selects and programs 0, no drum parts); the banks stay
    void ev_reset()
    {
        release_all();
        API("opn2_reset", opn2_reset(dev));
        M.mode = initial_mode;
        for(int ch = 0; ch < 16; ch++)
        {
            ChanModel &m = M.ch[ch];
            m.msb = m.lsb = m.prog = 0; m.D = 0; m.either_D = false; m.either_X = false; m.msb_via = "reset";
            m.log("opn2_reset");
        }
        count("resets");
    }
    bool ev_drumpart(int ch, int vv)
    {
        static const int chan2part[16] = {1, 2, 3, 4, 5, 6, 7, 8, 9, 0, 10, 11, 12, 13, 14, 15};
        uint8_t m[] = {0xF0, 0x41, 0x10, 0x42, 0x12, 0x40, (uint8_t)(0x10 | chan2part[ch]), 0x15, (uint8_t)vv, 0, 0xF7};
        m[9] = (uint8_t)roland_sum(&m[5], 4);
        if(sx(dev, m, sizeof(m)) != 1) return false;
        ChanModel &cm = M.ch[ch];
        cm.D = vv ? 1 : 0; cm.either_D = false;
        if(M.mode != MODE_GS && !vv && (cm.msb == 126 || cm.msb == 127)) cm.either_X = true;   // "melodic" part on a channel whose XG bank says drums
        cm.log(vfmt("GS-drum-part=%d", vv));
        return true;
    }

    // ---- the monitored call ------------------------------------------------------------
    void ev_noteon(Rng &r, int ch, int key)
    {
        tap.log.clear();
        int rc = -99;
        API("opn2_rt_noteOn", rc = opn2_rt_noteOn(dev, (uint8_t)ch, (uint8_t)key, 100));
        Obs o = observe(tap, 0, tap.log.size(), rc);
        judge_noteon(r, ch, key, rc, o);
    }
    // o: what the call that delivered the note-on wrote; rc: its return value (file-driven: 1 if a key-on was seen, else 0)
    void judge_noteon(Rng &r, int ch, int key, int rc, const Obs &o)
    {
        const Role role = role_of(M, ch);
        Expect em, ep;
        if(role != R_PERC) em = expect_melodic(M, ch);
        if(role != R_MEL) ep = expect_percussion(M, ch, key);
        const ChanModel &m = M.ch[ch];
        resolved++; count("noteons_resolved"); count("register_writes_decoded", (long long)tap.log.size());
        c.nontrivial = true;

        std::string ctx = vfmt("%smode %s ch%d msb=%d(%s) lsb=%d prog=%d key=%d role=%s; recent:", route ? route : "", mode_name(M.mode), ch, m.msb, m.msb_via, m.lsb, m.prog, key,
                               role == R_MEL ? "melodic" : role == R_PERC ? "percussion" : "either");
        for(size_t i = 0; i < m.hist.size(); i++) ctx += " " + m.hist[i];
        const char *flavour = role == R_MEL ? "mel" : role == R_EITHER ? "either" : ch == 9 ? ((M.mode == MODE_XG && m.msb == 0x7E) ? "perc-ch10-sfx" : "perc-ch10") :
                              (M.mode != MODE_GS && (m.msb == 126 || m.msb == 127)) ? (m.msb == 126 ? "perc-xg-msb126" : "perc-xg-msb127") : "perc-gs-drum-part";

        if(rc != 0 && rc != 1) { c.violation("oracle:C12:return-value", vfmt("opn2_rt_noteOn returned %d; %s", rc, ctx.c_str())); return; }
        bool ok = false; const Expect *hit = NULL; bool hit_perc = false;
        const Expect *alts[2] = {role != R_PERC ? &em : NULL, role != R_MEL ? &ep : NULL};
        for(int a = 0; a < 2 && !ok; a++)
        {
            const Expect *e = alts[a]; if(!e) continue;
            if(e->silent) { if(rc == 0 && o.keyons == 0) { ok = true; hit = e; hit_perc = a == 1; } continue; }
            if(rc == 1 && o.keyons >= 1 && o.patch_complete())
                for(size_t i = 0; i < e->ok.size(); i++) if(obs_matches(o, e->ok[i])) { ok = true; hit = e; hit_perc = a == 1; break; }
        }
        if(ok)
        {
            cover(vfmt("%s|%s|%s|%s|%s%s", mode_name(M.mode), flavour, hit->step.c_str(), hit->pattern.c_str(), wopn_route ? "wopn" : "api", live ? "" : "|file"));
            count((std::string("resolved_") + (hit_perc ? "percussion_" : "melodic_") + hit->step).c_str());
            if(role == R_EITHER) count("resolved_with_three_valued_role");
            if(!hit->silent) sounding.push_back(std::make_pair(ch, key));
            // pitch of percussion notes: the slot's drum key (0 = the played key)
            if(hit_perc && !hit->silent)
            {
                int tone = -1;
                for(size_t i = 0; i < hit->ok.size(); i++) if(obs_matches(o, hit->ok[i])) tone = hit->ok[i].dk ? hit->ok[i].dk : key;
                if(o.a4_seen && o.a0_seen && tone >= 0)
                {
                    unsigned block = (o.a4 >> 3) & 7, fnum = ((unsigned)(o.a4 & 7) << 8) | o.a0, mul = o.row[0][0] & 0x0F;
                    double step = 7670454.0 / (144.0 * (double)(1u << (21 - block))) * (mul ? (double)mul : 0.5);
                    double f_obs = fnum * step, f_exp = 440.0 * pow(2.0, (tone - 69) / 12.0);
                    count("percussion_pitches_checked");
                    if(fabs(f_obs - f_exp) > 1.5 * step + 1e-9)
                        c.violation("oracle:C12:percussion:pitch-not-drum-key", vfmt("drum key %d (%.2f Hz) expected, written block %u fnum %u mul %u = %.2f Hz; %s", tone, f_exp, block, fnum, mul, f_obs, ctx.c_str()));
                    cover(vfmt("pitch|%s|%s", hit->ok.size() && tone != key ? "drum-key" : "played-key", flavour));
                }
                else if(tone >= 0) c.violation("oracle:C12:percussion:no-frequency-write", "key-on without block/F-number write inside the call; " + ctx);
            }
            (void)r;
            return;
        }
        // ---- disagreement: say what was played instead
        std::string exp;
        for(int a = 0; a < 2; a++) { const Expect *e = alts[a]; if(!e) continue; exp += a ? " percussion:" : " melodic:"; if(e->silent) exp += "silence(" + e->pattern + ")"; for(size_t i = 0; i < e->ok.size(); i++) exp += " " + M.describe(e->ok[i].uid) + "(" + e->step + "," + e->pattern + ")"; }
        std::string got, key_tail;
        if(o.keyons == 0) { got = vfmt("no key-on, returned %d", rc); key_tail = rc == 0 ? "silent-but-candidate-playable" : "returned-1-without-key-on"; }
        else if(!o.patch_complete()) { got = "key-on without a complete patch upload inside the call"; key_tail = "no-patch-upload"; }
        else
        {
            uint32_t u = o.uid(); got = "played " + M.describe(u) + vfmt(", returned %d", rc);
            std::map<uint32_t, UidInfo>::const_iterator ui = M.uids.find(u);
            if(ui == M.uids.end()) key_tail = "unknown-instrument-bytes";
            else if(!ui->second.current) key_tail = "replaced-instrument-still-played";
            else if(ui->second.blank) key_tail = "blank-slot-played";
            else if(rc == 0) key_tail = "key-on-but-returned-0";
            else if(role == R_PERC && !ui->second.perc) key_tail = "played-from-melodic-bank";
            else if(role == R_MEL && ui->second.perc) key_tail = "played-from-percussion-bank";
            else key_tail = "wrong-slot";
        }
        std::string stepn = role == R_MEL ? em.step : role == R_PERC ? ep.step : "either";
        std::string rolekey = role == R_MEL ? "melodic" : role == R_PERC ? "percussion" : "either-role";
        // a strict role contradicted: name how the bank MSB reached the channel
        if((key_tail == "played-from-melodic-bank" || key_tail == "played-from-percussion-bank" || key_tail == "wrong-slot" || key_tail == "silent-but-candidate-playable") && role != R_EITHER && ch != 9)
        {
            // would the other role explain the observation?
            Expect other = role == R_PERC ? expect_melodic(M, ch) : expect_percussion(M, ch, key);
            bool other_ok = other.silent ? (rc == 0 && o.keyons == 0) : false;
            if(!other.silent && o.keyons && o.patch_complete()) for(size_t i = 0; i < other.ok.size(); i++) if(obs_matches(o, other.ok[i])) other_ok = true;
            if(other_ok)
            {
                c.violation(vfmt("oracle:C12:channel-role:%s-expected-%s-played:msb-via-%s", rolekey.c_str(), role == R_PERC ? "melodic" : "percussion", m.msb_via),
                            vfmt("%s; expected%s; %s", ctx.c_str(), exp.c_str(), got.c_str()));
                return;
            }
        }
        c.violation(vfmt("oracle:C12:%s:%s:%s", rolekey.c_str(), key_tail.c_str(), stepn.c_str()), vfmt("%s; expected%s; %s", ctx.c_str(), exp.c_str(), got.c_str()));
    }
};

// ------------------------------------------------------------------------------------------
// stage multidev: the same resolution rules for songs whose tracks name several MIDI devices (FF 09): every device has its own
// sixteen channels (bank selects, programs, channel 10 = percussion), and the events arrive through the sequencer
// ------------------------------------------------------------------------------------------
struct MdOp { uint64_t tick; int track; int kind; int ch, a, b; };    // kind 0 CC, 1 program, 2 note-on, 3 note-off, 4 device name (a = name index)
struct MdHook { std::vector<MdOp> seen; };
static void md_hook(void *ud, OPN2_UInt8 type, OPN2_UInt8 subtype, OPN2_UInt8 channel, const OPN2_UInt8 *data, size_t len)
{
    MdHook *h = (MdHook *)ud; MdOp o; o.tick = 0; o.track = -1; o.ch = channel; o.a = len > 0 ? data[0] : -1; o.b = len > 1 ? data[1] : -1;
    if(type == 0xB) o.kind = 0; else if(type == 0xC) o.kind = 1; else if(type == 0x9) o.kind = 2; else if(type == 0x8) o.kind = 3; else if(type == 0xFF && subtype == 0x09) o.kind = 4; else return;
    h->seen.push_back(o);
}
static void stage_multidev(Case &c)
{
    Rng &r = c.rng;
    Drv d(c);
    d.wopn_route = (c.k % 2) == 1;
    API("opn2_init", d.dev = opn2_init(r.chance(0.5) ? 44100 : 22050));
    if(!d.dev) { c.violation("oracle:init-failed", "opn2_init returned NULL"); return; }
    OPN2_MIDIPlayer *dev = d.dev;
    d.tap.keep_log = true; d.tap.attach(dev);
    int rc = 0;
    API("opn2_switchEmulator", rc = opn2_switchEmulator(dev, r.chance(0.5) ? 0 : 2));
    API("opn2_setNumChips", rc = opn2_setNumChips(dev, r.range(2, 3)));
    if(!d.install(r)) { if(!g_w.violations_in_case) c.inconclusive = true; Tap::detach(dev); API("opn2_close", opn2_close(dev)); return; }

    std::vector<int> msbs, lsbs, progs, keys;
    for(std::map<unsigned, MBank>::iterator i = d.M.mel.begin(); i != d.M.mel.end(); ++i) { msbs.push_back((int)(i->first >> 8)); lsbs.push_back((int)(i->first & 127)); }
    msbs.push_back(0); msbs.push_back(r.below(128)); lsbs.push_back(0); lsbs.push_back(r.below(128));
    if(r.chance(0.6)) { msbs.push_back(127); msbs.push_back(126); }     // channels become XG drum channels in mid-song
    for(std::map<unsigned, MBank>::iterator i = d.M.perc.begin(); i != d.M.perc.end(); ++i) progs.push_back((int)(i->first & 127));
    for(int i = 0; i < 4; i++) progs.push_back((int)r.below(128));
    progs.push_back(0); progs.push_back(127);        // first and last entry of a bank
    keys.push_back(r.chance(0.5) ? 127 : 0);
    for(int i = 0; i < 5; i++) keys.push_back(r.range(0, 127));
    keys.push_back(r.range(35, 81));

    // the song: track 0 = tempo; every other track names its device first; one event per tick over all tracks
    static const char *names[] = {"Port A", "Port B", "MPU-401", "SC-88 part B", "x"};
    const int ndev = r.range(2, 4), ntr = r.range(2, 5);
    std::vector<int> dev_of_track((size_t)ntr + 1, 0);
    Song song; song.format = 1; song.division = 96; song.running_status = r.chance(0.5);
    song.tracks.resize((size_t)ntr + 1);
    song.tracks[0].ev.push_back(mk_tempo(0, 500000));
    std::vector<MdOp> ops;
    int name_base = (int)r.below(5);
    for(int t = 1; t <= ntr; t++)
    {
        dev_of_track[(size_t)t] = t <= ndev ? (t - 1) % ndev : (int)r.below((uint32_t)ndev);
        const char *nm = names[(name_base + dev_of_track[(size_t)t]) % 5];
        song.tracks[(size_t)t].ev.push_back(mk_meta_text(0, 0x09, nm));
        MdOp o; o.tick = 0; o.track = t; o.kind = 4; o.ch = 0; o.a = dev_of_track[(size_t)t]; o.b = 0; ops.push_back(o);
    }
    uint64_t tick = 0;
    const int nev = r.range(40, 120);
    for(int i = 0; i < nev; i++)
    {
        MdOp o; o.track = 1 + (int)r.below((uint32_t)ntr); o.tick = (tick += (uint64_t)r.range(1, 3));
        o.ch = r.chance(0.35) ? 9 : (int)r.below(16); o.a = o.b = 0;
        unsigned k = r.below(100);
        if(k < 45)
        {
            o.kind = 2; o.a = r.chance(0.85) ? r.pick(keys) : r.range(0, 127); o.b = 100;
            song.tracks[(size_t)o.track].ev.push_back(mk_chan(o.tick, 0x90 | o.ch, o.a, 100)); ops.push_back(o);
            MdOp f = o; f.kind = 3; f.tick = (tick += 1); f.b = 0;
            song.tracks[(size_t)f.track].ev.push_back(mk_chan(f.tick, 0x80 | f.ch, f.a, 0)); ops.push_back(f);
            continue;
        }
        if(k < 62) { o.kind = 0; o.a = 0; o.b = r.chance(0.85) ? r.pick(msbs) : (int)r.below(128); }
        else if(k < 75) { o.kind = 0; o.a = 32; o.b = r.chance(0.85) ? r.pick(lsbs) : (int)r.below(128); }
        else { o.kind = 1; o.a = r.chance(0.8) ? r.pick(progs) : (int)r.below(128); o.b = -1; }
        song.tracks[(size_t)o.track].ev.push_back(o.kind == 0 ? mk_chan(o.tick, 0xB0 | o.ch, o.a, o.b) : mk_chan(o.tick, 0xC0 | o.ch, o.a));
        ops.push_back(o);
    }
    tick += 2;
    for(int t = 0; t <= ntr; t++) song.tracks[(size_t)t].ev.push_back(mk_meta(tick, 0x2F, std::vector<uint8_t>()));
    std::vector<uint8_t> file = serialize_song(song);
    { ExactBuf in(file); API("opn2_openData", rc = opn2_openData(dev, in.p, (unsigned long)in.n)); }
    if(rc != 0 && d.M.mel.empty() && d.M.perc.empty()) { count("multidev_no_bank_installed"); Tap::detach(dev); API("opn2_close", opn2_close(dev)); return; }   // nothing to play from: refusing the song is the documented answer
    if(rc != 0) { c.violation("oracle:C12:wellformed-file-rejected", vfmt("generated multi-device SMF (%zu bytes, %d tracks) rejected: %s", file.size(), ntr + 1, opn2_errorInfo(dev))); Tap::detach(dev); API("opn2_close", opn2_close(dev)); return; }
    d.M.mode = (int)P(dev)->m_synthMode;      // the statement does not name the mode after a load: adopt
    d.initial_mode = d.M.mode;
    if(d.M.mode != MODE_GM && d.M.mode != MODE_GS && d.M.mode != MODE_XG) { c.inconclusive = true; Tap::detach(dev); API("opn2_close", opn2_close(dev)); return; }
    d.live = false;
    MdHook hook;
    API("opn2_setRawEventHook", opn2_setRawEventHook(dev, md_hook, &hook));
    std::vector<std::vector<ChanModel> > devstate((size_t)ndev, std::vector<ChanModel>(16));
    size_t next = 0; double delay = 0; long guard = 0; bool lost = false;
    std::set<int> devs_with_drum_notes;
    // second pass: the song is rewound and played again; it has to resolve like the first time (every channel starts from its
    // defaults again: programs, banks and the roles that mid-song bank selects gave the channels)
    const int passes = r.chance(0.5) ? 2 : 1;
    for(int pass = 0; pass < passes && !lost && g_w.violations_in_case < 6; pass++)
    {
    if(pass)
    {
        if(next != ops.size()) break;
        API("opn2_positionRewind", opn2_positionRewind(dev));
        devstate.assign((size_t)ndev, std::vector<ChanModel>(16));
        next = 0; delay = 0; guard = 0;
        d.M.mode = (int)P(dev)->m_synthMode;
        if(d.M.mode != MODE_GM && d.M.mode != MODE_GS && d.M.mode != MODE_XG) { lost = true; break; }
        count("multidev_second_passes");
    }
    while(guard++ < 5000 && !lost && g_w.violations_in_case < 6)
    {
        hook.seen.clear(); d.tap.log.clear();
        double nd = 0; API("opn2_tickEvents", nd = opn2_tickEvents(dev, delay, 1e-6));
        delay = nd;
        int noteons = 0;
        for(size_t i = 0; i < hook.seen.size() && !lost; i++) if(hook.seen[i].kind == 2) noteons++;
        if(noteons > 1) { lost = true; break; }
        for(size_t i = 0; i < hook.seen.size() && !lost; i++)
        {
            const MdOp &s = hook.seen[i];
            // device names of tick 0 arrive in track order; everything else has its own tick
            if(next >= ops.size()) { lost = true; break; }
            const MdOp &o = ops[next];
            if(o.kind != s.kind || (o.kind != 4 && (o.ch != s.ch || o.a != s.a))) { lost = true; break; }
            next++;
            const int dv = dev_of_track[(size_t)o.track];
            if(o.kind == 4) continue;
            for(int ch = 0; ch < 16; ch++) d.M.ch[ch] = devstate[(size_t)dv][(size_t)ch];
            std::string route = vfmt("[file, %s, track %d, device %d of %d] ", pass ? "second pass after rewind" : "first pass", o.track, dv + 1, ndev);
            d.route = route.c_str();
            if(o.kind == 0) d.ev_cc(o.ch, o.a, o.b);
            else if(o.kind == 1) d.ev_prog(o.ch, o.a);
            else if(o.kind == 2)
            {
                Obs ob = observe(d.tap, 0, d.tap.log.size(), 1);
                int rcn = ob.keyons >= 1 ? 1 : 0;
                d.judge_noteon(r, o.ch, o.a, rcn, ob);
                d.sounding.clear();
                count("file_noteons_resolved");
                if(dv > 0) count("file_noteons_on_a_further_device");
                if(o.ch == 9) devs_with_drum_notes.insert(dv);
            }
            d.route = NULL;
            for(int ch = 0; ch < 16; ch++) devstate[(size_t)dv][(size_t)ch] = d.M.ch[ch];
        }
        int end = 0; API("opn2_atEnd", end = opn2_atEnd(dev));
        if(end) break;
    }
    }
    if(lost) { c.inconclusive = true; count("multidev_delivery_not_as_in_the_file"); }
    else if(next != ops.size() && g_w.violations_in_case == 0) { c.inconclusive = true; count("multidev_song_not_played_to_its_end"); }
    cover(vfmt("multidev|devices%d|drumdevs%zu", ndev, devs_with_drum_notes.size()));
    c.sig = vfmt("md|%d|%d", ndev, ntr);
    c.sample(vfmt("{\"stage\":\"multidev\",\"devices\":%d,\"tracks\":%d,\"events\":%zu,\"noteons_resolved\":%ld,\"file_bytes\":%zu}", ndev, ntr + 1, ops.size(), d.resolved, file.size()));
    API("opn2_setRawEventHook", opn2_setRawEventHook(dev, NULL, NULL));
    Tap::detach(dev);
    API("opn2_close", opn2_close(dev));
}

// ------------------------------------------------------------------------------------------
static void run_case(Case &c)
{
    if(g_w.stage == "multidev") { stage_multidev(c); return; }
    Rng &r = c.rng;
    Drv d(c);
    d.wopn_route = (c.k % 2) == 1;
    API("opn2_init", d.dev = opn2_init(r.chance(0.5) ? 44100 : 22050));
    if(!d.dev) { c.violation("oracle:init-failed", "opn2_init returned NULL"); return; }
    OPN2_MIDIPlayer *dev = d.dev;
    d.tap.keep_log = true; d.tap.attach(dev);
    int rc = 0;
    API("opn2_switchEmulator", rc = opn2_switchEmulator(dev, r.chance(0.5) ? 0 : 2));
    API("opn2_setNumChips", rc = opn2_setNumChips(dev, r.range(1, 2)));
    if(!d.install(r)) { if(!g_w.violations_in_case) c.inconclusive = true; Tap::detach(dev); API("opn2_close", opn2_close(dev)); return; }
    d.M.mode = (int)P(dev)->m_synthMode;      // the statement does not name the power-on mode: adopt
    d.initial_mode = d.M.mode;                // ... and expect it back after opn2_reset
    if(d.M.mode != MODE_GM && d.M.mode != MODE_GS && d.M.mode != MODE_XG) { c.inconclusive = true; Tap::detach(dev); API("opn2_close", opn2_close(dev)); return; }

    // value pools aimed at the layout
    std::vector<int> msbs, lsbs, progs, keys, chans;
    for(std::map<unsigned, MBank>::iterator i = d.M.mel.begin(); i != d.M.mel.end(); ++i) { msbs.push_back((int)(i->first >> 8)); lsbs.push_back((int)(i->first & 127)); }
    msbs.push_back(0); msbs.push_back(126); msbs.push_back(127); msbs.push_back(r.below(128)); lsbs.push_back(0); lsbs.push_back(r.below(128)); lsbs.push_back(1);
    for(std::map<unsigned, MBank>::iterator i = d.M.perc.begin(); i != d.M.perc.end(); ++i) progs.push_back((int)(i->first & 127));
    for(int i = 0; i < 4; i++) progs.push_back((int)r.below(128));
    progs.push_back(0); progs.push_back(127);        // first and last entry of a bank
    keys.push_back(r.chance(0.5) ? 127 : 0);
    for(int i = 0; i < 5; i++) keys.push_back(r.range(0, 127));
    keys.push_back(r.range(35, 81));
    chans.push_back(9); chans.push_back((int)r.below(16)); chans.push_back((int)r.below(16)); chans.push_back((int)r.below(9)); chans.push_back(10 + (int)r.below(6));

    const int nev = r.range(120, 320);
    bool alive = true;
    for(int i = 0; i < nev && alive && g_w.violations_in_case < 6; i++)
    {
        int ch = r.pick(chans);
        unsigned op = r.below(100);
        if(op < 34)
        {
            if(d.sounding.size() >= 3) d.release_all();
            int key = r.chance(0.85) ? r.pick(keys) : r.range(0, 127);
            d.ev_noteon(r, ch, key);
            if(r.chance(0.7)) d.release_all();
        }
        else if(op < 46) d.ev_cc(ch, 0, r.chance(0.85) ? r.pick(msbs) : (int)r.below(128));
        else if(op < 55) d.ev_cc(ch, 32, r.chance(0.85) ? r.pick(lsbs) : (int)r.below(128));
        else if(op < 68) d.ev_prog(ch, r.chance(0.8) ? r.pick(progs) : (int)r.below(128));
        else if(op < 76) d.ev_bank_api(ch, (int)r.below(3), r.chance(0.85) ? r.pick(msbs) : (int)r.below(128), r.chance(0.85) ? r.pick(lsbs) : (int)r.below(128));
        else if(op < 82) { alive = d.ev_mode((int)r.below(5)); if(!alive) { c.inconclusive = true; count("mode_sysex_not_followed"); } }
        else if(op < 87) { alive = d.ev_drumpart(ch, (int)r.below(3)); if(!alive) { c.inconclusive = true; count("drum_part_sysex_not_followed"); } }
        else if(op < 90) d.release_all();
        else if(op < 96)
        {   // replace an instrument through the bank API while no note sounds
            if(!d.drain()) { count("replacements_skipped_notes_sounding"); continue; }
            bool perc = r.chance(0.5);
            std::map<unsigned, MBank> &bm = perc ? d.M.perc : d.M.mel;
            std::vector<unsigned> cand;
            for(std::map<unsigned, MBank>::iterator it = bm.begin(); it != bm.end(); ++it) if((it->first >> 8) <= 127 && (it->first & 255) <= 127) cand.push_back(it->first);
            if(cand.empty()) continue;
            MBank &b = bm[r.pick(cand)];
            int idx = perc ? (r.chance(0.8) ? r.pick(keys) : (int)r.below(128)) : (r.chance(0.8) ? r.pick(progs) : (int)r.below(128));
            Ent old = b.e[idx];
            Ent nw = d.M.fresh(perc, b.num, idx, r.chance(0.3), perc ? (uint8_t)(r.chance(0.3) ? 0 : r.range(12, 110)) : 0);
            b.e[idx] = nw;
            if(!d.api_write_slot(b, idx)) { c.violation("oracle:C12:bank-api-write-failed", vfmt("opn2_getBank/opn2_setInstrument failed for existing %s bank %u/%u entry %d", perc ? "percussion" : "melodic", b.num >> 8, b.num & 255, idx)); alive = false; continue; }
            d.M.uids[old.uid].current = false;
            count("instruments_replaced");
            cover(vfmt("replace|%s|%s->%s", perc ? "perc" : "mel", old.blank ? "blank" : "playable", nw.blank ? "blank" : "playable"));
        }
        else if(op < 98)
        {   // add a bank while no note sounds
            if(!d.drain()) continue;
            bool perc = r.chance(0.5);
            unsigned num = perc ? (unsigned)r.pick((const int[]){0, 1, 8, 16, 25, 40, 127}) : (unsigned)r.pick(msbs) * 256 + (unsigned)r.pick(lsbs);
            std::map<unsigned, MBank> &bm = perc ? d.M.perc : d.M.mel;
            if(bm.count(num)) continue;
            MBank b = d.make_bank(r, perc, num);
            if(!d.api_create_bank(b)) { c.violation("oracle:C12:bank-api-write-failed", vfmt("creating %s bank %u/%u failed", perc ? "percussion" : "melodic", num >> 8, num & 255)); alive = false; continue; }
            bm[num] = b;
            count("banks_added_later");
        }
        else if(op < 99) { if(d.drain()) count("drains"); }
        else d.ev_reset();
    }
    d.release_all();
    c.sig = vfmt("%d|%zu|%zu", d.wopn_route, d.M.mel.size(), d.M.perc.size());
    std::string lay;
    for(std::map<unsigned, MBank>::iterator i = d.M.mel.begin(); i != d.M.mel.end(); ++i) lay += vfmt("M%u/%u ", i->first >> 8, i->first & 255);
    for(std::map<unsigned, MBank>::iterator i = d.M.perc.begin(); i != d.M.perc.end(); ++i) lay += vfmt("P%u ", i->first);
    c.sample(std::string("{\"route\":") + jstr(d.wopn_route ? "wopn-image" : "bank-api") + ",\"layout\":" + jstr(lay) + vfmt(",\"events\":%d,\"noteons_resolved\":%ld}", nev, d.resolved));
    Tap::detach(dev);
    API("opn2_close", opn2_close(dev));
}
