// Generators + reference interpretations for DMX MUS and AIL XMI (C01 seeds, C17 oracles).
// Written from the format descriptions (V. Arnost's MUS file format text; the XMIDI notes of the
// Miles Sound System / WildMIDI documentation), not from the library's converters.
#ifndef VCONV_HPP
#define VCONV_HPP

#include "vsmf.hpp"

// A delivered/expected channel event in abstract form
struct XEv
{
    uint64_t tick;      // source ticks (MUS: 1/140 s, XMI: 1/120 s)
    uint8_t status;     // MIDI status with channel
    uint8_t d0, d1;
    bool d1_3v;         // second data byte not decided by the format description (three-valued)
    XEv(): tick(0), status(0), d0(0), d1(0), d1_3v(false) {}
};

// ------------------------------------------------------------------------------------------
// MUS
// ------------------------------------------------------------------------------------------
struct MusScore
{
    std::vector<uint8_t> bytes;
    std::vector<XEv> expect;     // expected MIDI channel events in order
    uint64_t total_ticks;
    int channels_used;
};

static inline MusScore gen_mus(Rng &r, int max_events = 60)
{
    MusScore m;
    std::vector<uint8_t> score;
    // MUS channel -> MIDI channel map in order of first appearance; 15 -> 9
    int map[16]; for(int i = 0; i < 16; i++) map[i] = -1;
    map[15] = 9;
    int next_midi = 0;
    int vol[16]; for(int i = 0; i < 16; i++) vol[i] = -1;   // last volume per MIDI channel; -1 = none yet (3V)
    int nch = r.range(1, 15);
    std::vector<int> chans;
    for(int i = 0; i < nch; i++) chans.push_back(i);
    if(r.chance(0.7)) chans.push_back(15);
    // shuffle order of first appearance
    for(size_t i = chans.size(); i > 1; i--) std::swap(chans[i - 1], chans[r.below((uint32_t)i)]);
    int nev = r.range(3, max_events);
    uint64_t tick = 0;
    bool held[16][128]; memset(held, 0, sizeof(held));
    for(int i = 0; i < nev; i++)
    {
        int mc = chans[r.below((uint32_t)std::min<size_t>(chans.size(), (size_t)(1 + i / 2)))];
        if(map[mc] < 0) { map[mc] = next_midi++; if(next_midi == 9) next_midi++; }
        int midi = map[mc];
        int kind = (int)r.below(100);
        uint8_t evb; std::vector<uint8_t> data; XEv x; x.tick = tick;
        if(kind < 35)
        {
            int key = r.range(20, 110);
            evb = (uint8_t)(0x10 | mc);
            if(r.chance(0.6) || vol[midi] < 0) { int v = r.range(1, 127); data.push_back((uint8_t)(key | 0x80)); data.push_back((uint8_t)v); vol[midi] = v; }
            else data.push_back((uint8_t)key);
            x.status = (uint8_t)(0x90 | midi); x.d0 = (uint8_t)key; x.d1 = (uint8_t)vol[midi];
            held[mc][key] = true;
        }
        else if(kind < 55)
        {
            int key = -1;
            for(int k = 0; k < 128; k++) if(held[mc][k]) { key = k; if(r.chance(0.4)) break; }
            if(key < 0) key = r.range(20, 110);
            held[mc][key] = false;
            evb = (uint8_t)(0x00 | mc); data.push_back((uint8_t)key);
            x.status = (uint8_t)(0x80 | midi); x.d0 = (uint8_t)key; x.d1 = 0; x.d1_3v = true; // release velocity not defined by MUS
        }
        else if(kind < 65)
        {
            int v = r.range(0, 255);
            evb = (uint8_t)(0x20 | mc); data.push_back((uint8_t)v);
            x.status = (uint8_t)(0xE0 | midi); x.d0 = 0; x.d1 = (uint8_t)(v >> 1); // MIDI: d0 = LSB (3V), d1 = MSB
        }
        else if(kind < 72)
        {
            static const int sys[] = {10, 11, 12, 13, 14};
            static const int cc[] = {120, 123, 126, 127, 121};
            int si = r.below(5);
            evb = (uint8_t)(0x30 | mc); data.push_back((uint8_t)sys[si]);
            x.status = (uint8_t)(0xB0 | midi); x.d0 = (uint8_t)cc[si]; x.d1 = 0; x.d1_3v = true;
        }
        else if(kind < 82)
        {
            int p = r.range(0, 127);
            evb = (uint8_t)(0x40 | mc); data.push_back(0); data.push_back((uint8_t)p);
            x.status = (uint8_t)(0xC0 | midi); x.d0 = (uint8_t)p; x.d1 = 0;
        }
        else
        {
            static const int ctl[] = {1, 2, 3, 4, 5, 6, 7, 8, 9};
            static const int cc[] = {0, 1, 7, 10, 11, 91, 93, 64, 67};
            int ci = r.below(9);
            int v = r.range(0, 127);
            evb = (uint8_t)(0x40 | mc); data.push_back((uint8_t)ctl[ci]); data.push_back((uint8_t)v);
            x.status = (uint8_t)(0xB0 | midi); x.d0 = (uint8_t)cc[ci]; x.d1 = (uint8_t)v;
        }
        // delay after this event?
        uint32_t delay = 0;
        double p = r.unit();
        if(p < 0.5) delay = 0;
        else if(p < 0.9) delay = (uint32_t)r.range(1, 100);
        else if(p < 0.98) delay = (uint32_t)r.range(128, 2000);
        else delay = (uint32_t)r.range(16384, 40000);
        if(delay) evb |= 0x80;
        score.push_back(evb);
        put_bytes(score, data);
        if(delay) put_vlq(score, delay);
        m.expect.push_back(x);
        tick += delay;
    }
    score.push_back(0x60);   // score end
    m.total_ticks = tick;
    m.channels_used = next_midi;
    int instr = r.range(0, 5);
    size_t start = 16 + (size_t)instr * 2;
    std::vector<uint8_t> &f = m.bytes;
    put_str(f, "MUS\x1A");
    put_le(f, score.size(), 2); put_le(f, start, 2); put_le(f, (uint64_t)std::min(nch, 15), 2); put_le(f, 0, 2); put_le(f, (uint64_t)instr, 2); put_le(f, 0, 2);
    for(int i = 0; i < instr; i++) put_le(f, (uint64_t)r.range(0, 174), 2);
    put_bytes(f, score);
    return m;
}

// ------------------------------------------------------------------------------------------
// XMI
// ------------------------------------------------------------------------------------------
struct XmiSong
{
    std::vector<uint8_t> evnt;
    std::vector<XEv> expect;      // incl. synthesized note-offs, sorted by tick (stable)
    uint32_t tempo_us;
    uint64_t total_ticks;
};
struct XmiFile { std::vector<uint8_t> bytes; std::vector<XmiSong> songs; };

static inline void xmi_delay(std::vector<uint8_t> &b, uint32_t d) { while(d > 127) { b.push_back(127); d -= 127; } if(d) b.push_back((uint8_t)d); }

static inline XmiSong gen_xmi_song(Rng &r, int song_index, int max_events = 40)
{
    XmiSong s;
    static const uint32_t tempos[] = {500000, 300000, 400000, 600000, 750000, 1000000, 333333};
    s.tempo_us = r.pick(tempos);
    std::vector<uint8_t> &b = s.evnt;
    // tempo meta at time 0
    b.push_back(0xFF); b.push_back(0x51); b.push_back(0x03); put_be(b, s.tempo_us, 3);
    // An XMI sequence plays at AIL's fixed 120 Hz: the first tempo event is what "carries its tempo" (it fixes the division of the
    // converted song), further tempo events (a second one at time 0, or later in the sequence) must not change the tick rate
    const bool more_tempos = r.chance(0.3);
    if(more_tempos && r.chance(0.5)) { uint32_t t2; do t2 = r.pick(tempos); while(t2 == s.tempo_us); b.push_back(0xFF); b.push_back(0x51); b.push_back(0x03); put_be(b, t2, 3); }
    uint64_t tick = 0;
    std::vector<XEv> offs;
    int nev = r.range(3, max_events);
    for(int i = 0; i < nev; i++)
    {
        uint32_t d = r.chance(0.4) ? 0 : (r.chance(0.9) ? (uint32_t)r.range(1, 120) : (uint32_t)r.range(128, 900));
        xmi_delay(b, d);
        tick += d;
        if(more_tempos && r.chance(0.12)) { uint32_t t2; do t2 = r.pick(tempos); while(t2 == s.tempo_us); b.push_back(0xFF); b.push_back(0x51); b.push_back(0x03); put_be(b, t2, 3); }
        int ch = r.chance(0.2) ? 9 : (song_index * 3 + (int)r.below(3)) % 16;
        int kind = (int)r.below(100);
        XEv x; x.tick = tick;
        if(kind < 55)
        {
            int key = r.range(24, 100), vel = r.range(1, 127);
            uint32_t dur = r.chance(0.85) ? (uint32_t)r.range(1, 240) : (uint32_t)r.range(241, 5000);
            b.push_back((uint8_t)(0x90 | ch)); b.push_back((uint8_t)key); b.push_back((uint8_t)vel); put_vlq(b, dur);
            x.status = (uint8_t)(0x90 | ch); x.d0 = (uint8_t)key; x.d1 = (uint8_t)vel;
            XEv o; o.tick = tick + dur; o.status = (uint8_t)(0x90 | ch); o.d0 = (uint8_t)key; o.d1 = 0; // note-on velocity 0 = note-off
            offs.push_back(o);
        }
        else if(kind < 75)
        {
            static const int ccs[] = {1, 7, 10, 11, 64, 91, 93, 74};
            int cc = r.pick(ccs), v = r.range(0, 127);
            // AIL's own controllers that are not sequence control (channel lock 110, lock protect 111, voice protect 112, timbre protect
            // 113, patch bank select 114, indirect controller prefix 115, clear beat/bar count 118): plain controllers of the sequence
            if(r.chance(0.25)) cc = (int)r.pick((const int[]){110, 111, 112, 113, 114, 115, 118});
            b.push_back((uint8_t)(0xB0 | ch)); b.push_back((uint8_t)cc); b.push_back((uint8_t)v);
            x.status = (uint8_t)(0xB0 | ch); x.d0 = (uint8_t)cc; x.d1 = (uint8_t)v;
            if(cc == 114 && ch != 9) x.d0 = 32;      // AIL patch bank select is what MIDI calls bank select (LSB); percussion channel untouched
        }
        else if(kind < 85)
        {
            int p = r.range(0, 127);
            b.push_back((uint8_t)(0xC0 | ch)); b.push_back((uint8_t)p);
            x.status = (uint8_t)(0xC0 | ch); x.d0 = (uint8_t)p;
        }
        else if(kind < 95)
        {
            int l = r.range(0, 127), m = r.range(0, 127);
            b.push_back((uint8_t)(0xE0 | ch)); b.push_back((uint8_t)l); b.push_back((uint8_t)m);
            x.status = (uint8_t)(0xE0 | ch); x.d0 = (uint8_t)l; x.d1 = (uint8_t)m;
        }
        else
        {
            int v = r.range(0, 127);
            b.push_back((uint8_t)(0xD0 | ch)); b.push_back((uint8_t)v);
            x.status = (uint8_t)(0xD0 | ch); x.d0 = (uint8_t)v;
        }
        s.expect.push_back(x);
    }
    // end of track after the longest note
    uint64_t last = tick;
    for(size_t i = 0; i < offs.size(); i++) last = std::max(last, offs[i].tick);
    uint32_t tail = (uint32_t)(last - tick) + (uint32_t)r.range(0, 60);
    xmi_delay(b, tail);
    b.push_back(0xFF); b.push_back(0x2F); b.push_back(0x00);
    s.total_ticks = tick + tail;
    // merge note-offs
    for(size_t i = 0; i < offs.size(); i++) s.expect.push_back(offs[i]);
    std::stable_sort(s.expect.begin(), s.expect.end(), [](const XEv &a, const XEv &c) { return a.tick < c.tick; });
    return s;
}

static inline void iff_chunk(std::vector<uint8_t> &f, const char *id, const std::vector<uint8_t> &body)
{
    put_str(f, id); put_be(f, body.size(), 4); put_bytes(f, body); if(body.size() & 1) f.push_back(0);
}

static inline XmiFile gen_xmi(Rng &r, int nsongs = 0, int max_events = 40)
{
    XmiFile x;
    if(nsongs <= 0) nsongs = r.range(1, 4);
    for(int i = 0; i < nsongs; i++) x.songs.push_back(gen_xmi_song(r, i, max_events));
    std::vector<uint8_t> info; put_le(info, (uint64_t)nsongs, 2);
    std::vector<uint8_t> xdir; put_str(xdir, "XDIR"); iff_chunk(xdir, "INFO", info);
    std::vector<uint8_t> cat; put_str(cat, "XMID");
    for(int i = 0; i < nsongs; i++)
    {
        std::vector<uint8_t> form; put_str(form, "XMID");
        if(r.chance(0.3)) { std::vector<uint8_t> timb; put_le(timb, 1, 2); timb.push_back(0); timb.push_back(0); iff_chunk(form, "TIMB", timb); }
        iff_chunk(form, "EVNT", x.songs[(size_t)i].evnt);
        iff_chunk(cat, "FORM", form);
    }
    iff_chunk(x.bytes, "FORM", xdir);
    iff_chunk(x.bytes, "CAT ", cat);
    return x;
}

#endif
