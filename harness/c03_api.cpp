// C03 — any sequence of API calls on a live instance is memory-safe and terminates; calls documented to
// fail return their error value. One case = one instance driven through <= 400 calls drawn from the whole
// exported API with boundary-biased arguments, exactly sized heap out-buffers and only live bank handles.
#include "vconv.hpp"

static const char *harness_name() { return "c03_api"; }
static void harness_init() { default_bank(); }

typedef std::vector<uint8_t> Bytes;

static uint8_t g_u8(Rng &r) { static const int v[] = {0, 1, 9, 15, 16, 17, 126, 127, 128, 200, 255, 60, 64, 100}; return r.chance(0.7) ? (uint8_t)r.pick(v) : r.byte(); }
static int g_int(Rng &r) { static const int v[] = {INT32_MIN, -2, -1, 0, 1, 2, 31, 32, 33, 100, 101, INT32_MAX, 5, 7, 8, 9, 64, 127, 128}; return r.chance(0.85) ? r.pick(v) : (int)r.next(); }
static double g_dbl(Rng &r) { static const double v[] = {-1, 0, 1e-12, 0.001, 0.02, 1, 1e9, HUGE_VAL, NAN, -HUGE_VAL, 0.5, 3}; return r.pick(v); }

struct HeapBuf
{   // exactly-sized heap block: one byte of overrun is an ASan report
    uint8_t *p; size_t n;
    explicit HeapBuf(size_t n_): p((uint8_t *)malloc(n_ ? n_ : 1)), n(n_) {}
    ~HeapBuf() { free(p); }
};

static void cb_raw(void *ud, OPN2_UInt8, OPN2_UInt8, OPN2_UInt8, const OPN2_UInt8 *d, size_t n) { long *c = (long *)ud; (*c)++; if(n && d) (void)d[n - 1]; }
static void cb_note(void *ud, int, int, int, int, double) { (*(long *)ud)++; }
// the debug hook formats its message, as a user's hook would: the library has to pass arguments that match its format string
static void cb_dbg(void *ud, const char *fmt, ...)
{
    (*(long *)ud)++;
    char buf[512]; va_list ap; va_start(ap, fmt); int n = vsnprintf(buf, sizeof(buf), fmt, ap); va_end(ap);
    if(n > 0) (void)buf[0];
}
static void cb_loop(void *ud) { (*(long *)ud)++; }

static Bytes some_music(Rng &r, bool &hostile)
{
    hostile = r.chance(0.3);
    Bytes f;
    if(hostile) { int n = r.range(0, 60); static const char *mg[] = {"MThd\0\0\0\6", "RIFF", "MUS\x1A", "FORM\0\0\0\x0eXDIR", "CTMF"}; static const size_t ml[] = {8, 4, 4, 12, 4}; int m = r.below(5); if(r.chance(0.8)) f.insert(f.end(), (const uint8_t *)mg[m], (const uint8_t *)mg[m] + ml[m]); for(int i = 0; i < n; i++) f.push_back(r.byte()); return f; }
    switch(r.below(6))
    {
    case 4:
    {   // EA-MUS (RSXX) image: byte 0 = offset (>= 0x5D) of the data, "rsxx}u" 16 bytes before it, then one SMF-like track without its
        // initial delta. The only music format that locks the synthesizer's set-up (chip count, volume model) while it is loaded.
        int start = r.range(0x5D, 0x7F);
        f.assign((size_t)start, 0);
        f[0] = (uint8_t)start; memcpy(&f[(size_t)start - 0x10], "rsxx}u", 6);
        SongOpts o1; o1.max_tracks = 1; o1.min_tracks = 1; o1.max_events = 14; o1.sysex_meta = false; o1.tempo_changes = false;
        Song s1 = gen_song(r, o1);
        Bytes t = serialize_track(s1, s1.tracks[0]);
        size_t skip = 0; while(skip < t.size() && (t[skip] & 0x80)) skip++; skip++;
        f.insert(f.end(), t.begin() + (long)std::min(skip, t.size()), t.end());
        return f;
    }
    case 5:
    {   // a well-formed multi-track song damaged in one place: the loader gets past the header (and usually some tracks) before it
        // refuses the file, on an instance that may hold an earlier song
        SongOpts o; o.min_tracks = 2; o.max_tracks = 4; o.max_events = 12; Song s = gen_song(r, o); f = serialize_song(s);
        hostile = true;
        std::vector<size_t> trk; for(size_t i = 14; i + 8 <= f.size(); i++) if(!memcmp(&f[i], "MTrk", 4)) trk.push_back(i);
        if(trk.empty()) return f;
        size_t t = trk[r.below((uint32_t)trk.size())];
        switch(r.below(5))
        {
        case 0: f[t + 4] = f[t + 5] = f[t + 6] = f[t + 7] = 0; break;                           // the chunk claims no data: no first delta time to read
        case 1: f.resize(t + 8); break;                                                          // the file ends behind the chunk header
        case 2: f.resize(t + 8 + r.below((uint32_t)(f.size() - t - 8 + 1))); break;              // ... or somewhere inside the track
        case 3: { Bytes z; put_str(z, "MTrk"); put_be(z, 0, 4); f.insert(f.begin() + (long)t, z.begin(), z.end()); f[11]++; break; }   // an empty extra track in front of this one
        default: f[t + 8] = 0xFF; f[t + 9] = 0x80; break;                                        // delta time that never ends / event without delta
        }
        return f;
    }
    case 0: { SongOpts o; o.max_tracks = 3; o.max_events = 20; o.devices = r.chance(0.4); Song s = gen_song(r, o); return serialize_song(s); }
    case 1: return gen_mus(r, 20).bytes;
    case 2: return gen_xmi(r, 0, 12).bytes;
    default: { SongOpts o; o.max_tracks = 2; o.max_events = 12; Song s = gen_song(r, o); return wrap_rmi(serialize_song(s), true, Bytes()); }
    }
}

static Bytes some_bank(Rng &r, bool &expect_ok)
{
    Bytes b = default_bank();
    expect_ok = true;
    int k = r.below(10);
    if(k < 5) return b;
    expect_ok = false;   // unknown: mutated
    if(k == 5) { b.resize(r.below((uint32_t)b.size())); return b; }
    if(k == 6) { b.clear(); int n = r.range(0, 40); for(int i = 0; i < n; i++) b.push_back(r.byte()); return b; }
    if(k == 7) { for(int i = 0; i < 4; i++) b[r.below(24)] = r.byte(); return b; }
    if(k == 8) { b[11] = 3; return b; }           // newer version
    for(int i = 0; i < 20; i++) b[r.below((uint32_t)b.size())] = r.byte();
    return b;
}

static void run_case(Case &c)
{
    Rng &r = c.rng;
    static const long rates[] = {8000, 11025, 22050, 44100, 48000, 53267, 55466, 96000, 192000};
    long rate = r.pick(rates);
    OPN2_MIDIPlayer *dev = NULL;
    API("opn2_init", dev = opn2_init(rate));
    if(!dev) { c.violation("oracle:init-failed", "opn2_init returned NULL"); return; }
    long n_raw = 0, n_note = 0, n_dbg = 0, n_loop = 0;
    std::vector<OPN2_Bank> banks;           // handles known to be live
    int emu = 0, chips = 2;
    bool music_loaded = false;
    std::set<std::string> triples; std::set<int> fnset;
    std::string calls;
    int ncalls = r.range(20, (int)g_w.optnum("maxcalls", 400));
    int prev_fn = -1;
    double audio_budget_frames = 40000;     // total frames this case may render (scaled by cost)
    if(g_w.stage == "memcheck") audio_budget_frames = 2500;      // under valgrind a rendered frame costs 30..50 times as much: keep single calls far below the CPU budget
    // frames a phrase may render in one call: the nominal size, cut down when the configuration is expensive (many chips of a slow core)
    #define PHRASE_FRAMES(n) ((int)std::max(16.0, std::min((double)(n), (g_w.stage == "memcheck" ? 600.0 : 40000.0) / cost())))

    // initial configuration
    {
        static const int emus[] = {0, 1, 2, 3, 4, 5, 6, 7, 8};
        static const int chipc[] = {1, 2, 3, 6, 16, 50, 100};
        emu = r.pick(emus); chips = r.chance(0.8) ? r.pick(chipc) % 7 + 1 : r.pick(chipc);
        int rc = 0;
        API("opn2_setNumChips", rc = opn2_setNumChips(dev, chips));
        if(rc != 0) c.violation("oracle:documented-return:opn2_setNumChips", vfmt("setNumChips(%d) returned %d", chips, rc));
        API("opn2_switchEmulator", rc = opn2_switchEmulator(dev, emu));
        if(rc != 0) c.violation("oracle:documented-return:opn2_switchEmulator", vfmt("switchEmulator(%d) returned %d", emu, rc));
        if(r.chance(0.85)) { ExactBuf b(default_bank()); API("opn2_openBankData", rc = opn2_openBankData(dev, b.p, (long)b.n)); if(rc != 0) c.violation("oracle:default-bank-rejected", "default bank rejected"); }
    }
    auto cost = [&]() { double e = (emu == 1 || emu == 8) ? 30.0 : (emu == 3 || emu == 6) ? 6.0 : 1.0; int obtained = opn2_getNumChipsObtained(dev); return e * std::max(1, obtained) * (192000.0 / std::max<long>(rate, 8000) > 4 ? 4.0 : 1.0); };

    for(int i = 0; i < ncalls && g_w.violations_in_case < 10; i++)
    {
        OPN2_MIDIPlayer *d = r.chance(0.03) ? NULL : dev;
        int fn = (int)r.below(86);
        std::string argc = "-", retc = "-";
        #define RET(cond_ok, name, rcval) do { retc = vfmt("%d", (int)(rcval)); if(!(cond_ok)) c.violation(std::string("oracle:documented-return:") + (name), vfmt("%s returned %d (args %s)", (name), (int)(rcval), argc.c_str())); } while(0)
        switch(fn)
        {
        case 0: { int n = g_int(r); argc = (n >= 1 && n <= 100) ? "in" : "out"; int rc = 0; API("opn2_setNumChips", rc = opn2_setNumChips(d, n));
                  if(!d) RET(rc == -2, "opn2_setNumChips", rc); else if(n >= 1 && n <= 100) { RET(rc == 0, "opn2_setNumChips", rc); chips = n; } else RET(rc == -1, "opn2_setNumChips", rc); break; }
        case 1: { int rc = 0; API("opn2_getNumChips", rc = opn2_getNumChips(d)); if(!d) RET(rc == -2, "opn2_getNumChips", rc); else retc = "n"; break; }
        case 2: { int rc = 0; API("opn2_getNumChipsObtained", rc = opn2_getNumChipsObtained(d)); if(!d) RET(rc == -2, "opn2_getNumChipsObtained", rc); else RET(rc >= 1 && rc <= 100, "opn2_getNumChipsObtained", rc); break; }
        case 3: { unsigned n = (unsigned)r.pick((const int[]){0, 1, 2, 4, 5, 8, 17, 64, 300}); int rc = 0; API("opn2_reserveBanks", rc = opn2_reserveBanks(d, n)); if(!d) RET(rc == -1, "opn2_reserveBanks", rc); else RET(rc >= (int)n, "opn2_reserveBanks", rc); break; }
        case 4: case 5: case 6:
        {
            OPN2_BankId id; id.percussive = (uint8_t)(r.chance(0.9) ? r.below(2) : g_u8(r)); id.msb = r.chance(0.85) ? (uint8_t)r.pick((const int[]){0, 1, 2, 64, 127}) : g_u8(r); id.lsb = r.chance(0.85) ? (uint8_t)r.pick((const int[]){0, 1, 127}) : g_u8(r);
            int flags = r.pick((const int[]){0, OPNMIDI_Bank_Create, OPNMIDI_Bank_CreateRt, 0, OPNMIDI_Bank_Create});
            bool valid = id.percussive <= 1 && id.msb <= 127 && id.lsb <= 127;
            argc = vfmt("%s/f%d", valid ? "valid" : "invalid", flags);
            OPN2_Bank bk; memset(&bk, 0, sizeof(bk)); int rc = 0;
            bool use_null = r.chance(0.03);
            API("opn2_getBank", rc = opn2_getBank(d, use_null ? NULL : &id, flags, &bk));
            if(!d || use_null || !valid) RET(rc == -1, "opn2_getBank", rc);
            else { retc = vfmt("%d", rc); if(rc == 0) { bool known = false; for(size_t j = 0; j < banks.size(); j++) if(!memcmp(&banks[j], &bk, sizeof(bk))) known = true; if(!known) banks.push_back(bk); }
                   else if(flags == OPNMIDI_Bank_Create) c.violation("oracle:documented-return:opn2_getBank", "creating a bank with valid id failed"); }
            break;
        }
        case 7: { if(banks.empty() || !d) break; OPN2_Bank bk = r.pick(banks); OPN2_BankId id; memset(&id, 0xEE, sizeof(id)); int rc = 0; API("opn2_getBankId", rc = opn2_getBankId(d, &bk, &id)); RET(rc == 0 && id.percussive <= 1 && id.msb <= 127 && id.lsb <= 127, "opn2_getBankId", rc); break; }
        case 8: { if(banks.empty() || !d) break; size_t j = r.below((uint32_t)banks.size()); OPN2_Bank bk = banks[j]; int rc = 0; API("opn2_removeBank", rc = opn2_removeBank(d, &bk)); RET(rc == 0, "opn2_removeBank", rc);
                  banks.clear(); /* iterators of other banks stay valid, but keep the model simple: re-discover through iteration */ break; }
        case 9: case 10:
        {   // iterate all banks
            OPN2_Bank bk; memset(&bk, 0, sizeof(bk)); int rc = 0; API("opn2_getFirstBank", rc = opn2_getFirstBank(d, &bk));
            if(!d) { RET(rc == -1, "opn2_getFirstBank", rc); break; }
            int steps = 0; banks.clear();
            while(rc == 0 && steps < 40000) { banks.push_back(bk); API("opn2_getNextBank", rc = opn2_getNextBank(d, &bk)); steps++; }
            if(steps >= 40000) c.violation("oracle:bank-iteration-does-not-end", "40000 steps");
            retc = vfmt("n%d", steps > 3 ? 3 : steps);
            break;
        }
        case 11: case 12:
        {
            if(banks.empty() || !d) break; OPN2_Bank bk = r.pick(banks);
            unsigned idx = r.chance(0.8) ? (unsigned)r.below(128) : (unsigned)r.pick((const int[]){127, 128, 129, 255, 256, -1});
            HeapBuf ib(sizeof(OPN2_Instrument)); OPN2_Instrument *ins = (OPN2_Instrument *)ib.p; memset(ins, 0xCD, sizeof(*ins)); int rc = 0;
            argc = idx > 127 ? "idx-out" : "idx-in";
            API("opn2_getInstrument", rc = opn2_getInstrument(d, &bk, idx, ins));
            if(idx > 127) RET(rc == -1, "opn2_getInstrument", rc); else RET(rc == 0 && ins->version == 0, "opn2_getInstrument", rc);
            break;
        }
        case 13: case 14: case 15:
        {
            if(banks.empty() || !d) break; OPN2_Bank bk = r.pick(banks);
            unsigned idx = r.chance(0.85) ? (unsigned)r.below(128) : (unsigned)r.pick((const int[]){128, 255, 256, -1});
            HeapBuf ib(sizeof(OPN2_Instrument)); OPN2_Instrument *ins = (OPN2_Instrument *)ib.p;
            for(size_t j = 0; j < sizeof(*ins); j++) ib.p[j] = r.chance(0.5) ? r.byte() : (uint8_t)r.pick((const int[]){0, 0x7F, 0x80, 0xFF});
            ins->version = r.chance(0.9) ? 0 : (int)r.below(3);
            if(r.chance(0.7)) ins->inst_flags &= ~OPNMIDI_Ins_IsBlank;
            if(r.chance(0.5)) ins->note_offset = (int16_t)r.pick((const int[]){0, 12, -12, 100, -100, 12287, 12288, 12300, 32767, -32768, -12300});
            argc = vfmt("%s/v%d", idx > 127 ? "idx-out" : "idx-in", ins->version);
            int rc = 0; API("opn2_setInstrument", rc = opn2_setInstrument(d, &bk, idx, ins));
            if(idx > 127 || ins->version != 0) RET(rc == -1, "opn2_setInstrument", rc); else RET(rc == 0, "opn2_setInstrument", rc);
            break;
        }
        case 16: API("opn2_setLfoEnabled", opn2_setLfoEnabled(d, g_int(r))); break;
        case 17: { int v = 0; API("opn2_getLfoEnabled", v = opn2_getLfoEnabled(d)); if(!d) RET(v == -1, "opn2_getLfoEnabled", v); break; }
        case 18: API("opn2_setLfoFrequency", opn2_setLfoFrequency(d, g_int(r))); break;
        case 19: { int v = 0; API("opn2_getLfoFrequency", v = opn2_getLfoFrequency(d)); if(!d) RET(v == -1, "opn2_getLfoFrequency", v); break; }
        case 20: { int v = r.pick((const int[]){-1, 0, 1, 0, 1, 2, 100, -5}); API("opn2_setChipType", opn2_setChipType(d, v)); break; }
        case 21: { int v = 0; API("opn2_getChipType", v = opn2_getChipType(d)); if(!d) RET(v == -1, "opn2_getChipType", v); break; }
        case 22: API("opn2_setScaleModulators", opn2_setScaleModulators(d, g_int(r))); break;
        case 23: API("opn2_setFullRangeBrightness", opn2_setFullRangeBrightness(d, g_int(r))); break;
        case 24: API("opn2_setAutoArpeggio", opn2_setAutoArpeggio(d, (int)r.below(2))); break;
        case 25: { int v = 0; API("opn2_getAutoArpeggio", v = opn2_getAutoArpeggio(d)); RET(v == 0 || v == 1, "opn2_getAutoArpeggio", v); break; }
        case 26: API("opn2_setLoopEnabled", opn2_setLoopEnabled(d, 0)); break;   // looping kept off: bounded work (C01/C09 cover loops)
        case 27: API("opn2_setLoopCount", opn2_setLoopCount(d, r.range(0, 3))); break;
        case 28: API("opn2_setLoopHooksOnly", opn2_setLoopHooksOnly(d, g_int(r))); break;
        case 29: API("opn2_setSoftPanEnabled", opn2_setSoftPanEnabled(d, g_int(r))); break;
        case 30: API("opn2_setLogarithmicVolumes", opn2_setLogarithmicVolumes(d, g_int(r))); break;
        case 31: API("opn2_setVolumeRangeModel", opn2_setVolumeRangeModel(d, r.chance(0.7) ? r.range(0, 6) : g_int(r))); break;
        case 32: { int v = 0; API("opn2_getVolumeRangeModel", v = opn2_getVolumeRangeModel(d)); if(!d) RET(v == -1, "opn2_getVolumeRangeModel", v); else RET(v >= 1 && v <= 5, "opn2_getVolumeRangeModel", v); break; }
        case 33: API("opn2_setChannelAllocMode", opn2_setChannelAllocMode(d, r.chance(0.7) ? r.range(-1, 3) : g_int(r))); break;
        case 34: { int v = 0; API("opn2_getChannelAllocMode", v = opn2_getChannelAllocMode(d)); RET(v >= -1 && v <= 2, "opn2_getChannelAllocMode", v); break; }
        case 35:
        {
            bool ok; Bytes b = some_bank(r, ok); long sz = (long)b.size(); int variant = r.below(20);
            if(variant == 0) sz = 0; else if(variant == 1 && sz > 0) sz = sz - 1;
            ExactBuf eb(b.data(), (size_t)sz); int rc = 0;
            API("opn2_openBankData", rc = opn2_openBankData(d, eb.p, sz));
            argc = ok && variant > 1 ? "good" : "unknown";
            if(!d) RET(rc == -1, "opn2_openBankData", rc);
            else { RET(rc == 0 || rc == -1, "opn2_openBankData", rc); if(ok && variant > 1 && rc != 0) c.violation("oracle:documented-return:opn2_openBankData", "well-formed bank rejected");
                   if(rc == -1) { const char *e = NULL; API("opn2_errorInfo", e = opn2_errorInfo(d)); if(!e || !*e) c.violation("oracle:error-text-empty:opn2_openBankData", "rejected bank without error text"); }
                   if(rc == 0) banks.clear(); }
            break;
        }
        case 36: { int rc = 0; API("opn2_openBankFile", rc = opn2_openBankFile(d, r.chance(0.5) ? "/nonexistent/bank.wopn" : "")); RET(rc == -1, "opn2_openBankFile", rc); break; }
        case 37: { const char *s = NULL; API("opn2_emulatorName", s = opn2_emulatorName()); if(!s) c.violation("oracle:null-string:opn2_emulatorName", ""); else (void)strlen(s); break; }
        case 38: { const char *s = NULL; API("opn2_chipEmulatorName", s = opn2_chipEmulatorName(d)); if(!s) c.violation("oracle:null-string:opn2_chipEmulatorName", ""); else (void)strlen(s); break; }
        case 39: case 40:
        {
            int e = r.chance(0.6) ? r.range(0, 8) : r.pick((const int[]){-1, 9, 10, 31, 32, 33, 63, 64, 100, INT32_MAX, INT32_MIN, 39, 40, 71});
            bool avail = e >= 0 && e <= 8; argc = avail ? "avail" : "unavail";
            if(avail && (e == 1 || e == 8) && opn2_getNumChipsObtained(dev) > 8) { API("opn2_setNumChips", opn2_setNumChips(dev, 2)); chips = 2; }
            int rc = 0; API("opn2_switchEmulator", rc = opn2_switchEmulator(d, e));
            if(!d || !avail) RET(rc == -1, "opn2_switchEmulator", rc); else { RET(rc == 0, "opn2_switchEmulator", rc); emu = e; }
            break;
        }
        case 41: { int rc = 0; API("opn2_setRunAtPcmRate", rc = opn2_setRunAtPcmRate(d, (int)r.below(2))); if(!d) RET(rc == -1, "opn2_setRunAtPcmRate", rc); else RET(rc == 0, "opn2_setRunAtPcmRate", rc); break; }
        case 42: { unsigned id = r.chance(0.6) ? r.below(16) : (unsigned)r.pick((const int[]){16, 17, 127, 255, -1}); argc = id > 15 ? "out" : "in"; int rc = 0; API("opn2_setDeviceIdentifier", rc = opn2_setDeviceIdentifier(d, id));
                   if(!d || id > 15) RET(rc == -1, "opn2_setDeviceIdentifier", rc); else RET(rc == 0, "opn2_setDeviceIdentifier", rc); break; }
        case 43: { const char *s = NULL; API("opn2_linkedLibraryVersion", s = opn2_linkedLibraryVersion()); if(!s) c.violation("oracle:null-string:opn2_linkedLibraryVersion", ""); const OPN2_Version *v = NULL; API("opn2_linkedVersion", v = opn2_linkedVersion()); if(!v) c.violation("oracle:null:opn2_linkedVersion", ""); break; }
        case 44: { const char *s = NULL; API("opn2_errorString", s = opn2_errorString()); if(!s) c.violation("oracle:null-string:opn2_errorString", ""); else (void)strlen(s); API("opn2_errorInfo", s = opn2_errorInfo(d)); if(!s) c.violation("oracle:null-string:opn2_errorInfo", ""); else (void)strlen(s); break; }
        case 45:
        {
            bool hostile; Bytes f = some_music(r, hostile); unsigned long sz = (unsigned long)f.size(); if(r.chance(0.03)) sz = 0;
            ExactBuf eb(f.data(), (size_t)sz); int rc = 0;
            API("opn2_openData", rc = opn2_openData(d, eb.p, sz));
            argc = hostile ? "hostile" : "wellformed";
            if(!d) RET(rc == -1, "opn2_openData", rc); else { RET(rc == 0 || rc == -1, "opn2_openData", rc); if(rc == 0) music_loaded = true;
                if(rc == -1) { const char *e = NULL; API("opn2_errorInfo", e = opn2_errorInfo(d)); if(!e || !*e) c.violation("oracle:error-text-empty:opn2_openData", "rejected music without error text"); } }
            break;
        }
        case 46: { int rc = 0; API("opn2_openFile", rc = opn2_openFile(d, "/nonexistent/file.mid")); RET(rc == -1, "opn2_openFile", rc); break; }
        case 47: API("opn2_selectSongNum", opn2_selectSongNum(d, r.range(-2, 5))); break;
        case 48: { int v = 0; API("opn2_getSongsCount", v = opn2_getSongsCount(d)); RET(v >= 0, "opn2_getSongsCount", v); break; }
        case 49: API("opn2_reset", opn2_reset(d)); break;
        case 50: { double v = 0; API("opn2_totalTimeLength", v = opn2_totalTimeLength(d)); (void)v; API("opn2_loopStartTime", v = opn2_loopStartTime(d)); API("opn2_loopEndTime", v = opn2_loopEndTime(d)); API("opn2_positionTell", v = opn2_positionTell(d)); break; }
        case 51: API("opn2_positionSeek", opn2_positionSeek(d, g_dbl(r))); break;
        case 52: API("opn2_positionRewind", opn2_positionRewind(d)); break;
        case 53: { double t = r.pick((const double[]){-1, 0, 1e-9, 0.5, 1, 2, 100, 1e9}); API("opn2_setTempo", opn2_setTempo(d, t)); break; }
        case 54: { int v = 0; API("opn2_atEnd", v = opn2_atEnd(d)); RET(v == 0 || v == 1, "opn2_atEnd", v); size_t n = 0; API("opn2_trackCount", n = opn2_trackCount(d)); (void)n; break; }
        case 55:
        {
            const char *s = NULL; API("opn2_metaMusicTitle", s = opn2_metaMusicTitle(d)); if(s) (void)strlen(s);
            API("opn2_metaMusicCopyright", s = opn2_metaMusicCopyright(d)); if(s) (void)strlen(s);
            size_t n = 0; API("opn2_metaTrackTitleCount", n = opn2_metaTrackTitleCount(d));
            size_t idx = r.chance(0.5) ? r.below((uint32_t)n + 3) : (size_t)r.next();
            API("opn2_metaTrackTitle", s = opn2_metaTrackTitle(d, idx)); if(s) (void)strlen(s); else c.violation("oracle:null-string:opn2_metaTrackTitle", "");
            API("opn2_metaMarkerCount", n = opn2_metaMarkerCount(d));
            idx = r.chance(0.5) ? r.below((uint32_t)n + 3) : (size_t)r.next();
            Opn2_MarkerEntry m; memset(&m, 0, sizeof(m)); API("opn2_metaMarker", m = opn2_metaMarker(d, idx)); if(m.label) (void)strlen(m.label);
            break;
        }
        case 56: case 57: case 58: case 59:
        {   // audio
            bool play = (fn & 1) != 0;
            int want = r.pick((const int[]){0, 1, 2, 3, 1023, 1024, 1025, 70000, -2, 512, 100});
            double cst = cost();
            int maxsmp = (int)std::max(64.0, std::min(70000.0, 2.0 * audio_budget_frames / cst));
            if(want > maxsmp) want = maxsmp & ~1;
            int fmtsel = r.below(4);
            int even = want > 0 ? want - (want % 2) : 0;
            if(fmtsel == 0)
            {
                HeapBuf out((size_t)std::max(even, 0) * sizeof(short)); int rc = 0;
                if(play) API("opn2_play", rc = opn2_play(d, want, (short *)out.p)); else API("opn2_generate", rc = opn2_generate(d, want, (short *)out.p));
                if(!d) RET(rc == 0, play ? "opn2_play" : "opn2_generate", rc);
                else if(play) RET(rc >= 0 && rc <= even, "opn2_play", rc); else RET(rc == even, "opn2_generate", rc);
                audio_budget_frames -= cst * even / 2;
            }
            else
            {
                static const int types[] = {OPNMIDI_SampleType_S16, OPNMIDI_SampleType_S8, OPNMIDI_SampleType_F32, OPNMIDI_SampleType_F64, OPNMIDI_SampleType_S24, OPNMIDI_SampleType_S32, OPNMIDI_SampleType_U8, OPNMIDI_SampleType_U16, OPNMIDI_SampleType_U24, OPNMIDI_SampleType_U32, 10, -1};
                static const unsigned natural[] = {2, 1, 4, 8, 4, 4, 1, 2, 4, 4, 4, 4};
                int ti = r.below(12); OPNMIDI_AudioFormat f; f.type = (OPNMIDI_SampleType)types[ti];
                f.containerSize = r.chance(0.8) ? natural[ti] : (unsigned)r.pick((const int[]){1, 2, 4, 8, 3, 0});
                unsigned cs = f.containerSize ? f.containerSize : 1;
                bool planar = r.chance(0.3);
                f.sampleOffset = planar ? cs + (r.chance(0.3) ? 4 : 0) : 2 * cs + (r.chance(0.3) ? 4 : 0);
                size_t frames = (size_t)even / 2;
                // exact extent: last written byte of a channel = (frames-1)*offset + containerSize
                size_t span = frames ? (frames - 1) * f.sampleOffset + cs : 0;
                HeapBuf L(planar ? span : span + (frames ? cs : 0)), R(planar ? span : 0);
                uint8_t *lp = L.p, *rp = planar ? R.p : L.p + cs;
                int rc = 0;
                if(play) API("opn2_playFormat", rc = opn2_playFormat(d, want, lp, rp, &f)); else API("opn2_generateFormat", rc = opn2_generateFormat(d, want, lp, rp, &f));
                argc = vfmt("t%d/c%u", types[ti], f.containerSize);
                if(!d) RET(rc == 0, "opn2_playFormat", rc); else RET(rc >= 0 && rc <= even, play ? "opn2_playFormat" : "opn2_generateFormat", rc);
                audio_budget_frames -= cst * even / 2;
            }
            break;
        }
        case 60: { double dt = r.pick((const double[]){0, 1e-4, 0.01, 0.1, 1, 10, -1, 1e6}); double g = r.pick((const double[]){0, 1e-5, 0.001, 0.5, -1, HUGE_VAL, NAN}); double v = 0; API("opn2_tickEvents", v = opn2_tickEvents(d, dt, g)); if(!d) { if(v != -1.0) c.violation("oracle:documented-return:opn2_tickEvents", vfmt("%g", v)); } break; }
        case 61: { size_t tc = opn2_trackCount(dev); size_t t = r.chance(0.7) ? r.below((uint32_t)tc + 2) : (size_t)r.next(); unsigned o = r.chance(0.8) ? r.below(4) : (unsigned)r.next();
                   argc = vfmt("%s/o%u", t < tc ? "in" : "out", o > 3 ? 4 : o); int rc = 0; API("opn2_setTrackOptions", rc = opn2_setTrackOptions(d, t, o));
                   unsigned en = o & 3;
                   if(!d) RET(rc == -1, "opn2_setTrackOptions", rc);
                   else if((o & ~3u) != 0 || ((en == OPNMIDI_TrackOption_On || en == OPNMIDI_TrackOption_Off) && t >= tc)) RET(rc == -1, "opn2_setTrackOptions", rc);
                   else if(en == OPNMIDI_TrackOption_Solo && t >= tc) retc = vfmt("%d", rc);   // header: solo of an absent track is not specified -> three-valued
                   else RET(rc == 0, "opn2_setTrackOptions", rc);
                   break; }
        case 62: { size_t ch = r.chance(0.7) ? r.below(18) : (size_t)r.next(); argc = ch < 16 ? "in" : "out"; int rc = 0; API("opn2_setChannelEnabled", rc = opn2_setChannelEnabled(d, ch, (int)r.below(2)));
                   if(!d || ch >= 16) RET(rc == -1, "opn2_setChannelEnabled", rc); else RET(rc == 0, "opn2_setChannelEnabled", rc); break; }
        case 63: API("opn2_panic", opn2_panic(d)); break;
        case 64: API("opn2_rt_resetState", opn2_rt_resetState(d)); break;
        case 65: case 66: case 67: { uint8_t ch = g_u8(r), n = g_u8(r), v = g_u8(r); int rc = 0; API("opn2_rt_noteOn", rc = opn2_rt_noteOn(d, ch, n, v)); RET(rc == 0 || rc == 1, "opn2_rt_noteOn", rc); break; }
        case 68: API("opn2_rt_noteOff", opn2_rt_noteOff(d, g_u8(r), g_u8(r))); break;
        case 69: API("opn2_rt_noteAfterTouch", opn2_rt_noteAfterTouch(d, g_u8(r), g_u8(r), g_u8(r))); break;
        case 70: API("opn2_rt_channelAfterTouch", opn2_rt_channelAfterTouch(d, g_u8(r), g_u8(r))); break;
        case 71: case 72: { uint8_t cc = r.chance(0.6) ? (uint8_t)r.pick((const int[]){0, 1, 5, 6, 7, 10, 11, 32, 37, 38, 64, 65, 66, 67, 74, 98, 99, 100, 101, 120, 121, 123}) : g_u8(r); API("opn2_rt_controllerChange", opn2_rt_controllerChange(d, g_u8(r), cc, g_u8(r))); break; }
        case 73: API("opn2_rt_patchChange", opn2_rt_patchChange(d, g_u8(r), g_u8(r))); break;
        case 74: { OPN2_UInt16 pb = (OPN2_UInt16)r.pick((const int[]){0, 8192, 16383, 16384, 65535, 1}); if(r.chance(0.5)) API("opn2_rt_pitchBend", opn2_rt_pitchBend(d, g_u8(r), pb)); else API("opn2_rt_pitchBendML", opn2_rt_pitchBendML(d, g_u8(r), g_u8(r), g_u8(r))); break; }
        case 75: { int k = r.below(3); if(k == 0) API("opn2_rt_bankChangeLSB", opn2_rt_bankChangeLSB(d, g_u8(r), g_u8(r))); else if(k == 1) API("opn2_rt_bankChangeMSB", opn2_rt_bankChangeMSB(d, g_u8(r), g_u8(r))); else { OPN2_SInt16 bk = (OPN2_SInt16)r.pick((const int[]){0, 1, 127, 128, 256, 32767, -32768, -1, 0x7F00, 0x7E00}); API("opn2_rt_bankChange", opn2_rt_bankChange(d, g_u8(r), bk)); } break; }
        case 76:
        {
            static const uint8_t gm[] = {0xF0, 0x7E, 0x7F, 0x09, 0x01, 0xF7}, gs[] = {0xF0, 0x41, 0x10, 0x42, 0x12, 0x40, 0x00, 0x7F, 0x00, 0x41, 0xF7}, xg[] = {0xF0, 0x43, 0x10, 0x4C, 0x00, 0x00, 0x7E, 0x00, 0xF7}, mv[] = {0xF0, 0x7F, 0x7F, 0x04, 0x01, 0x00, 0x40, 0xF7}, dp[] = {0xF0, 0x41, 0x10, 0x42, 0x12, 0x40, 0x1A, 0x15, 0x01, 0x10, 0xF7};
            Bytes m; switch(r.below(6)) { case 0: m.assign(gm, gm + sizeof(gm)); break; case 1: m.assign(gs, gs + sizeof(gs)); break; case 2: m.assign(xg, xg + sizeof(xg)); break; case 3: m.assign(mv, mv + sizeof(mv)); break; case 4: m.assign(dp, dp + sizeof(dp)); break; default: { int n = r.range(0, 20); for(int j = 0; j < n; j++) m.push_back(r.byte()); } }
            if(r.chance(0.4) && !m.empty()) { int k = r.below(3); size_t p = r.below((uint32_t)m.size()); if(k == 0) m[p] = r.byte(); else if(k == 1) m.resize(p); else m.insert(m.begin() + (long)p, r.byte()); }
            ExactBuf eb(m); int rc = 0; API("opn2_rt_systemExclusive", rc = opn2_rt_systemExclusive(d, eb.p, eb.n)); if(!d) RET(rc == -1, "opn2_rt_systemExclusive", rc); else RET(rc == 0 || rc == 1, "opn2_rt_systemExclusive", rc); break;
        }
        case 84: case 85:
        {   // blank-instrument phrase: a program that is blank in the selected bank and in bank 0:0 (or a bank that does not exist) is played
            // on a melodic channel with the message hook installed: the library reports what it does through that hook
            if(!d) break;
            uint8_t ch = (uint8_t)r.pick((const int[]){0, 1, 5}), prog = (uint8_t)r.range(1, 127);
            if(r.chance(0.8)) API("opn2_setDebugMessageHook", opn2_setDebugMessageHook(d, cb_dbg, &n_dbg));
            OPN2_BankId id; id.percussive = 0; id.msb = 0; id.lsb = 0; OPN2_Bank bk; memset(&bk, 0, sizeof(bk)); int rc = -1;
            API("opn2_getBank", rc = opn2_getBank(d, &id, OPNMIDI_Bank_Create, &bk));
            if(rc == 0)
            {
                OPN2_Instrument in; memset(&in, 0, sizeof(in)); in.inst_flags = OPNMIDI_Ins_IsBlank;
                API("opn2_setInstrument", rc = opn2_setInstrument(d, &bk, prog, &in));
            }
            if(r.chance(0.5)) { id.msb = (uint8_t)r.range(1, 100); id.lsb = (uint8_t)r.below(3); API("opn2_getBank", rc = opn2_getBank(d, &id, OPNMIDI_Bank_Create, &bk)); }   // exists, all blank
            else { id.msb = (uint8_t)r.range(1, 100); id.lsb = 0; }                                                                                                      // does not exist
            API("opn2_rt_controllerChange", opn2_rt_controllerChange(d, ch, 0, id.msb)); API("opn2_rt_controllerChange", opn2_rt_controllerChange(d, ch, 32, id.lsb));
            API("opn2_rt_patchChange", opn2_rt_patchChange(d, ch, prog));
            for(int j = 0, n = r.range(1, 3); j < n; j++) { int rn = 0; API("opn2_rt_noteOn", rn = opn2_rt_noteOn(d, ch, (uint8_t)r.range(30, 90), 100)); (void)rn; }
            break;
        }
        case 82: case 83:
        {   // arpeggio phrase: auto-arpeggio on, more notes of one program than the chips have channels, a pedal, some of the
            // sharing notes released, then several render periods (the rotation walks the user lists of the shared channels)
            if(!d) break;
            uint8_t ch = (uint8_t)r.pick((const int[]){0, 1, 2});
            if(r.chance(0.8)) API("opn2_setAutoArpeggio", opn2_setAutoArpeggio(d, 1));
            int nk = r.range(7, 30), base = r.range(30, 60);
            for(int j = 0; j < nk; j++) { int rc = 0; API("opn2_rt_noteOn", rc = opn2_rt_noteOn(d, ch, (uint8_t)(base + j), (uint8_t)r.range(30, 127))); (void)rc; }
            int pk = (int)r.below(4);
            if(pk == 0) API("opn2_rt_controllerChange", opn2_rt_controllerChange(d, ch, 66, 127));
            else if(pk == 1) API("opn2_rt_controllerChange", opn2_rt_controllerChange(d, ch, 64, 127));
            for(int j = 0, n = r.range(1, 6); j < n; j++) API("opn2_rt_noteOff", opn2_rt_noteOff(d, ch, (uint8_t)(base + r.below((uint32_t)nk))));
            short pcm[2 * 512];
            for(int j = 0, n = r.range(2, 8), fr = PHRASE_FRAMES(512); j < n; j++) { int got = 0; API("opn2_generate", got = opn2_generate(d, 2 * fr, pcm)); (void)got; }
            if(r.chance(0.5)) API("opn2_rt_controllerChange", opn2_rt_controllerChange(d, ch, pk == 0 ? 66 : 64, 0));
            break;
        }
        case 80: case 81:
        {   // pedal phrase: a key re-struck and released under a pedal, the pedal lifted in between, then more notes than the chip has
            // channels (stale chip-channel users only show when their channel is taken again)
            if(!d) break;
            uint8_t ch = (uint8_t)r.pick((const int[]){0, 1, 2, 9}), key = (uint8_t)r.range(40, 80), cc = (uint8_t)(r.chance(0.7) ? 64 : 66);
            API("opn2_rt_controllerChange", opn2_rt_controllerChange(d, ch, cc, 127));
            { int rc = 0; API("opn2_rt_noteOn", rc = opn2_rt_noteOn(d, ch, key, 100)); (void)rc; }
            if(cc == 66) API("opn2_rt_controllerChange", opn2_rt_controllerChange(d, ch, 66, 127));
            API("opn2_rt_noteOff", opn2_rt_noteOff(d, ch, key));
            { int rc = 0; API("opn2_rt_noteOn", rc = opn2_rt_noteOn(d, ch, key, 90)); (void)rc; }
            if(r.chance(0.8)) API("opn2_rt_controllerChange", opn2_rt_controllerChange(d, ch, cc, 0)); else API("opn2_rt_controllerChange", opn2_rt_controllerChange(d, ch, 121, 0));
            if(r.chance(0.8)) API("opn2_rt_noteOff", opn2_rt_noteOff(d, ch, key));
            int nk = r.range(6, 30);
            for(int j = 0; j < nk; j++) { int rc = 0; API("opn2_rt_noteOn", rc = opn2_rt_noteOn(d, ch, (uint8_t)(30 + ((key + j * 3) % 70)), (uint8_t)r.range(1, 127))); (void)rc; }
            if(r.chance(0.5)) { short pcm[2 * 1024]; int got = 0; API("opn2_generate", got = opn2_generate(d, 2 * PHRASE_FRAMES(1024), pcm)); (void)got; }
            break;
        }
        case 78: case 79:
        {   // polyphony burst: a chord of 4..14 keys (optionally a program change first, optionally a short render after it):
            // channel stealing, arpeggio sharing and evacuation need more notes than chip channels within a few milliseconds
            if(!d) break;
            uint8_t ch = (uint8_t)r.pick((const int[]){0, 1, 2, 9});
            if(r.chance(0.5)) API("opn2_rt_patchChange", opn2_rt_patchChange(d, ch, (uint8_t)r.pick((const int[]){0, 12, 30, 81, 1})));
            int nk = r.range(4, 14), base = r.range(36, 72);
            for(int j = 0; j < nk; j++) { int rc = 0; API("opn2_rt_noteOn", rc = opn2_rt_noteOn(d, ch, (uint8_t)(base + j), (uint8_t)r.range(1, 127))); (void)rc; }
            if(r.chance(0.5)) { short pcm[2 * 1600]; int n = PHRASE_FRAMES(r.pick((const int[]){64, 512, 1024, 1600})); int got = 0; API("opn2_generate", got = opn2_generate(d, n * 2, pcm)); (void)got; }
            break;
        }
        default:
        {
            int k = r.below(6);
            if(k == 0) API("opn2_setRawEventHook", opn2_setRawEventHook(d, r.chance(0.8) ? cb_raw : NULL, &n_raw));
            else if(k == 1) API("opn2_setNoteHook", opn2_setNoteHook(d, r.chance(0.8) ? cb_note : NULL, &n_note));
            else if(k == 2) API("opn2_setDebugMessageHook", opn2_setDebugMessageHook(d, r.chance(0.8) ? cb_dbg : NULL, &n_dbg));
            else if(k == 3) API("opn2_setLoopStartHook", opn2_setLoopStartHook(d, r.chance(0.8) ? cb_loop : NULL, &n_loop));
            else if(k == 4) API("opn2_setLoopEndHook", opn2_setLoopEndHook(d, r.chance(0.8) ? cb_loop : NULL, &n_loop));
            else { size_t sz = (size_t)r.pick((const int[]){0, 1, 2, 6, 7, 13, 64, 700}); HeapBuf t(sz), a(sz); int rc = 0; API("opn2_describeChannels", rc = opn2_describeChannels(d, sz ? (char *)t.p : (r.chance(0.5) ? NULL : (char *)t.p), (char *)a.p, sz)); if(!d) RET(rc == -1, "opn2_describeChannels", rc); else RET(rc == 0, "opn2_describeChannels", rc); }
            break;
        }
        }
        #undef RET
        fnset.insert(fn);
        triples.insert(vfmt("%d|%s|%s|%d", fn, argc.c_str(), retc.c_str(), d ? 1 : 0));
        cover(vfmt("T%d|%s|%s|%d", fn, argc.c_str(), retc.c_str(), d ? 1 : 0));
        if(prev_fn >= 0) cover(vfmt("B%d>%d", prev_fn, fn));
        prev_fn = fn;
    }
    (void)music_loaded;
    API("opn2_close", opn2_close(dev));
    if(r.chance(0.05)) API("opn2_close", opn2_close(NULL));
    count("api_calls", ncalls);
    count("hook_callbacks", n_raw + n_note + n_dbg + n_loop);
    for(std::set<std::string>::iterator i = triples.begin(); i != triples.end(); ++i) { c.sig += *i; c.sig += ";"; }
    c.nontrivial = fnset.size() >= 8;
    c.sample(std::string("{\"rate\":") + vfmt("%ld", rate) + ",\"emulator\":" + vfmt("%d", emu) + ",\"chips\":" + vfmt("%d", chips) + ",\"calls\":" + vfmt("%d", ncalls) +
             ",\"distinct_function_ids\":" + vfmt("%zu", fnset.size()) + ",\"some_call_classes\":" + jstr(c.sig.substr(0, 300)) + "}");
}
