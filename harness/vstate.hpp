// State walker (hook H2) + register shadow (hook H1): snapshots of the voice-allocation bookkeeping and the
// C04 invariants I1..I6 (DESIGN.md section 5). Shared by C04, C05, C06, C08, C09.
#ifndef VSTATE_HPP
#define VSTATE_HPP

#include "vlib.hpp"

struct UserSnap { uint16_t midch; uint8_t note; uint32_t sustained; int64_t kon_us; int64_t vibdelay_us; bool fixed; };
struct ChipChanSnap { std::vector<UserSnap> users; bool keyon; int64_t koff_us; };
struct NoteSnap { uint8_t note; bool blank; bool perc; std::vector<uint16_t> chans; bool gliding; double ttl; bool extended; const OpnInstMeta *ains; uint8_t vol; };
struct MidiChanSnap { std::vector<NoteSnap> notes; bool sustain; unsigned gliding_count, extended_count; };

struct StateSnap
{
    std::vector<ChipChanSnap> chip;
    std::vector<MidiChanSnap> midi;
    size_t num_channels;
    int busy() const { int n = 0; for(size_t i = 0; i < chip.size(); i++) if(!chip[i].users.empty()) n++; return n; }
    int idle() const { return (int)chip.size() - busy(); }
    bool has_user(size_t c, unsigned midch, unsigned note, uint32_t *sus = NULL) const
    {
        if(c >= chip.size()) return false;
        for(size_t i = 0; i < chip[c].users.size(); i++)
            if(chip[c].users[i].midch == midch && chip[c].users[i].note == note) { if(sus) *sus = chip[c].users[i].sustained; return true; }
        return false;
    }
};

static inline void take_snapshot(OPN2_MIDIPlayer *dev, const Tap &tap, StateSnap &s)
{
    OPNMIDIplay *p = P(dev);
    std::vector<OPNMIDIplay::OpnChannel> &cc = VA::chipChannels(p);
    s.num_channels = p->m_synth->m_numChannels;
    s.chip.clear(); s.chip.resize(cc.size());
    for(size_t c = 0; c < cc.size(); c++)
    {
        ChipChanSnap &o = s.chip[c];
        o.keyon = c < tap.ch.size() ? tap.ch[c].keyon : false;
        o.koff_us = cc[c].koff_time_until_neglible_us;
        size_t guard = 0;
        for(OPNMIDIplay::OpnChannel::users_iterator j = cc[c].users.begin(); !j.is_end() && guard < 1000; ++j, ++guard)
        {
            UserSnap u; u.midch = j->value.loc.MidCh; u.note = j->value.loc.note; u.sustained = j->value.sustained;
            u.kon_us = j->value.kon_time_until_neglible_us; u.vibdelay_us = j->value.vibdelay_us; u.fixed = j->value.fixed_sustain;
            o.users.push_back(u);
        }
    }
    s.midi.clear(); s.midi.resize(p->m_midiChannels.size());
    for(size_t m = 0; m < p->m_midiChannels.size(); m++)
    {
        OPNMIDIplay::MIDIchannel &ch = p->m_midiChannels[m];
        MidiChanSnap &o = s.midi[m];
        o.sustain = ch.sustain; o.gliding_count = ch.gliding_note_count; o.extended_count = ch.extended_note_count;
        size_t guard = 0;
        for(OPNMIDIplay::MIDIchannel::notes_iterator i = ch.activenotes.begin(); !i.is_end() && guard < 1000; ++i, ++guard)
        {
            const OPNMIDIplay::MIDIchannel::NoteInfo &ni = i->value;
            NoteSnap n; n.note = ni.note; n.blank = ni.isBlank; n.perc = ni.isBlank ? false : ni.isPercussion;
            if(!ni.isBlank) for(unsigned k = 0; k < ni.chip_channels_count && k < 2; k++) n.chans.push_back(ni.chip_channels[k].chip_chan);
            n.gliding = !ni.isBlank && ni.glideRate != HUGE_VAL;
            n.ttl = ni.isBlank ? 0 : ni.ttl; n.extended = ni.isBlank ? false : ni.isOnExtendedLifeTime;
            n.ains = ni.ains; n.vol = ni.isBlank ? 0 : ni.vol;
            o.notes.push_back(n);
        }
    }
}

// Is `ains` one of the 128 entries of a bank currently in the map?
static inline bool ins_in_loaded_bank(OPN2_MIDIPlayer *dev, const OpnInstMeta *ains)
{
    OPN2 *s = P(dev)->m_synth.get();
    for(OPN2::BankMap::iterator it = s->m_insBanks.begin(); it != s->m_insBanks.end(); ++it)
    {
        const OpnInstMeta *b = &it->second.ins[0];
        if(ains >= b && ains < b + 128 && ((const char *)ains - (const char *)b) % sizeof(OpnInstMeta) == 0) return true;
    }
    return false;
}

// Walk a pl_list forwards and backwards; returns false when the two walks or size() disagree.
template<class L> static inline bool list_wellformed(L &l, std::string &why)
{
    size_t fwd = 0; typename L::iterator last = l.end();
    for(typename L::iterator i = l.begin(); !i.is_end(); ++i) { last = i; if(++fwd > l.capacity() + 2) { why = "forward walk longer than capacity"; return false; } }
    if(fwd != l.size()) { why = vfmt("forward walk %zu != size() %zu", fwd, l.size()); return false; }
    if(l.size() > l.capacity()) { why = "size > capacity"; return false; }
    size_t back = 0;
    if(fwd > 0)
    {
        typename L::iterator i = l.end();
        do { --i; back++; } while(i != l.begin() && back <= l.capacity() + 2);
        if(back != fwd) { why = vfmt("backward walk %zu != forward walk %zu", back, fwd); return false; }
    }
    return true;
}

// The C04 invariants. `where` names the call after which they are evaluated. Returns number of violations reported.
// Violations are identified by (invariant id, subject); only those that were not already present after the
// previous call are reported (a broken back-reference stays broken across later calls: it is attributed to
// the call that introduced it). `present` carries the identities from the previous evaluation.
static inline int check_c04_invariants(Case &c, OPN2_MIDIPlayer *dev, const Tap &tap, const StateSnap &s, const char *where,
                                       std::set<std::string> &present, const std::string &trail, bool check_i6 = true)
{
    int bad = 0;
    std::set<std::string> now;
    OPNMIDIplay *p = P(dev);
    const size_t nch = s.chip.size();
    #define INV(id, cond, ...) do { if(!(cond)) { std::string what = vfmt(__VA_ARGS__); std::string ident = std::string(id) + "|" + what; now.insert(ident); \
        if(!present.count(ident)) { bad++; c.violation(std::string("oracle:C04:") + (id) + ":after-" + where, what + "; history: " + trail); } } } while(0)
    INV("chip-table-size", nch == s.num_channels, "chip channel table has %zu entries, synth has %zu channels", nch, s.num_channels);
    for(size_t m = 0; m < s.midi.size(); m++)
    {
        const MidiChanSnap &mc = s.midi[m];
        unsigned glide = 0, ext = 0;
        std::set<int> seen;
        for(size_t i = 0; i < mc.notes.size(); i++)
        {
            const NoteSnap &n = mc.notes[i];
            INV("I3-note-twice", seen.insert(n.note).second, "MIDI channel %zu lists note %d twice", m, n.note);
            if(n.gliding) glide++;
            if(n.ttl > 0) ext++;
            if(n.blank) { INV("I5-blank-has-instrument", n.ains == NULL, "blank note %d on MIDI channel %zu has an instrument pointer", n.note, m); continue; }
            INV("I1-note-without-channel", !n.chans.empty(), "non-blank note %d on MIDI channel %zu references no chip channel", n.note, m);
            for(size_t k = 0; k < n.chans.size(); k++)
            {
                INV("I1-channel-out-of-range", n.chans[k] < nch, "note %d/ch %zu references chip channel %u of %zu", n.note, m, n.chans[k], nch);
                for(size_t k2 = k + 1; k2 < n.chans.size(); k2++) INV("I1-channel-twice", n.chans[k] != n.chans[k2], "note %d/ch %zu references chip channel %u twice", n.note, m, n.chans[k]);
                if(n.chans[k] < nch) INV("I1-channel-does-not-list-note", s.has_user(n.chans[k], (unsigned)m, n.note), "note %d/ch %zu references chip channel %u whose user list does not contain it", n.note, m, n.chans[k]);
            }
            INV("I5-instrument-not-in-loaded-bank", n.ains != NULL && ins_in_loaded_bank(dev, n.ains), "note %d/ch %zu: instrument pointer %p is not an entry of a loaded bank", n.note, m, (const void *)n.ains);
        }
        INV("I4-gliding-count", glide == mc.gliding_count, "MIDI channel %zu: gliding_note_count %u but %u gliding notes", m, mc.gliding_count, glide);
        INV("I4-extended-count", ext == mc.extended_count, "MIDI channel %zu: extended_note_count %u but %u notes with ttl > 0", m, mc.extended_count, ext);
    }
    for(size_t ch = 0; ch < nch; ch++)
    {
        const ChipChanSnap &cc = s.chip[ch];
        std::set<std::pair<int, int> > seen;
        for(size_t i = 0; i < cc.users.size(); i++)
        {
            const UserSnap &u = cc.users[i];
            INV("I3-user-twice", seen.insert(std::make_pair((int)u.midch, (int)u.note)).second, "chip channel %zu lists user (%u,%u) twice", ch, u.midch, u.note);
            if(u.sustained == 0)
            {
                bool ok = false;
                if(u.midch < s.midi.size())
                    for(size_t k = 0; k < s.midi[u.midch].notes.size(); k++)
                    {
                        const NoteSnap &n = s.midi[u.midch].notes[k];
                        if(n.note == u.note && !n.blank && std::find(n.chans.begin(), n.chans.end(), (uint16_t)ch) != n.chans.end()) ok = true;
                    }
                INV("I2-user-without-note", ok, "chip channel %zu: non-sustained user (%u,%u) has no active note referencing this channel", ch, u.midch, u.note);
            }
        }
        if(check_i6)
            INV(cc.users.empty() ? "I6-keyed-on-without-user" : "I6-user-but-keyed-off", cc.keyon == !cc.users.empty(), "chip channel %zu: keyed %s at the chip but %zu users", ch, cc.keyon ? "ON" : "off", cc.users.size());
    }
    // list structure (I3 second half)
    std::vector<OPNMIDIplay::OpnChannel> &chips = VA::chipChannels(p);
    for(size_t ch = 0; ch < chips.size(); ch++) { std::string why; INV("I3-user-list-corrupt", list_wellformed(chips[ch].users, why), "chip channel %zu user list: %s", ch, why.c_str()); }
    for(size_t m = 0; m < p->m_midiChannels.size(); m++) { std::string why; INV("I3-note-list-corrupt", list_wellformed(p->m_midiChannels[m].activenotes, why), "MIDI channel %zu note list: %s", m, why.c_str()); }
    #undef INV
    (void)tap;
    present.swap(now);
    return bad;
}

// Abstract state for coverage: per chip channel #users by sustain class, per MIDI channel #notes + pedal
static inline std::string abstract_state(const StateSnap &s)
{
    std::vector<std::string> cc;
    for(size_t c = 0; c < s.chip.size(); c++)
    {
        int n0 = 0, np = 0, ns = 0;
        for(size_t i = 0; i < s.chip[c].users.size(); i++) { uint32_t su = s.chip[c].users[i].sustained; if(su == 0) n0++; else if(su & 2) ns++; else np++; }
        cc.push_back(vfmt("%d%d%d%c", std::min(n0, 3), std::min(np, 3), std::min(ns, 3), s.chip[c].keyon ? 'K' : 'o'));
    }
    std::sort(cc.begin(), cc.end());
    std::string r;
    for(size_t i = 0; i < cc.size() && i < 12; i++) r += cc[i] + ",";
    r += "|";
    for(size_t m = 0; m < s.midi.size() && m < 16; m++) if(!s.midi[m].notes.empty() || s.midi[m].sustain) r += vfmt("%zu:%zu%c", m, std::min<size_t>(s.midi[m].notes.size(), 4), s.midi[m].sustain ? 'P' : '-');
    return r;
}

#endif
