// C16 — the bank API behaves as a map (percussive, MSB, LSB) -> 128 instruments.
//
// Model-based monitor: a reference map (key -> 128 instruments) + the capacity last reported by the library run
// beside the library; after EVERY call of a history the observable state is compared: lookups of present and
// absent keys, opn2_getBankId of every live handle, one full iteration (each present bank exactly once, ends
// within size+1 steps), instrument read-back, capacity (never below a request, never shrinking), and for
// real-time creation: zero heap allocations (allocation counter around the call) and failure exactly when the
// model's size equals the capacity. Only handles that are live per the model are used: a handle dies with
// opn2_removeBank of its bank or a successful opn2_openBankData; handles of other banks are kept and used.
//
// Stages:
//   random          histories of 50..300 calls over the 2*128*128 key space, keys biased to shared hash buckets
//                   (same LSB and MSB bit 0, differing MSB bits >= 1 / percussive flag), growth past the reserved
//                   capacity, slot reuse after removal, instrument writes, bank-image loads replacing the map.
//   exhaustive      every sequence of `depth` operations over a 6-key universe with the alphabet
//                   {create, createRt, lookup, remove} x key + reserve(size+1) + iterate (26 letters), decoded from
//                   the case index in mixed radix: the case index gives the first depth-3 letters, the case
//                   enumerates the last three. Every prefix of every sequence is itself checked in full once.
//   exhaustive-pre  the same one level shallower from three prepared states (5 reserved slots of which 2 hold foreign
//                   banks; 3 foreign banks in the buckets of the universe, capacity 4; 4 foreign banks of which 2
//                   were removed again = recycled slots).
// All out-parameters and identifiers are passed in heap blocks of exactly their size.
#include "vlib.hpp"
#include <array>

static const char *harness_name() { return "c16_bankmap"; }

// exact-size heap blocks for arguments (allocated once per worker, so they do not disturb the allocation counter)
static OPN2_Bank *g_bank;            // out: handle
static OPN2_Bank *g_bank_in;         // in: handle
static OPN2_BankId *g_id_out, *g_id_in;
static OPN2_Instrument *g_ins_out, *g_ins_in;
static void harness_init()
{
    g_bank = (OPN2_Bank *)malloc(sizeof(OPN2_Bank)); g_bank_in = (OPN2_Bank *)malloc(sizeof(OPN2_Bank));
    g_id_out = (OPN2_BankId *)malloc(sizeof(OPN2_BankId)); g_id_in = (OPN2_BankId *)malloc(sizeof(OPN2_BankId));
    g_ins_out = (OPN2_Instrument *)malloc(sizeof(OPN2_Instrument)); g_ins_in = (OPN2_Instrument *)malloc(sizeof(OPN2_Instrument));
}

static std::set<std::string> g_case_keys;
static void viol(Case &c, const std::string &key, const std::string &detail) { if(g_case_keys.size() < 12 && g_case_keys.insert(key).second) c.violation(key, detail); }

// ------------------------------------------------------------------------------------------------
// keys, instruments
// ------------------------------------------------------------------------------------------------
typedef uint32_t KeyId;   // percussive << 14 | msb << 7 | lsb
static inline KeyId kid(unsigned perc, unsigned msb, unsigned lsb) { return (perc << 14) | (msb << 7) | lsb; }
static inline unsigned k_perc(KeyId k) { return k >> 14; }
static inline unsigned k_msb(KeyId k) { return (k >> 7) & 127; }
static inline unsigned k_lsb(KeyId k) { return k & 127; }
static inline unsigned k_bucket(KeyId k) { return k_lsb(k) | ((k_msb(k) & 1) << 7); }   // DESIGN.md: hash = (LSB & 127) | (MSB & 1) << 7
static std::string k_show(KeyId k) { return vfmt("(p%u,msb%u,lsb%u)", k_perc(k), k_msb(k), k_lsb(k)); }
static inline void k_to_id(KeyId k, OPN2_BankId *id) { id->percussive = (OPN2_UInt8)k_perc(k); id->msb = (OPN2_UInt8)k_msb(k); id->lsb = (OPN2_UInt8)k_lsb(k); }

static bool ins_eq(const OPN2_Instrument &a, const OPN2_Instrument &b)
{
    if(a.version != b.version || a.note_offset != b.note_offset || a.midi_velocity_offset != b.midi_velocity_offset ||
       a.percussion_key_number != b.percussion_key_number || a.inst_flags != b.inst_flags || a.fbalg != b.fbalg || a.lfosens != b.lfosens ||
       a.delay_on_ms != b.delay_on_ms || a.delay_off_ms != b.delay_off_ms) return false;
    for(int o = 0; o < 4; o++)
    {
        const OPN2_Operator &x = a.operators[o], &y = b.operators[o];
        if(x.dtfm_30 != y.dtfm_30 || x.level_40 != y.level_40 || x.rsatk_50 != y.rsatk_50 || x.amdecay1_60 != y.amdecay1_60 ||
           x.decay2_70 != y.decay2_70 || x.susrel_80 != y.susrel_80 || x.ssgeg_90 != y.ssgeg_90) return false;
    }
    return true;
}
static std::string ins_show(const OPN2_Instrument &a)
{
    return vfmt("{ver %d off %d vel %d key %u flags %02x fbalg %02x lfo %02x ops ", a.version, a.note_offset, a.midi_velocity_offset, a.percussion_key_number, a.inst_flags, a.fbalg, a.lfosens) +
           hexs((const uint8_t *)a.operators, 28, 28) + vfmt(" on %u off %u}", a.delay_on_ms, a.delay_off_ms);
}
static OPN2_Instrument blank_ins()
{   // "new banks read as 128 blank instruments": the blank flag and nothing else
    OPN2_Instrument b; memset(&b, 0, sizeof(b)); b.inst_flags = OPNMIDI_Ins_IsBlank; return b;
}
static OPN2_Instrument tag_ins(unsigned tag)
{   // distinct, non-blank instrument per tag
    OPN2_Instrument t; memset(&t, 0, sizeof(t));
    t.note_offset = (OPN2_SInt16)(tag * 37 - 500); t.midi_velocity_offset = (OPN2_SInt8)(tag & 0x3F); t.percussion_key_number = (OPN2_UInt8)(tag * 3 + 1);
    t.inst_flags = (OPN2_UInt8)(tag & 1); t.fbalg = (OPN2_UInt8)(tag * 5 + 2); t.lfosens = (OPN2_UInt8)(tag >> 3);
    uint8_t *o = (uint8_t *)t.operators; for(int i = 0; i < 28; i++) o[i] = (uint8_t)(tag * 11 + i * 7 + (tag >> 8));
    t.delay_on_ms = (OPN2_UInt16)(1000 + tag); t.delay_off_ms = (OPN2_UInt16)(tag * 3 + 1);
    return t;
}

// thin wrappers through the exact-size argument blocks -------------------------------------------
static int lib_getBank(OPN2_MIDIPlayer *d, KeyId k, int flags, OPN2_Bank &out, long long *allocs = NULL)
{
    k_to_id(k, g_id_in); memset(g_bank, 0xEE, sizeof(*g_bank));
    int rc = -99;
    long long a0 = g_alloc.n_allocs;
    API("opn2_getBank", rc = opn2_getBank(d, g_id_in, flags, g_bank));
    long long a1 = g_alloc.n_allocs;
    if(allocs) *allocs = a1 - a0;
    out = *g_bank;
    return rc;
}
static int lib_getBankId(OPN2_MIDIPlayer *d, const OPN2_Bank &h, KeyId &k)
{
    *g_bank_in = h; memset(g_id_out, 0xEE, sizeof(*g_id_out));
    int rc = -99;
    API("opn2_getBankId", rc = opn2_getBankId(d, g_bank_in, g_id_out));
    k = (g_id_out->percussive <= 1 && g_id_out->msb <= 127 && g_id_out->lsb <= 127) ? kid(g_id_out->percussive, g_id_out->msb, g_id_out->lsb) : 0xFFFFFFFFu;
    return rc;
}
static int lib_remove(OPN2_MIDIPlayer *d, const OPN2_Bank &h) { *g_bank_in = h; int rc = -99; API("opn2_removeBank", rc = opn2_removeBank(d, g_bank_in)); return rc; }
static int lib_first(OPN2_MIDIPlayer *d, OPN2_Bank &out) { memset(g_bank, 0xEE, sizeof(*g_bank)); int rc = -99; API("opn2_getFirstBank", rc = opn2_getFirstBank(d, g_bank)); out = *g_bank; return rc; }
static int lib_next(OPN2_MIDIPlayer *d, OPN2_Bank &io) { *g_bank = io; int rc = -99; API("opn2_getNextBank", rc = opn2_getNextBank(d, g_bank)); io = *g_bank; return rc; }
static int lib_getIns(OPN2_MIDIPlayer *d, const OPN2_Bank &h, unsigned idx, OPN2_Instrument &out)
{
    *g_bank_in = h; memset(g_ins_out, 0xCD, sizeof(*g_ins_out));
    int rc = -99; API("opn2_getInstrument", rc = opn2_getInstrument(d, g_bank_in, idx, g_ins_out));
    out = *g_ins_out; return rc;
}
static int lib_setIns(OPN2_MIDIPlayer *d, const OPN2_Bank &h, unsigned idx, const OPN2_Instrument &in)
{
    *g_bank_in = h; *g_ins_in = in;
    int rc = -99; API("opn2_setInstrument", rc = opn2_setInstrument(d, g_bank_in, idx, g_ins_in));
    return rc;
}
static int lib_reserve(OPN2_MIDIPlayer *d, unsigned n) { int rc = -99; API("opn2_reserveBanks", rc = opn2_reserveBanks(d, n)); return rc; }

// =================================================================================================
// stage `random`
// =================================================================================================
struct RBank { std::array<OPN2_Instrument, 128> ins; std::vector<OPN2_Bank> handles; };
struct RModel
{
    std::map<KeyId, RBank> banks;
    long cap;
    bool collides(KeyId k) const { for(std::map<KeyId, RBank>::const_iterator i = banks.begin(); i != banks.end(); ++i) if(i->first != k && k_bucket(i->first) == k_bucket(k)) return true; return false; }
};

static void add_handle(RBank &b, const OPN2_Bank &h, size_t slot)
{   // slot 0: handle from creation / first sight, 1: latest lookup, 2: latest iteration
    if(b.handles.empty()) { b.handles.push_back(h); return; }
    if(b.handles.size() <= slot) b.handles.resize(slot + 1, b.handles[0]);
    b.handles[slot] = h;
}

struct RCtx
{
    Case &c; OPN2_MIDIPlayer *dev; RModel m; std::vector<KeyId> pool; std::vector<KeyId> removed;
    std::string after;      // kind of the call just made (part of the violation keys)
    KeyId last_key; int last_idx; long calls;
    RCtx(Case &c_): c(c_), dev(NULL), last_key(0xFFFFFFFFu), last_idx(-1), calls(0) {}
};

static const char *size_class(size_t n) { return n == 0 ? "0" : n == 1 ? "1" : n <= 4 ? "2-4" : n <= 8 ? "5-8" : n <= 16 ? "9-16" : "17+"; }
static const char *free_class(long f) { return f <= 0 ? "0" : f == 1 ? "1" : f <= 3 ? "2-3" : "4+"; }

static void r_check_readback(RCtx &x, KeyId k, RBank &b, unsigned idx)
{
    OPN2_Instrument got; int rc = lib_getIns(x.dev, b.handles[x.c.rng.below((uint32_t)b.handles.size())], idx, got);
    x.calls++; count("instrument_readbacks");
    if(rc != 0) { viol(x.c, "oracle:C16:getInstrument-fails:after-" + x.after, vfmt("bank %s index %u: returned %d", k_show(k).c_str(), idx, rc)); return; }
    if(!ins_eq(got, b.ins[idx]))
        viol(x.c, "oracle:C16:instrument-readback-differs:after-" + x.after + vfmt(":collision%d", x.m.collides(k)),
             vfmt("bank %s index %u reads ", k_show(k).c_str(), idx) + ins_show(got) + " expected " + ins_show(b.ins[idx]));
}

static void r_check_all(RCtx &x)
{
    Rng &r = x.c.rng; RModel &m = x.m;
    // capacity as the library reports it
    int cap = lib_reserve(x.dev, 0); x.calls++;
    if(cap < m.cap) viol(x.c, "oracle:C16:capacity-shrinks:after-" + x.after, vfmt("opn2_reserveBanks(0) reports %d, earlier %ld", cap, m.cap));
    if(cap < (long)m.banks.size()) viol(x.c, "oracle:C16:capacity-below-size:after-" + x.after, vfmt("capacity %d, %zu banks present", cap, m.banks.size()));
    m.cap = cap;
    // lookups
    std::vector<KeyId> probe;
    if(m.banks.size() <= 6) for(std::map<KeyId, RBank>::iterator i = m.banks.begin(); i != m.banks.end(); ++i) probe.push_back(i->first);
    else for(int i = 0; i < 5; i++) { std::map<KeyId, RBank>::iterator it = m.banks.begin(); std::advance(it, r.below((uint32_t)m.banks.size())); probe.push_back(it->first); }
    if(x.last_key != 0xFFFFFFFFu) probe.push_back(x.last_key);
    for(int i = 0; i < 3 && !x.removed.empty(); i++) probe.push_back(x.removed[x.removed.size() - 1 - r.below((uint32_t)std::min<size_t>(x.removed.size(), 6))]);
    for(int i = 0; i < 3; i++) probe.push_back(r.pick(x.pool));
    if(!m.banks.empty())
    {   // a sibling in the bucket of a present key
        std::map<KeyId, RBank>::iterator it = m.banks.begin(); std::advance(it, r.below((uint32_t)m.banks.size()));
        KeyId s = it->first ^ (r.chance(0.5) ? (1u << 14) : ((1u + r.below(63)) << 8));
        probe.push_back(s & 0x7FFF);
    }
    for(size_t i = 0; i < probe.size(); i++)
    {
        KeyId k = probe[i]; OPN2_Bank h; int rc = lib_getBank(x.dev, k, 0, h); x.calls++; count("lookups_checked");
        std::map<KeyId, RBank>::iterator it = m.banks.find(k);
        if(it != m.banks.end())
        {
            if(rc != 0) viol(x.c, "oracle:C16:lookup-misses-present-bank:after-" + x.after + vfmt(":collision%d", m.collides(k)), "bank " + k_show(k) + vfmt(" is in the model (size %zu) but opn2_getBank(flags 0) returned %d", m.banks.size(), rc));
            else add_handle(it->second, h, 1);
        }
        else if(rc == 0) viol(x.c, "oracle:C16:lookup-finds-absent-bank:after-" + x.after + vfmt(":collision%d", m.collides(k)), "bank " + k_show(k) + " was never created or has been removed, opn2_getBank(flags 0) returned 0");
    }
    // identifiers of every live handle
    for(std::map<KeyId, RBank>::iterator i = m.banks.begin(); i != m.banks.end(); ++i)
        for(size_t j = 0; j < i->second.handles.size(); j++)
        {
            KeyId got; int rc = lib_getBankId(x.dev, i->second.handles[j], got); x.calls++; count("handle_ids_checked");
            if(rc != 0 || got != i->first)
                viol(x.c, "oracle:C16:bank-id-of-live-handle-differs:after-" + x.after + vfmt(":collision%d", m.collides(i->first)), vfmt("handle %zu of bank ", j) + k_show(i->first) + vfmt(" reads back rc %d id ", rc) + (got == 0xFFFFFFFFu ? std::string("out-of-range") : k_show(got)));
        }
    // iteration
    {
        std::set<KeyId> seen; OPN2_Bank h; int rc = lib_first(x.dev, h); x.calls++;
        size_t steps = 0, limit = m.banks.size() + 1; bool bad = false;
        while(rc == 0)
        {
            if(++steps > limit) { viol(x.c, "oracle:C16:iteration-does-not-end:after-" + x.after, vfmt("%zu banks present, iteration still going after %zu steps", m.banks.size(), steps)); bad = true; break; }
            KeyId k; int r2 = lib_getBankId(x.dev, h, k); x.calls++;
            std::map<KeyId, RBank>::iterator it = m.banks.find(k);
            if(r2 != 0 || it == m.banks.end()) { viol(x.c, "oracle:C16:iteration-visits-absent-bank:after-" + x.after, "iteration yields " + (k == 0xFFFFFFFFu ? std::string("an out-of-range id") : k_show(k)) + " which is not in the model"); bad = true; break; }
            if(!seen.insert(k).second) { viol(x.c, "oracle:C16:iteration-visits-bank-twice:after-" + x.after, "bank " + k_show(k) + " visited twice"); bad = true; break; }
            add_handle(it->second, h, 2);
            rc = lib_next(x.dev, h); x.calls++;
        }
        count("iterations_checked");
        if(!bad && seen.size() != m.banks.size())
        {
            std::string miss; for(std::map<KeyId, RBank>::iterator i = m.banks.begin(); i != m.banks.end(); ++i) if(!seen.count(i->first)) { miss = k_show(i->first); break; }
            viol(x.c, "oracle:C16:iteration-misses-present-bank:after-" + x.after, vfmt("%zu of %zu banks visited; first missing ", seen.size(), m.banks.size()) + miss);
        }
    }
    // instrument read-back
    if(!m.banks.empty())
    {
        for(int i = 0; i < 3; i++) { std::map<KeyId, RBank>::iterator it = m.banks.begin(); std::advance(it, r.below((uint32_t)m.banks.size())); r_check_readback(x, it->first, it->second, r.below(128)); }
        std::map<KeyId, RBank>::iterator it = m.banks.find(x.last_key);
        if(it != m.banks.end() && x.last_idx >= 0) r_check_readback(x, it->first, it->second, (unsigned)x.last_idx);
    }
    count("post_call_state_checks");
}

static KeyId r_gen_key(Rng &r, const std::vector<KeyId> &classes)
{
    int k = r.below(20);
    if(k < 15) { KeyId b = r.pick(classes); return kid(r.below(2), (k_msb(b) & 1) | (r.below(64) << 1), k_lsb(b)); }
    if(k < 18) return kid(r.below(2), r.below(128), r.below(128));
    static const KeyId corners[] = {0, kid(1, 0, 0), kid(0, 127, 127), kid(1, 127, 127), kid(0, 0, 127), kid(0, 127, 0), kid(0, 1, 0), kid(0, 2, 0)};
    return r.pick(corners);
}

static OPN2_Instrument r_gen_ins(Rng &r)
{
    OPN2_Instrument t; uint8_t *p = (uint8_t *)&t;
    for(size_t i = 0; i < sizeof(t); i++) p[i] = r.chance(0.6) ? r.byte() : (uint8_t)r.pick((const int[]){0, 0x7F, 0x80, 0xFF});
    t.version = 0;
    if(r.chance(0.5)) t.inst_flags &= 3;
    if(r.chance(0.3)) t.note_offset = (OPN2_SInt16)r.pick((const int[]){0, 1, -1, 32767, -32768, 12, -12});
    return t;
}

// bank image (version-2 layout of docs/wopn specification.txt) and the instruments it must produce
struct ImageBank { KeyId key; std::array<OPN2_Instrument, 128> ins; };
static std::vector<uint8_t> r_gen_image(Rng &r, const std::vector<KeyId> &classes, std::vector<ImageBank> &banks)
{
    std::vector<KeyId> mel, per;
    unsigned nm = (unsigned)r.range(1, r.chance(0.2) ? 9 : 3), np = (unsigned)r.range(1, r.chance(0.2) ? 9 : 3);
    for(unsigned i = 0; i < nm; i++) { KeyId k = r_gen_key(r, classes) & 0x3FFF; if(!mel.empty() && r.chance(0.06)) k = r.pick(mel); mel.push_back(k); }
    for(unsigned i = 0; i < np; i++) { KeyId k = r_gen_key(r, classes) | (1u << 14); if(!per.empty() && r.chance(0.06)) k = r.pick(per); per.push_back(k); }
    std::vector<uint8_t> b;
    put_str(b, "WOPN2-B2NK"); b.push_back(0); put_le(b, 2, 2); put_be(b, nm, 2); put_be(b, np, 2); b.push_back((uint8_t)r.below(32));
    for(int s = 0; s < 2; s++)
    {
        const std::vector<KeyId> &ks = s ? per : mel;
        for(size_t j = 0; j < ks.size(); j++) { for(int i = 0; i < 32; i++) b.push_back(i < 6 ? (uint8_t)('a' + r.below(26)) : 0); b.push_back((uint8_t)k_lsb(ks[j])); b.push_back((uint8_t)k_msb(ks[j])); }
    }
    banks.clear();
    for(int s = 0; s < 2; s++)
    {
        const std::vector<KeyId> &ks = s ? per : mel;
        for(size_t j = 0; j < ks.size(); j++)
        {
            ImageBank ib; ib.key = ks[j];
            for(int i = 0; i < 128; i++)
            {
                OPN2_Instrument t; memset(&t, 0, sizeof(t));
                for(int q = 0; q < 32; q++) b.push_back(q < 5 ? (uint8_t)('A' + r.below(26)) : 0);
                uint16_t no = (uint16_t)r.next(); put_be(b, no, 2); t.note_offset = (OPN2_SInt16)no;
                t.percussion_key_number = r.byte(); b.push_back(t.percussion_key_number);
                t.fbalg = r.byte(); b.push_back(t.fbalg);
                t.lfosens = r.byte(); b.push_back(t.lfosens);
                uint8_t *o = (uint8_t *)t.operators; for(int q = 0; q < 28; q++) { o[q] = r.byte(); b.push_back(o[q]); }
                int dk = r.below(6);
                t.delay_on_ms = dk == 0 || dk == 1 ? 0 : (uint16_t)r.range(1, 65535); t.delay_off_ms = dk == 0 || dk == 2 ? 0 : (uint16_t)r.range(1, 65535);
                put_be(b, t.delay_on_ms, 2); put_be(b, t.delay_off_ms, 2);
                t.inst_flags = (t.delay_on_ms == 0 && t.delay_off_ms == 0) ? OPNMIDI_Ins_IsBlank : 0;   // version 2: null delays mark a blank entry
                ib.ins[i] = t;
            }
            banks.push_back(ib);
        }
    }
    return b;
}

static void run_random(Case &c)
{
    Rng &r = c.rng;
    RCtx x(c);
    API("opn2_init", x.dev = opn2_init(44100));
    if(!x.dev) { c.violation("oracle:init-failed", "opn2_init returned NULL"); return; }
    API("opn2_setNumChips", opn2_setNumChips(x.dev, 1));
    // key pool
    std::vector<KeyId> classes; int nc = r.range(1, 3);
    for(int i = 0; i < nc; i++) classes.push_back(kid(0, r.below(2), r.chance(0.5) ? r.below(3) : r.below(128)));
    int np = r.range(6, 40);
    std::set<KeyId> ps; while((int)ps.size() < np) ps.insert(r_gen_key(r, classes));
    x.pool.assign(ps.begin(), ps.end());
    x.m.cap = 0;
    x.after = "init"; r_check_all(x);
    if(!x.m.banks.empty()) { c.inconclusive = true; opn2_close(x.dev); return; }
    int nops = r.range(50, (int)g_w.optnum("maxops", 300));
    double grow = 0.25 + 0.5 * r.unit();   // share of creations among create/remove
    std::string trace; std::set<std::string> kinds;
    bool saw_growth = false, saw_reuse = false, saw_rt_full = false;
    for(int i = 0; i < nops && g_w.violations_in_case == 0; i++)
    {
        RModel &m = x.m;
        int w = r.below(100);
        KeyId k = r.chance(0.93) ? r.pick(x.pool) : r_gen_key(r, classes);
        std::string item;
        if(w < 9)
        {   // reserve
            long size = (long)m.banks.size();
            long opts[] = {0, size, size + 1, m.cap, m.cap + 1, m.cap + 3, size + 5, (long)r.below(48), m.cap + 9};
            unsigned n = (unsigned)std::max(0L, opts[r.below(9)]);
            int rc = lib_reserve(x.dev, n); x.calls++;
            x.after = "reserve";
            if(rc < (int)n) viol(c, "oracle:C16:reserve-returns-less-than-requested", vfmt("opn2_reserveBanks(%u) returned %d", n, rc));
            if(rc < m.cap) viol(c, "oracle:C16:capacity-shrinks:after-reserve", vfmt("opn2_reserveBanks(%u) returned %d, capacity was %ld", n, rc, m.cap));
            bool rt_after = n == (unsigned)size + 1 || r.chance(0.3);
            item = vfmt("reserve|%s|grew%d", (long)n > m.cap ? "above-capacity" : "within-capacity", rc > m.cap);
            m.cap = std::max<long>(m.cap, rc);
            if(rt_after && (long)n >= size + 1)
            {   // real-time creation right after reserving size+1 (or more) must succeed
                KeyId k2 = k; int tries = 0; while(m.banks.count(k2) && tries++ < 20) k2 = r_gen_key(r, classes);
                if(!m.banks.count(k2))
                {
                    r_check_all(x);
                    OPN2_Bank h; long long al = 0; int rc2 = lib_getBank(x.dev, k2, OPNMIDI_Bank_CreateRt, h, &al); x.calls++;
                    x.after = "createRt"; x.last_key = k2; x.last_idx = -1;
                    if(rc2 != 0) viol(c, "oracle:C16:createRt-fails-right-after-reserve", vfmt("reserveBanks(%u) with %ld banks present returned %d, then real-time creation of ", n, size, rc) + k_show(k2) + vfmt(" returned %d", rc2));
                    else { RBank nb; nb.ins.fill(blank_ins()); nb.handles.push_back(h); m.banks[k2] = nb; }
                    if(al != 0) viol(c, "oracle:C16:createRt-allocates:absent-key", vfmt("%lld heap allocation(s) inside opn2_getBank(OPNMIDI_Bank_CreateRt)", al));
                    count("rt_creations_checked");
                    item += "+createRt";
                }
            }
        }
        else if(w < 50)
        {   // create / createRt
            bool rt = w >= 30;
            if(!r.chance(grow + 0.25) && !m.banks.empty() && r.chance(0.5)) { std::map<KeyId, RBank>::iterator it = m.banks.begin(); std::advance(it, r.below((uint32_t)m.banks.size())); k = it->first; }
            bool present = m.banks.count(k) != 0; long size = (long)m.banks.size(); bool full = size >= m.cap; bool coll = m.collides(k);
            OPN2_Bank h; long long al = 0;
            int rc = lib_getBank(x.dev, k, rt ? OPNMIDI_Bank_CreateRt : OPNMIDI_Bank_Create, h, &al); x.calls++;
            x.after = rt ? "createRt" : "create"; x.last_key = k; x.last_idx = -1;
            std::string pre = vfmt("%s:full%d:collision%d", present ? "present" : "absent", full, coll);
            if(rt)
            {
                count("rt_creations_checked");
                if(al != 0) viol(c, std::string("oracle:C16:createRt-allocates:") + (present ? "present-key" : "absent-key"), vfmt("%lld heap allocation(s) inside opn2_getBank(OPNMIDI_Bank_CreateRt) for ", al) + k_show(k) + vfmt(", %ld banks, capacity %ld", size, m.cap));
                bool expect_ok = present || !full;
                if(expect_ok && rc != 0) viol(c, "oracle:C16:createRt-fails-with-capacity-left:" + pre, "real-time creation of " + k_show(k) + vfmt(" returned %d with %ld banks and capacity %ld", rc, size, m.cap));
                if(!expect_ok && rc == 0) viol(c, "oracle:C16:createRt-succeeds-with-capacity-exhausted:" + pre, "real-time creation of " + k_show(k) + vfmt(" returned 0 with %ld banks and capacity %ld", size, m.cap));
                if(!expect_ok) saw_rt_full = true;
            }
            else if(rc != 0) viol(c, "oracle:C16:create-fails:" + pre, "opn2_getBank(OPNMIDI_Bank_Create) of " + k_show(k) + vfmt(" returned %d", rc));
            if(rc == 0)
            {
                if(!present)
                {
                    RBank nb; nb.ins.fill(blank_ins()); nb.handles.push_back(h); m.banks[k] = nb;
                    if(!rt && full) saw_growth = true;
                    if(std::find(x.removed.begin(), x.removed.end(), k) != x.removed.end() || !x.removed.empty()) saw_reuse = true;
                    // a new bank reads as 128 blank instruments: check a few right away, all of them sometimes
                    RBank &b = m.banks[k];
                    if(r.chance(0.15)) for(unsigned q = 0; q < 128; q++) r_check_readback(x, k, b, q);
                    else { r_check_readback(x, k, b, 0); r_check_readback(x, k, b, 127); r_check_readback(x, k, b, r.below(128)); }
                }
                else add_handle(m.banks[k], h, 1);
            }
            item = vfmt("%s|%s|size%s|free%s|rc%d", rt ? "createRt" : "create", pre.c_str(), size_class((size_t)size), free_class(m.cap - size), rc == 0 ? 0 : -1);
        }
        else if(w < 56)
        {   // lookup as an operation of its own (the state check does several more)
            bool present = m.banks.count(k) != 0; OPN2_Bank h; int rc = lib_getBank(x.dev, k, 0, h); x.calls++;
            x.after = "lookup"; x.last_key = k; x.last_idx = -1;
            if(present && rc != 0) viol(c, vfmt("oracle:C16:lookup-misses-present-bank:lookup:collision%d", m.collides(k)), k_show(k) + vfmt(" returned %d", rc));
            if(!present && rc == 0) viol(c, vfmt("oracle:C16:lookup-finds-absent-bank:lookup:collision%d", m.collides(k)), k_show(k) + " returned 0");
            if(present && rc == 0) add_handle(m.banks[k], h, 1);
            item = vfmt("lookup|%s|collision%d", present ? "present" : "absent", m.collides(k));
        }
        else if(w < 56 + (int)(22 * (1.0 - grow)) + 4)
        {   // remove through any live handle of the bank
            if(m.banks.empty()) continue;
            std::map<KeyId, RBank>::iterator it = m.banks.begin(); std::advance(it, r.below((uint32_t)m.banks.size()));
            k = it->first; bool coll = m.collides(k); size_t hs = it->second.handles.size();
            int rc = lib_remove(x.dev, it->second.handles[r.below((uint32_t)hs)]); x.calls++;
            x.after = "remove"; x.last_key = k; x.last_idx = -1;
            if(rc != 0) viol(c, vfmt("oracle:C16:remove-fails:collision%d", coll), "opn2_removeBank of " + k_show(k) + vfmt(" returned %d", rc));
            m.banks.erase(it); x.removed.push_back(k);
            item = vfmt("remove|collision%d|size%s", coll, size_class(m.banks.size() + 1));
        }
        else if(w < 92)
        {   // instrument write (and read of another slot)
            if(m.banks.empty()) continue;
            std::map<KeyId, RBank>::iterator it = m.banks.begin(); std::advance(it, r.below((uint32_t)m.banks.size()));
            unsigned idx = r.chance(0.2) ? (r.chance(0.5) ? 0u : 127u) : r.below(128);
            OPN2_Instrument t = r_gen_ins(r);
            int rc = lib_setIns(x.dev, it->second.handles[r.below((uint32_t)it->second.handles.size())], idx, t); x.calls++;
            x.after = "setInstrument"; x.last_key = it->first; x.last_idx = (int)idx;
            if(rc != 0) viol(c, "oracle:C16:setInstrument-fails", vfmt("bank %s index %u returned %d", k_show(it->first).c_str(), idx, rc));
            else it->second.ins[idx] = t;
            count("instrument_writes");
            item = vfmt("setInstrument|collision%d|flags%u", m.collides(it->first), t.inst_flags & 3);
        }
        else if(w < 97)
        {   // load a bank image: replaces the whole map, all handles die
            std::vector<ImageBank> ibs; std::vector<uint8_t> img = r_gen_image(r, classes, ibs);
            bool broken = r.chance(0.2);
            if(broken) img.resize(img.size() - 1 - r.below(200));
            ExactBuf eb(img); int rc = -99;
            API("opn2_openBankData", rc = opn2_openBankData(x.dev, eb.p, (long)eb.n)); x.calls++;
            x.last_key = 0xFFFFFFFFu; x.last_idx = -1;
            if(broken)
            {   // a refused image neither creates nor removes anything
                x.after = "refused-load";
                if(rc == 0) viol(c, "oracle:C16:truncated-bank-image-accepted", vfmt("%zu bytes", img.size()));
                item = "load|refused";
            }
            else
            {
                x.after = "load";
                if(rc != 0) { viol(c, "oracle:C16:bank-image-rejected", vfmt("generated %zu-byte version-2 image with %zu banks returned %d (%s)", img.size(), ibs.size(), rc, opn2_errorInfo(x.dev))); break; }
                for(std::map<KeyId, RBank>::iterator q = m.banks.begin(); q != m.banks.end(); ++q) x.removed.push_back(q->first);
                m.banks.clear();
                bool dup = false;
                for(size_t j = 0; j < ibs.size(); j++) { if(m.banks.count(ibs[j].key)) dup = true; RBank &b = m.banks[ibs[j].key]; b.ins = ibs[j].ins; b.handles.clear(); }
                // handles come from lookups / iteration in the state check; until then a bank has none
                for(std::map<KeyId, RBank>::iterator q = m.banks.begin(); q != m.banks.end(); ++q)
                {
                    OPN2_Bank h; int r2 = lib_getBank(x.dev, q->first, 0, h); x.calls++;
                    if(r2 != 0) { viol(c, "oracle:C16:lookup-misses-present-bank:after-load", "bank " + k_show(q->first) + vfmt(" of the loaded image is not found (rc %d)", r2)); }
                    else q->second.handles.push_back(h);
                }
                for(std::map<KeyId, RBank>::iterator q = m.banks.begin(); q != m.banks.end();) { if(q->second.handles.empty()) m.banks.erase(q++); else ++q; }
                if(!m.banks.empty()) { std::map<KeyId, RBank>::iterator q = m.banks.begin(); std::advance(q, r.below((uint32_t)m.banks.size())); for(unsigned z = 0; z < 128; z++) r_check_readback(x, q->first, q->second, z); }
                count("bank_image_loads");
                item = vfmt("load|banks%s|duplicates%d|grew%d", size_class(m.banks.size()), dup, (long)m.banks.size() > m.cap);
            }
        }
        else
        {   // iterate as an operation of its own: done inside the state check below
            x.after = "iterate"; item = "iterate";
        }
        r_check_all(x);
        cover("R|" + item);
        kinds.insert(item.substr(0, item.find('|')));
        if(trace.size() < 300) trace += item.substr(0, item.find('|')) + " ";
    }
    // complete read-back of up to six banks, then release
    if(g_w.violations_in_case == 0)
    {
        x.after = "end"; int n = 0;
        for(std::map<KeyId, RBank>::iterator q = x.m.banks.begin(); q != x.m.banks.end() && n < 6; ++q, ++n)
            for(unsigned z = 0; z < 128; z++) r_check_readback(x, q->first, q->second, z);
    }
    API("opn2_close", opn2_close(x.dev));
    count("api_calls", x.calls);
    if(saw_growth) cover("R|history|grew-past-capacity");
    if(saw_reuse) cover("R|history|created-after-removal");
    if(saw_rt_full) cover("R|history|createRt-at-full-capacity");
    c.nontrivial = kinds.size() >= 4;
    c.sig = trace;
    c.sample(vfmt("{\"stage\":\"random\",\"operations\":%d,\"api_calls\":%ld,\"pool_keys\":%zu,\"final_banks\":%zu,\"final_capacity\":%ld,\"first_operations\":", nops, x.calls, x.pool.size(), x.m.banks.size(), x.m.cap) + jstr(trace.substr(0, 200)) + "}");
}

// =================================================================================================
// stages `exhaustive`, `exhaustive-pre`
// =================================================================================================
enum { NU = 6, NK = 10, NOPS = 4 * NU + 2, TAG_IDX = 77 };
// universe: bucket 0 holds K0,K1,K2 (percussive flag / MSB bit 1 differ), bucket 128 holds K3,K4, bucket 5 holds K5;
// K6..K9 are the foreign banks of the prepared states (buckets 0, 0, 128, 5)
static const KeyId XK[NK] = {kid(0, 0, 0), kid(1, 0, 0), kid(0, 2, 0), kid(0, 1, 0), kid(0, 3, 0), kid(0, 0, 5), kid(1, 2, 0), kid(0, 4, 0), kid(1, 1, 0), kid(1, 0, 5)};
enum XKind { X_CREATE = 0, X_CREATE_RT = 1, X_LOOKUP = 2, X_REMOVE = 3, X_RESERVE = 4, X_ITERATE = 5 };
static const char *XKIND[] = {"create", "createRt", "lookup", "remove", "reserve", "iterate"};

struct XM
{   // model + live handles
    uint16_t present; int size; long cap; uint16_t tag[NK]; uint16_t next_tag;
    OPN2_Bank h[NK][2]; uint8_t nh[NK];
    void clear() { present = 0; size = 0; cap = 0; next_tag = 1; memset(nh, 0, sizeof(nh)); memset(tag, 0, sizeof(tag)); }
};
static inline void x_kind_key(int op, int &kind, int &j) { if(op < 4 * NU) { kind = op & 3; j = op >> 2; } else { kind = op == 4 * NU ? X_RESERVE : X_ITERATE; j = -1; } }

struct XRun
{
    Case &c; OPN2_MIDIPlayer *dev; int pre; uint8_t seq[16]; int len;   // sequence executed so far (for messages)
    long long full_checks, light_ops, sequences, illegal;
    std::set<uint32_t> seen_abs;
    XRun(Case &c_): c(c_), dev(NULL), pre(0), len(0), full_checks(0), light_ops(0), sequences(0), illegal(0) {}
    std::string show() const
    {
        std::string s = vfmt("prepared-state %d; ", pre);
        for(int i = 0; i < len; i++) { int kind, j; x_kind_key(seq[i], kind, j); s += XKIND[kind]; if(j >= 0) s += vfmt("(K%d)", j); s += i + 1 < len ? ", " : ""; }
        return s + " [K0=(0,0,0) K1=(1,0,0) K2=(0,2,0) K3=(0,1,0) K4=(0,3,0) K5=(0,0,5) as (percussive,msb,lsb)]";
    }
};

static inline int x_bucket_occupancy(const XM &m)
{   // occupancy pattern of the three buckets touched by the universe + foreign banks: counts 0..5 each
    int b0 = 0, b128 = 0, b5 = 0;
    for(int j = 0; j < NK; j++) if(m.present & (1u << j)) { unsigned b = k_bucket(XK[j]); if(b == 0) b0++; else if(b == 128) b128++; else b5++; }
    return b0 * 36 + b128 * 6 + b5;
}

static void x_viol(XRun &x, const std::string &key, const std::string &detail) { viol(x.c, key, detail + " :: " + x.show()); }

// state check after a call (full mode only)
static bool x_check(XRun &x, XM &m, const char *after)
{
    size_t v0 = g_case_keys.size();
    int cap = lib_reserve(x.dev, 0);
    if(cap < m.cap) x_viol(x, std::string("oracle:C16:capacity-shrinks:after-") + after, vfmt("opn2_reserveBanks(0) reports %d, earlier %ld", cap, m.cap));
    if(cap < m.size) x_viol(x, std::string("oracle:C16:capacity-below-size:after-") + after, vfmt("capacity %d, %d banks", cap, m.size));
    m.cap = cap;
    for(int j = 0; j < NK; j++)
    {
        if(j >= NU && x.pre < 1) break;
        OPN2_Bank h; int rc = lib_getBank(x.dev, XK[j], 0, h);
        bool pres = (m.present >> j) & 1;
        if(pres && rc != 0) x_viol(x, std::string("oracle:C16:lookup-misses-present-bank:after-") + after, vfmt("K%d %s: opn2_getBank(flags 0) returned %d", j, k_show(XK[j]).c_str(), rc));
        else if(!pres && rc == 0) x_viol(x, std::string("oracle:C16:lookup-finds-absent-bank:after-") + after, vfmt("K%d %s: opn2_getBank(flags 0) returned 0", j, k_show(XK[j]).c_str()));
        else if(pres) { KeyId k; int r2 = lib_getBankId(x.dev, h, k); if(r2 != 0 || k != XK[j]) x_viol(x, std::string("oracle:C16:bank-id-of-live-handle-differs:after-") + after, vfmt("lookup of K%d yields a handle whose id is %s (rc %d)", j, k == 0xFFFFFFFFu ? "out of range" : k_show(k).c_str(), r2)); }
    }
    for(int j = 0; j < NK; j++)
        if((m.present >> j) & 1)
            for(int q = 0; q < m.nh[j]; q++)
            {
                KeyId k; int rc = lib_getBankId(x.dev, m.h[j][q], k);
                if(rc != 0 || k != XK[j]) x_viol(x, std::string("oracle:C16:bank-id-of-live-handle-differs:after-") + after, vfmt("handle %d of K%d reads back rc %d id %s", q, j, rc, k == 0xFFFFFFFFu ? "out of range" : k_show(k).c_str()));
            }
    {
        unsigned seen = 0; int steps = 0; OPN2_Bank h; int rc = lib_first(x.dev, h); bool bad = false;
        while(rc == 0)
        {
            if(++steps > m.size + 1) { x_viol(x, std::string("oracle:C16:iteration-does-not-end:after-") + after, vfmt("%d banks present, still iterating after %d steps", m.size, steps)); bad = true; break; }
            KeyId k; int r2 = lib_getBankId(x.dev, h, k); int j = -1;
            for(int q = 0; q < NK; q++) if(XK[q] == k) j = q;
            if(r2 != 0 || j < 0 || !((m.present >> j) & 1)) { x_viol(x, std::string("oracle:C16:iteration-visits-absent-bank:after-") + after, "iteration yields " + (k == 0xFFFFFFFFu ? std::string("an out-of-range id") : k_show(k))); bad = true; break; }
            if(seen & (1u << j)) { x_viol(x, std::string("oracle:C16:iteration-visits-bank-twice:after-") + after, vfmt("K%d twice", j)); bad = true; break; }
            seen |= 1u << j;
            rc = lib_next(x.dev, h);
        }
        if(!bad && seen != m.present) x_viol(x, std::string("oracle:C16:iteration-misses-present-bank:after-") + after, vfmt("visited set %03x, model %03x", seen, m.present));
    }
    for(int j = 0; j < NK; j++)
        if((m.present >> j) & 1)
        {
            OPN2_Instrument got; int rc = lib_getIns(x.dev, m.h[j][m.nh[j] - 1], TAG_IDX, got); OPN2_Instrument want = tag_ins(m.tag[j]);
            if(rc != 0 || !ins_eq(got, want)) x_viol(x, std::string("oracle:C16:instrument-readback-differs:after-") + after, vfmt("K%d index %d (rc %d) reads ", j, TAG_IDX, rc) + ins_show(got) + " expected " + ins_show(want));
        }
    x.full_checks++;
    return g_case_keys.size() == v0;
}

// one operation; `full`: with all expectations and the state check, else only what is needed to follow the history
static bool x_exec(XRun &x, XM &m, int kind, int j, bool full)
{
    size_t v0 = g_case_keys.size();
    bool pres = j >= 0 && ((m.present >> j) & 1);
    int rcclass = 0;
    switch(kind)
    {
    case X_CREATE: case X_CREATE_RT:
    {
        OPN2_Bank h; long long al = 0; bool full_cap = m.size >= m.cap;
        int rc = lib_getBank(x.dev, XK[j], kind == X_CREATE ? OPNMIDI_Bank_Create : OPNMIDI_Bank_CreateRt, h, &al);
        rcclass = rc == 0 ? 0 : 1;
        if(full)
        {
            if(kind == X_CREATE) { if(rc != 0) x_viol(x, vfmt("oracle:C16:create-fails:%s:full%d", pres ? "present" : "absent", full_cap), vfmt("K%d returned %d", j, rc)); }
            else
            {
                if(al != 0) x_viol(x, std::string("oracle:C16:createRt-allocates:") + (pres ? "present-key" : "absent-key"), vfmt("%lld heap allocation(s) inside opn2_getBank(OPNMIDI_Bank_CreateRt) of K%d, %d banks, capacity %ld", al, j, m.size, m.cap));
                bool ok = pres || !full_cap;
                if(ok && rc != 0) x_viol(x, vfmt("oracle:C16:createRt-fails-with-capacity-left:%s:full%d", pres ? "present" : "absent", full_cap), vfmt("K%d returned %d with %d banks and capacity %ld", j, rc, m.size, m.cap));
                if(!ok && rc == 0) x_viol(x, "oracle:C16:createRt-succeeds-with-capacity-exhausted", vfmt("K%d returned 0 with %d banks and capacity %ld", j, m.size, m.cap));
                count("rt_creations_checked");
            }
        }
        if(rc == 0)
        {
            if(!pres)
            {
                m.present |= (uint16_t)(1u << j); m.size++; m.h[j][0] = h; m.nh[j] = 1;
                if(full)
                {
                    static const unsigned probe[] = {0, TAG_IDX, 127};
                    for(int q = 0; q < 3; q++) { OPN2_Instrument got; int r2 = lib_getIns(x.dev, h, probe[q], got); if(r2 != 0 || !ins_eq(got, blank_ins())) x_viol(x, std::string("oracle:C16:new-bank-not-blank:") + XKIND[kind], vfmt("K%d index %u (rc %d) reads ", j, probe[q], r2) + ins_show(got)); }
                }
                m.tag[j] = m.next_tag++;
                int r3 = lib_setIns(x.dev, h, TAG_IDX, tag_ins(m.tag[j]));
                if(full && r3 != 0) x_viol(x, "oracle:C16:setInstrument-fails", vfmt("K%d returned %d", j, r3));
            }
            else { m.h[j][1] = h; m.nh[j] = 2; }
        }
        break;
    }
    case X_LOOKUP:
    {
        OPN2_Bank h; int rc = lib_getBank(x.dev, XK[j], 0, h); rcclass = rc == 0 ? 0 : 1;
        if(full && pres && rc != 0) x_viol(x, "oracle:C16:lookup-misses-present-bank:lookup", vfmt("K%d returned %d", j, rc));
        if(full && !pres && rc == 0) x_viol(x, "oracle:C16:lookup-finds-absent-bank:lookup", vfmt("K%d returned 0", j));
        if(pres && rc == 0) { m.h[j][1] = h; m.nh[j] = 2; }
        break;
    }
    case X_REMOVE:
    {   // only called for present banks; through the newest handle
        int rc = lib_remove(x.dev, m.h[j][m.nh[j] - 1]); rcclass = rc == 0 ? 0 : 1;
        if(full && rc != 0) x_viol(x, "oracle:C16:remove-fails", vfmt("K%d returned %d", j, rc));
        m.present &= (uint16_t)~(1u << j); m.size--; m.nh[j] = 0;
        break;
    }
    case X_RESERVE:
    {
        unsigned n = (unsigned)m.size + 1; int rc = lib_reserve(x.dev, n); rcclass = rc > m.cap ? 1 : 0;
        if(full && rc < (int)n) x_viol(x, "oracle:C16:reserve-returns-less-than-requested", vfmt("opn2_reserveBanks(%u) returned %d", n, rc));
        if(full && rc < m.cap) x_viol(x, "oracle:C16:capacity-shrinks:after-reserve", vfmt("opn2_reserveBanks(%u) returned %d, capacity was %ld", n, rc, m.cap));
        if(rc > m.cap) m.cap = rc;
        break;
    }
    default:
    {   // iterate: harvest the handles (the set itself is compared by the state check)
        OPN2_Bank h; int rc = lib_first(x.dev, h); int steps = 0;
        while(rc == 0 && steps++ <= NK)
        {
            KeyId k; lib_getBankId(x.dev, h, k);
            for(int q = 0; q < NK; q++) if(XK[q] == k && ((m.present >> q) & 1)) { m.h[q][1] = h; m.nh[q] = 2; }
            rc = lib_next(x.dev, h);
        }
        rcclass = steps;
        break;
    }
    }
    if(!full) { x.light_ops++; return true; }
    bool ok = g_case_keys.size() == v0 && x_check(x, m, XKIND[kind]);
    uint32_t abs = (uint32_t)(((((kind * 2 + (pres ? 1 : 0)) * 8 + std::min(7, rcclass)) * 11 + std::min(10, m.size)) * 9 + (int)std::min<long>(8, m.cap - m.size)) * 216 + x_bucket_occupancy(m));
    if(x.seen_abs.insert(abs).second)
        cover(vfmt("X|%s|target-%s|result%d|size%d|free%ld|buckets%d-%d-%d", XKIND[kind], j < 0 ? "none" : pres ? "present" : "absent", rcclass, m.size, std::min<long>(8, m.cap - m.size),
                   x_bucket_occupancy(m) / 36, (x_bucket_occupancy(m) / 6) % 6, x_bucket_occupancy(m) % 6));
    return ok;
}

static void x_reset(XRun &x, XM &m, bool full)
{   // pristine map (what a new instance has) + the prepared state
    P(x.dev)->m_synth->m_insBanks = OPN2::BankMap();
    m.clear();
    x.len = 0;
    switch(x.pre)
    {
    case 1: { int rc = lib_reserve(x.dev, 5); m.cap = rc; if(full && rc < 5) x_viol(x, "oracle:C16:reserve-returns-less-than-requested", vfmt("opn2_reserveBanks(5) returned %d", rc));
              x_exec(x, m, X_CREATE, 6, false); x_exec(x, m, X_CREATE, 8, false); break; }
    case 2: x_exec(x, m, X_CREATE, 6, false); x_exec(x, m, X_CREATE, 8, false); x_exec(x, m, X_CREATE, 9, false); break;
    case 3: for(int j = 6; j < 10; j++) x_exec(x, m, X_CREATE, j, false); x_exec(x, m, X_REMOVE, 7, false); x_exec(x, m, X_REMOVE, 9, false); break;
    default: break;
    }
    if(x.pre >= 1) m.cap = lib_reserve(x.dev, 0);
    if(full) x_check(x, m, "prepare");
}

static void x_explore(XRun &x, int d, int D, const XM &parent)
{
    for(int op = 0; op < NOPS && g_case_keys.size() < 8; op++)
    {
        int kind, j; x_kind_key(op, kind, j);
        if(kind == X_REMOVE && !((parent.present >> j) & 1)) { x.illegal++; continue; }     // no live handle: not a history
        XM m; x_reset(x, m, false);
        for(int i = 0; i < d; i++) { int k2, j2; x_kind_key(x.seq[i], k2, j2); x_exec(x, m, k2, j2, false); }
        if(m.present != parent.present || m.size != parent.size) { x.len = d; x_viol(x, "oracle:C16:same-history-different-state", vfmt("replaying the history gives presence %03x, first run %03x", m.present, parent.present)); continue; }
        m.cap = parent.cap;
        x.seq[d] = (uint8_t)op; x.len = d + 1;
        bool ok = x_exec(x, m, kind, j, true);
        x.sequences++;
        if(ok && d + 1 < D) x_explore(x, d + 1, D, m);
    }
}

static OPN2_MIDIPlayer *g_xdev = NULL;

static void run_exhaustive(Case &c, bool prepared)
{
    int D = (int)g_w.optnum(g_w.tier == "thorough" ? "depth_thorough" : "depth_quick", 5);
    int B = std::min(D, (int)g_w.optnum("batch", 3));
    int P = D - B;                                   // letters decoded from the case index
    long space = 1; for(int i = 0; i < P; i++) space *= NOPS;
    long k = c.k; int pre = 0;
    if(prepared) { pre = 1 + (int)(k / space); k %= space; if(pre > 3) { c.skip = true; return; } }
    else if(k >= space) { c.skip = true; return; }
    if(!g_xdev) { API("opn2_init", g_xdev = opn2_init(44100)); if(!g_xdev) { c.violation("oracle:init-failed", "opn2_init returned NULL"); return; } }
    XRun x(c); x.dev = g_xdev; x.pre = pre;
    uint8_t prefix[16]; { long q = k; for(int i = P - 1; i >= 0; i--) { prefix[i] = (uint8_t)(q % NOPS); q /= NOPS; } }
    // the prefix, checked in full on the way
    XM m; x_reset(x, m, true);
    for(int i = 0; i < P; i++)
    {
        int kind, j; x_kind_key(prefix[i], kind, j);
        if(kind == X_REMOVE && !((m.present >> j) & 1)) { c.skip = true; return; }
        x.seq[i] = prefix[i]; x.len = i + 1;
        if(!x_exec(x, m, kind, j, true)) return;
    }
    std::string prefix_text = x.show();
    x_explore(x, P, D, m);
    c.nontrivial = x.sequences > 0;
    count("x_histories_checked", x.sequences);
    count("x_state_checks", x.full_checks);
    count("x_replayed_calls", x.light_ops);
    count("x_histories_without_live_handle_skipped", x.illegal);
    c.sig = vfmt("X%d|%ld", pre, k);
    c.sample(vfmt("{\"stage\":\"%s\",\"depth\":%d,\"prepared_state\":%d,\"prefix\":", g_w.stage.c_str(), D, pre) + jstr(prefix_text.substr(0, prefix_text.find(" ["))) + vfmt(",\"histories_checked\":%lld,\"state_checks\":%lld}", x.sequences, x.full_checks));
}

static void run_case(Case &c)
{
    g_case_keys.clear();
    if(g_w.stage == "exhaustive") run_exhaustive(c, false);
    else if(g_w.stage == "exhaustive-pre") run_exhaustive(c, true);
    else run_random(c);
}
