// C13 — audio calls fill exactly what they report, in the requested sample format.
//
// One case = three identically configured instances driven in lock-step through one call history:
//   A, B  "F64 twins": every audio call renders OPNMIDI_SampleType_F64 (value = x / 32767, so x = round(v * 32767)
//         recovers the int32 mix value). A == B bit for bit is the determinism PRECONDITION (else: inconclusive).
//   T     the instance under test: every audio call uses another (sample type, container, sample offset, layout)
//         and another kind of caller buffer.
// Monitors on every audio call of T:
//   (1) return value: generate* == request rounded down to even (0 for negative), play* in [0, that] and 0 only when
//       opn2_atEnd (no music loaded: three-valued); unsupported (type, container) pairs return 0;
//   (2) memory: each channel buffer is a heap block [64 canary][region][64 canary] (or an exact-size malloc block, so
//       that ASan red zones see writes outside it), completely filled with a pseudo-random canary before the call;
//       afterwards every byte that is not inside one of the returned/2 container slots at left/right + i*sampleOffset
//       must be unchanged (lead/trail canaries, inter-sample gaps, slots beyond the returned count);
//   (3) conversion: every owned slot holds the documented conversion of the twin's x, as a containerSize-byte integer in
//       native byte order (floats: x / 32767 within float granularity).
#include "vsmf.hpp"

static const char *harness_name() { return "c13_audio"; }
static void harness_init() { default_bank(); }

// The twin comparison needs identically driven instances to be bit-identical (C14's subject, a precondition here). Some
// emulator state is read before it is written, so recycled heap memory (e.g. our freed canary blocks) would leak into the
// signal of one instance only; every fresh allocation is therefore filled with a constant. Options given in the
// environment by the supervisor are merged over these.
extern "C" const char *__asan_default_options() { return "max_malloc_fill_size=268435456:malloc_fill_byte=0"; }

// ------------------------------------------------------------------------------------------------------------
// reference model of the documented formats
// ------------------------------------------------------------------------------------------------------------
static std::string type_name(int t)
{
    static const char *n[] = {"S16", "S8", "F32", "F64", "S24", "S32", "U8", "U16", "U24", "U32"};
    if(t >= 0 && t < 10) return n[t];
    return "INVALID";
}
static bool is_float(int t) { return t == OPNMIDI_SampleType_F32 || t == OPNMIDI_SampleType_F64; }
static bool pair_supported(int t, unsigned c)
{
    switch(t)
    {
    case OPNMIDI_SampleType_S8: case OPNMIDI_SampleType_U8: return c == 1 || c == 2 || c == 4;
    case OPNMIDI_SampleType_S16: case OPNMIDI_SampleType_U16: return c == 2 || c == 4;
    case OPNMIDI_SampleType_S24: case OPNMIDI_SampleType_U24: case OPNMIDI_SampleType_S32: case OPNMIDI_SampleType_U32: return c == 4;
    case OPNMIDI_SampleType_F32: return c == 4;
    case OPNMIDI_SampleType_F64: return c == 8;
    default: return false;
    }
}
// documented integer conversion of the int32 mix value x (statement of C13 / doc of the sample types)
static int64_t expect_int(int t, int64_t x)
{
    int64_t s16 = x < -32768 ? -32768 : (x > 32767 ? 32767 : x);       // saturated
    switch(t)
    {
    case OPNMIDI_SampleType_S16: return s16;
    case OPNMIDI_SampleType_U16: return s16 + 32768;
    case OPNMIDI_SampleType_S8:  return s16 / 256;                      // C++ integer division, truncating toward zero
    case OPNMIDI_SampleType_U8:  return s16 / 256 + 128;
    case OPNMIDI_SampleType_S24: return s16 * 256;
    case OPNMIDI_SampleType_U24: return s16 * 256 + (1 << 23);
    case OPNMIDI_SampleType_S32: return s16 * 65536;
    case OPNMIDI_SampleType_U32: return s16 * 65536 + 2147483648ll;     // 0 .. 2^32-1
    }
    return 0;
}
// containerSize-byte integer in native byte order holding v (two's complement)
static void store_native(uint8_t *dst, unsigned c, int64_t v)
{
    switch(c)
    {
    case 1: { uint8_t q = (uint8_t)(uint64_t)v; memcpy(dst, &q, 1); break; }
    case 2: { uint16_t q = (uint16_t)(uint64_t)v; memcpy(dst, &q, 2); break; }
    case 4: { uint32_t q = (uint32_t)(uint64_t)v; memcpy(dst, &q, 4); break; }
    default: { uint64_t q = (uint64_t)v; memcpy(dst, &q, 8); break; }
    }
}
static int64_t load_native(const uint8_t *src, unsigned c)
{
    switch(c)
    {
    case 1: { int8_t q; memcpy(&q, src, 1); return q; }
    case 2: { int16_t q; memcpy(&q, src, 2); return q; }
    case 4: { int32_t q; memcpy(&q, src, 4); return q; }
    default: { int64_t q; memcpy(&q, src, 8); return q; }
    }
}

// ------------------------------------------------------------------------------------------------------------
// caller memory: canary-filled heap blocks
// ------------------------------------------------------------------------------------------------------------
static inline uint8_t canary_byte(uint64_t nonce, size_t j)
{
    uint64_t z = nonce + (uint64_t)j * 0x9E3779B97F4A7C15ull;
    z ^= z >> 29; z *= 0xBF58476D1CE4E5B9ull; z ^= z >> 32;
    return (uint8_t)z;
}
struct Block
{
    uint8_t *base; size_t total, lead, rsize; uint64_t nonce; bool exact;
    std::vector<int32_t> owner;           // per byte of the block: -1 not owned, >= 0 slot id, -2 covered by several slots
    Block(): base(NULL), total(0), lead(0), rsize(0), nonce(0), exact(false) {}
    void alloc(size_t region_size, bool exact_, uint64_t nonce_)
    {
        exact = exact_; rsize = region_size; lead = exact ? 0 : 64; total = rsize + 2 * lead; nonce = nonce_;
        base = (uint8_t *)malloc(total);   // total == 0: ASan hands out a 0-byte region, every access is a report
        for(size_t j = 0; j < total; j++) base[j] = canary_byte(nonce, j);
        owner.assign(total, -1);
    }
    uint8_t *region() const { return base + lead; }
    void release() { free(base); base = NULL; }
};
struct Slot { int block; size_t off; size_t frame; int ch; };   // off = byte offset inside the block

struct Fmt
{
    int type; unsigned container, offset; bool planar; bool exact;
    int offclass;     // 0: c, 1: 2c, 2: c+4, 3: 2c+4, 4: 16
};

struct CallBuffers
{
    Block blk[2]; int nblk; uint8_t *left, *right; size_t left_off, right_off; int right_blk;
    void make(const Fmt &f, size_t frames, uint64_t nonce)
    {
        unsigned cs = f.container ? f.container : 1;     // sizing of blocks for refused formats: as if 1 byte
        if(cs > 64) cs = 64;
        if(f.planar)
        {
            size_t span = frames ? (frames - 1) * (size_t)f.offset + cs : 0;
            blk[0].alloc(span, f.exact, nonce); blk[1].alloc(span, f.exact, nonce ^ 0x5555AAAA5555AAAAull);
            nblk = 2; left = blk[0].region(); right = blk[1].region(); left_off = blk[0].lead; right_off = blk[1].lead; right_blk = 1;
        }
        else
        {
            size_t span = frames ? (frames - 1) * (size_t)f.offset + 2 * cs : 0;
            blk[0].alloc(span, f.exact, nonce);
            nblk = 1; left = blk[0].region(); right = left + cs; left_off = blk[0].lead; right_off = left_off + cs; right_blk = 0;
        }
    }
    void release() { for(int i = 0; i < nblk; i++) blk[i].release(); }
};

struct CheckStats { long long canary_bytes, owned_bytes, slots_cmp, slots_aliased; };

// Verify the memory after a call that reported `frames_written` frames. xs = twin's mix values (2 per frame) or NULL when
// nothing may have been written. Returns false after reporting a violation.
static bool verify_buffers(Case &c, CallBuffers &cb, const Fmt &f, size_t frames_written, const std::vector<int64_t> *xs,
                           const std::string &ctx, CheckStats &st, bool &beyond16_seen)
{
    std::vector<Slot> slots;
    unsigned cs = f.container;
    if(frames_written && xs)
    {
        slots.reserve(frames_written * 2);
        for(size_t i = 0; i < frames_written; i++)
        {
            Slot l = {0, cb.left_off + i * (size_t)f.offset, i, 0}; slots.push_back(l);
            Slot r = {cb.right_blk, cb.right_off + i * (size_t)f.offset, i, 1}; slots.push_back(r);
        }
        for(size_t s = 0; s < slots.size(); s++)
        {
            Block &b = cb.blk[slots[s].block];
            for(unsigned k = 0; k < cs; k++)
            {
                size_t p = slots[s].off + k;
                if(p >= b.total) { c.violation("harness:C13:slot-outside-block", ctx); return false; }
                b.owner[p] = (b.owner[p] == -1) ? (int32_t)s : -2;
            }
        }
    }
    bool ok = true;
    // (2) every byte outside the owned slots is unchanged
    for(int bi = 0; bi < cb.nblk && ok; bi++)
    {
        Block &b = cb.blk[bi];
        for(size_t j = 0; j < b.total; j++)
        {
            if(b.owner[j] != -1) { st.owned_bytes++; continue; }
            st.canary_bytes++;
            if(b.base[j] != canary_byte(b.nonce, j))
            {
                const char *where = j < b.lead ? "before-region" : (j >= b.lead + b.rsize ? "after-region" : "inside-region-not-owned");
                // distinguish: beyond the reported count vs. a gap between reported slots
                std::string w = where;
                if(j >= b.lead && j < b.lead + b.rsize)
                {
                    size_t rel = j - b.lead; size_t fr = f.offset ? rel / f.offset : 0;
                    if(!xs || fr >= frames_written) w = "beyond-reported-count"; else w = "inter-sample-gap";
                }
                c.violation("oracle:C13:foreign-byte-changed:" + w,
                            vfmt("%s block %d byte %zu (region offset %ld) was %02x now %02x; frames reported %zu", ctx.c_str(), bi, j,
                                 (long)j - (long)b.lead, canary_byte(b.nonce, j), b.base[j], frames_written));
                ok = false; break;
            }
        }
    }
    if(!ok || !xs) return ok;
    // (3) owned slots hold the documented conversion of the twin's signal
    for(size_t s = 0; s < slots.size(); s++)
    {
        Block &b = cb.blk[slots[s].block];
        bool aliased = false;
        for(unsigned k = 0; k < cs; k++) if(b.owner[slots[s].off + k] != (int32_t)s) { aliased = true; break; }
        if(aliased) { st.slots_aliased++; continue; }   // caller made slots overlap (offset < 2*container, interleaved): content not defined by the statement
        int64_t x = (*xs)[slots[s].frame * 2 + (size_t)slots[s].ch];
        if(x > 32767 || x < -32768) beyond16_seen = true;
        const uint8_t *p = b.base + slots[s].off;
        st.slots_cmp++;
        if(is_float(f.type))
        {
            double want = (double)x / 32767.0, got, tol;
            if(f.type == OPNMIDI_SampleType_F32) { float g; memcpy(&g, p, 4); got = g; tol = fabs(want) * (1.0 / 4194304.0) + 1e-30; }   // 2^-22: 4 ulp of float
            else { memcpy(&got, p, 8); tol = fabs(want) * (1.0 / 1125899906842624.0) + 1e-300; }                                           // 2^-50
            if(!(fabs(got - want) <= tol))
            {
                c.violation("oracle:C13:conversion:" + type_name(f.type) + vfmt(":c%u", cs),
                            vfmt("%s frame %zu ch %d: mix value x=%lld, expected x/32767=%.17g, stored %.17g", ctx.c_str(), slots[s].frame, slots[s].ch, (long long)x, want, got));
                return false;
            }
        }
        else
        {
            int64_t want = expect_int(f.type, x);
            uint8_t wb[8]; store_native(wb, cs, want);
            if(memcmp(wb, p, cs) != 0)
            {
                int64_t got = load_native(p, cs);
                const char *cls = (x > 32767 || x < -32768) ? "beyond-int16" : (x < 0 ? "negative" : "in-range");
                c.violation("oracle:C13:conversion:" + type_name(f.type) + vfmt(":c%u", cs),
                            vfmt("%s frame %zu ch %d: mix value x=%lld (%s), documented conversion %lld (bytes %s), stored %lld (bytes %s)", ctx.c_str(), slots[s].frame,
                                 slots[s].ch, (long long)x, cls, (long long)want, hexs(wb, cs).c_str(), (long long)got, hexs(p, cs).c_str()));
                return false;
            }
        }
    }
    return true;
}

// ------------------------------------------------------------------------------------------------------------
// workload
// ------------------------------------------------------------------------------------------------------------
static const int k_sizes[] = {-4, -1, 0, 1, 2, 3, 4, 5, 100, 1023, 1024, 1025, 1026, 2047, 4096, 70000};

static Fmt pick_format(Rng &r)
{
    Fmt f;
    static const int sup[16][2] = {
        {OPNMIDI_SampleType_S8, 1}, {OPNMIDI_SampleType_S8, 2}, {OPNMIDI_SampleType_S8, 4}, {OPNMIDI_SampleType_U8, 1}, {OPNMIDI_SampleType_U8, 2}, {OPNMIDI_SampleType_U8, 4},
        {OPNMIDI_SampleType_S16, 2}, {OPNMIDI_SampleType_S16, 4}, {OPNMIDI_SampleType_U16, 2}, {OPNMIDI_SampleType_U16, 4},
        {OPNMIDI_SampleType_S24, 4}, {OPNMIDI_SampleType_U24, 4}, {OPNMIDI_SampleType_S32, 4}, {OPNMIDI_SampleType_U32, 4},
        {OPNMIDI_SampleType_F32, 4}, {OPNMIDI_SampleType_F64, 8}};
    if(r.chance(0.62)) { int i = (int)r.below(16); f.type = sup[i][0]; f.container = (unsigned)sup[i][1]; }
    else
    {   // whole grid: 10 types x {1,2,4,8}, sometimes values outside the enum / other container sizes
        f.type = r.chance(0.9) ? (int)r.below(10) : r.pick((const int[]){10, 11, -1, 100, 0x7fffffff, INT32_MIN});
        f.container = r.chance(0.85) ? (unsigned)r.pick((const int[]){1, 2, 4, 8}) : (unsigned)r.pick((const int[]){0, 3, 8, 16, 5});
    }
    f.offclass = (int)r.below(5);
    unsigned cc = f.container;
    switch(f.offclass) { case 0: f.offset = cc; break; case 1: f.offset = 2 * cc; break; case 2: f.offset = cc + 4; break; case 3: f.offset = 2 * cc + 4; break; default: f.offset = 16; }
    f.planar = r.chance(0.45);
    f.exact = r.chance(0.3);
    return f;
}

struct Cfg { long rate; int emu, chips; bool loud, pcmrate; int mode; };   // mode 0 rt, 1 file, 2 play without music

// Loud material: the same key (and its octave) at full velocity, volume and expression on every free melodic channel, so that
// the voices of all chips add up coherently and the int32 mix leaves the int16 range for long stretches (probed: ~50 % of the
// samples with programs 38/19/36/41 of the generated bank on 4 chips); variant 1: 24 different keys (short peaks only).
static const int k_loud_progs[] = {38, 102, 19, 83, 36, 41};
static void add_loud_track(Song &s, Rng &r)
{
    if(s.tracks.size() == 1) s.format = 1;
    uint64_t last = 0;
    for(size_t t = 0; t < s.tracks.size(); t++) if(!s.tracks[t].ev.empty()) last = std::max(last, s.tracks[t].ev.back().tick);
    STrack tr; int serial = 0;
    int prog = r.pick(k_loud_progs), base = r.range(48, 66); bool coherent = r.chance(0.75);
    static const int chans[] = {3, 4, 5, 6, 7, 11, 12, 13, 14, 15};   // gen_song's <= 3 tracks use 0,1,2,8,9,10
    for(int i = 0; i < 10; i++)
    {
        int ch = chans[i]; SEv e;
        e = mk_chan(0, (uint8_t)(0xC0 | ch), prog); e.serial = serial++; tr.ev.push_back(e);
        e = mk_chan(0, (uint8_t)(0xB0 | ch), 7, 127); e.serial = serial++; tr.ev.push_back(e);
        e = mk_chan(0, (uint8_t)(0xB0 | ch), 11, 127); e.serial = serial++; tr.ev.push_back(e);
        e = mk_chan(0, (uint8_t)(0x90 | ch), coherent ? base : base + i * 2 - 9, 127); e.serial = serial++; tr.ev.push_back(e);
        e = mk_chan(0, (uint8_t)(0x90 | ch), coherent ? base + 12 : base + i * 2 + 12, 127); e.serial = serial++; tr.ev.push_back(e);
    }
    SEv eot = mk_meta(last, 0x2F, std::vector<uint8_t>()); eot.serial = serial++; tr.ev.push_back(eot);
    s.tracks.push_back(tr);
}

static double song_seconds(const Song &s)
{
    TempoMap tm; tm.build(s);
    uint64_t last = 0;
    for(size_t t = 0; t < s.tracks.size(); t++) if(!s.tracks[t].ev.empty()) last = std::max(last, s.tracks[t].ev.back().tick);
    return (double)tm.seconds(last);
}

static int g_nofile_class = -1;   // three-valued: behaviour of play* without music adopted from the first observation in this worker

static void run_case(Case &c)
{
    Rng &r = c.rng;
    Cfg cfg;
    {
        double p = r.unit();
        if(p < 0.06) cfg.emu = r.chance(0.5) ? 1 : 8;
        else cfg.emu = r.pick((const int[]){0, 2, 3, 4, 5, 6});
        cfg.loud = r.chance(0.5);
        cfg.chips = cfg.loud ? (r.chance(0.8) ? 4 : r.range(1, 4)) : r.range(1, 4);
        cfg.rate = r.chance(0.7) ? 44100 : r.pick((const long[]){8000, 22050, 48000, 53267});
        cfg.pcmrate = r.chance(0.15);
        double m = r.unit();
        cfg.mode = m < 0.55 ? 0 : (m < 0.95 ? 1 : 2);
    }
    const bool slow = cfg.emu == 1 || cfg.emu == 8;
    // cost of one output frame relative to one MAME chip
    const double unit_cost = (slow ? 30.0 : (cfg.emu == 3 || cfg.emu == 6) ? 4.0 : 1.0) * cfg.chips * (cfg.pcmrate ? 0.6 : (44100.0 / (double)cfg.rate));
    double frame_budget = (double)g_w.optnum("units", 200000) / unit_cost;   // frames this case may render per instance

    // ---- music for file mode
    std::vector<uint8_t> smf; double tempo = 1.0;
    if(cfg.mode == 1)
    {
        SongOpts o; o.min_tracks = 1; o.max_tracks = 3; o.max_events = 24; o.big_deltas = false; o.force_division = r.pick((const int[]){24, 96, 480});
        Song s = gen_song(r, o);
        if(cfg.loud) add_loud_track(s, r);
        double dur = song_seconds(s);
        double target_frames = std::max(600.0, std::min(frame_budget * 0.6, (double)r.range(1500, 12000)));
        double target_s = target_frames / (double)cfg.rate;
        tempo = dur > target_s ? dur / target_s : 1.0;
        smf = serialize_song(s);
    }

    // ---- three identically configured instances: 0 = A (F64 twin), 1 = B (F64 twin), 2 = T (under test)
    OPN2_MIDIPlayer *dev[3] = {NULL, NULL, NULL};
    bool setup_ok = true;
    for(int q = 0; q < 3; q++)
    {
        API("opn2_init", dev[q] = opn2_init(cfg.rate));
        if(!dev[q]) { c.violation("oracle:init-failed", "opn2_init returned NULL"); setup_ok = false; break; }
        int rc = 0;
        API("opn2_setNumChips", rc = opn2_setNumChips(dev[q], cfg.chips)); if(rc) setup_ok = false;
        API("opn2_switchEmulator", rc = opn2_switchEmulator(dev[q], cfg.emu)); if(rc) setup_ok = false;
        if(cfg.pcmrate) API("opn2_setRunAtPcmRate", opn2_setRunAtPcmRate(dev[q], 1));
        { ExactBuf b(default_bank()); API("opn2_openBankData", rc = opn2_openBankData(dev[q], b.p, (long)b.n)); if(rc) setup_ok = false; }
        if(cfg.mode == 1)
        {
            ExactBuf m(smf); API("opn2_openData", rc = opn2_openData(dev[q], m.p, (unsigned long)m.n)); if(rc) setup_ok = false;
            API("opn2_setTempo", opn2_setTempo(dev[q], tempo));
        }
    }
    if(!setup_ok)
    {
        if(!g_w.violations_in_case) { c.inconclusive = true; count("setup_failed"); }
        for(int q = 0; q < 3; q++) if(dev[q]) API("opn2_close", opn2_close(dev[q]));
        return;
    }
    #define ALL(name, call) do { for(int q_ = 0; q_ < 3; q_++) { OPN2_MIDIPlayer *d = dev[q_]; API(name, call); } } while(0)

    // ---- initial material for the real-time modes
    std::vector<std::pair<int, int> > held;   // (channel, key)
    if(cfg.mode != 1)
    {
        if(cfg.loud)
        {
            int prog = r.pick(k_loud_progs), base = r.range(48, 66); bool coherent = r.chance(0.75);
            for(int ch = 0; ch < 16; ch++)
            {
                if(ch == 9) continue;
                ALL("opn2_rt_patchChange", opn2_rt_patchChange(d, (OPN2_UInt8)ch, (OPN2_UInt8)prog));
                ALL("opn2_rt_controllerChange", opn2_rt_controllerChange(d, (OPN2_UInt8)ch, 7, 127));
                ALL("opn2_rt_controllerChange", opn2_rt_controllerChange(d, (OPN2_UInt8)ch, 11, 127));
                int key = coherent ? base : base + ch - 8;
                ALL("opn2_rt_noteOn", opn2_rt_noteOn(d, (OPN2_UInt8)ch, (OPN2_UInt8)key, 127)); held.push_back(std::make_pair(ch, key));
                if(ch < 9) { ALL("opn2_rt_noteOn", opn2_rt_noteOn(d, (OPN2_UInt8)ch, (OPN2_UInt8)(key + 12), 127)); held.push_back(std::make_pair(ch, key + 12)); }
            }
        }
        else
        {
            int prog = r.range(0, 127), key = r.range(40, 80), vel = r.range(12, 40);
            ALL("opn2_rt_patchChange", opn2_rt_patchChange(d, 0, (OPN2_UInt8)prog));
            ALL("opn2_rt_noteOn", opn2_rt_noteOn(d, 0, (OPN2_UInt8)key, (OPN2_UInt8)vel));
            held.push_back(std::make_pair(0, key));
        }
    }

    CheckStats st = {0, 0, 0, 0};
    long long n_calls = 0, n_unsupported = 0;
    bool beyond16 = false, ended = false, twin_broken = false;
    int calls_after_end = 0;
    const int max_calls = cfg.mode == 1 ? 48 : r.range(4, 10);
    std::string sig;

    // Period arithmetic adversary (real-time mode, every eighth case): from a fresh instance the fractional-frame carry is exactly 0;
    // a first request of k1 frames with rate * (k1 / rate) one ulp below k1 leaves a carry of 1 - epsilon, and a second request
    // k2 whose product rounds up makes carry + k2 reach k2 + 1: the period then wants one frame more than was asked for
    int adv_k1 = 0, adv_k2 = 0;
    if(cfg.mode == 0 && r.chance(0.125))
    {
        std::vector<int> k1s;
        for(int k = 1; k <= 300; k++) { double cy = (double)cfg.rate * ((double)k / (double)cfg.rate); if((long)cy < k) k1s.push_back(k); }
        if(!k1s.empty())
        {
            int k1 = k1s[r.below((uint32_t)k1s.size())];
            double cy = (double)cfg.rate * ((double)k1 / (double)cfg.rate); cy -= (double)(long)cy;      // after the first period
            cy += (double)cfg.rate * (1.0 / (double)cfg.rate); cy -= (double)(long)cy;                    // ... and the one-frame period that completes the request
            std::vector<int> k2s;
            for(int k = 1; k <= 300; k++) if(k != k1) { double t = cy + (double)cfg.rate * ((double)k / (double)cfg.rate); if((long)t > k) k2s.push_back(k); }
            if(!k2s.empty()) { adv_k1 = k1; adv_k2 = k2s[r.below((uint32_t)k2s.size())]; count("period_carry_adversary_cases"); }
        }
    }

    for(int step = 0; step < max_calls && g_w.violations_in_case < 3 && !twin_broken; step++)
    {
        // -- events between audio calls (real-time modes)
        if(cfg.mode != 1 && step > 0 && r.chance(0.6))
        {
            int k = (int)r.below(5);
            if(k == 0 && !held.empty()) { size_t j = r.below((uint32_t)held.size()); int ch = held[j].first, key = held[j].second; held.erase(held.begin() + (long)j); ALL("opn2_rt_noteOff", opn2_rt_noteOff(d, (OPN2_UInt8)ch, (OPN2_UInt8)key)); }
            else if(k == 1) { int ch = r.pick((const int[]){0, 1, 2, 3, 10, 15}), key = r.range(36, 90), vel = cfg.loud ? 127 : r.range(10, 50); ALL("opn2_rt_noteOn", opn2_rt_noteOn(d, (OPN2_UInt8)ch, (OPN2_UInt8)key, (OPN2_UInt8)vel)); held.push_back(std::make_pair(ch, key)); }
            else if(k == 2) { int ch = r.range(0, 3), cc = r.pick((const int[]){1, 7, 10, 11, 64}), v = r.range(0, 127); ALL("opn2_rt_controllerChange", opn2_rt_controllerChange(d, (OPN2_UInt8)ch, (OPN2_UInt8)cc, (OPN2_UInt8)v)); }
            else if(k == 3) { int ch = r.range(0, 3), pb = r.range(0, 16383); ALL("opn2_rt_pitchBend", opn2_rt_pitchBend(d, (OPN2_UInt8)ch, (OPN2_UInt16)pb)); }
            else { int ch = r.range(0, 3), pg = r.range(0, 127); ALL("opn2_rt_patchChange", opn2_rt_patchChange(d, (OPN2_UInt8)ch, (OPN2_UInt8)pg)); }
        }

        // -- request size
        int want;
        if(cfg.mode == 1 && r.chance(0.5)) want = r.pick((const int[]){1024, 1026, 2047, 4096, 1025});
        else want = r.chance(0.35) ? r.range(2, 600) : r.pick(k_sizes);     // arbitrary small sizes: the period arithmetic carries a fractional frame from call to call
        const bool adv_step = adv_k1 && step < 2;
        if(adv_step) want = 2 * (step == 0 ? adv_k1 : adv_k2);
        if(want == 70000 && !r.chance(0.25)) want = 4096;     // 70000 stays rare (and, through the frame budget, on cheap configurations)
        if(slow && want > 100) want = r.chance(0.15) ? r.pick((const int[]){1023, 1024, 1025, 1026}) : r.pick((const int[]){2, 3, 4, 5, 100});
        const int even = want > 0 ? want - (want % 2) : 0;
        if(even / 2 > frame_budget && even > 100) { if(cfg.mode == 1 || step >= 4) break; want = 100; }
        const int even2 = want > 0 ? want - (want % 2) : 0;
        frame_budget -= std::max(even2 / 2, 64);

        // -- format and API under test
        Fmt f = pick_format(r);
        int api;      // 0 generateFormat, 1 generate (short*), 2 playFormat, 3 play (short*)
        if(cfg.mode == 0) api = (r.chance(0.15) || adv_step) ? 1 : 0; else api = r.chance(0.15) ? 3 : 2;
        if(api == 1 || api == 3) { f.type = OPNMIDI_SampleType_S16; f.container = 2; f.offset = 4; f.offclass = 1; f.planar = false; }
        const bool is_play = api >= 2;
        const bool supported = pair_supported(f.type, f.container);
        static const char *api_names[] = {"opn2_generateFormat", "opn2_generate", "opn2_playFormat", "opn2_play"};
        std::string ctx = vfmt("%s(%d) type=%s(%d) container=%u offset=%u %s %s emu=%d chips=%d rate=%ld %s step=%d", api_names[api], want, type_name(f.type).c_str(), f.type,
                               f.container, f.offset, f.planar ? "planar" : "interleaved", f.exact ? "exact-block" : "canary-block", cfg.emu, cfg.chips, cfg.rate,
                               cfg.loud ? "loud" : "quiet", step);

        // -- the twins
        std::vector<double> ref[2]; int rret[2] = {0, 0};
        OPNMIDI_AudioFormat f64; f64.type = OPNMIDI_SampleType_F64; f64.containerSize = 8; f64.sampleOffset = 16;
        OPNMIDI_AudioFormat lf; lf.type = (OPNMIDI_SampleType)f.type; lf.containerSize = f.container; lf.sampleOffset = f.offset;
        for(int q = 0; q < 2; q++)
        {
            if(supported)
            {
                ref[q].assign((size_t)even2 + 2, -12345.0);
                OPN2_UInt8 *lp = (OPN2_UInt8 *)ref[q].data(), *rp = lp + 8;
                if(is_play) API("opn2_playFormat", rret[q] = opn2_playFormat(dev[q], want, lp, rp, &f64));
                else API("opn2_generateFormat", rret[q] = opn2_generateFormat(dev[q], want, lp, rp, &f64));
            }
            else
            {   // identical history: the twins issue the same refused call (and are held to the same "returns 0, writes nothing")
                CallBuffers tb; Fmt tf = f; tf.exact = false; tb.make(tf, (size_t)even2 / 2, r.next());
                if(is_play) API("opn2_playFormat", rret[q] = opn2_playFormat(dev[q], want, tb.left, tb.right, &lf));
                else API("opn2_generateFormat", rret[q] = opn2_generateFormat(dev[q], want, tb.left, tb.right, &lf));
                bool dummy = false;
                if(rret[q] != 0) c.violation("oracle:C13:unsupported-not-refused:" + type_name(f.type) + vfmt(":c%u", f.container), ctx + vfmt(" returned %d", rret[q]));
                verify_buffers(c, tb, tf, 0, NULL, ctx + " [unsupported]", st, dummy);
                tb.release();
            }
        }
        // -- the instance under test
        CallBuffers cb; cb.make(f, (size_t)even2 / 2, r.next());
        int ret = 0;
        switch(api)
        {
        case 0: API("opn2_generateFormat", ret = opn2_generateFormat(dev[2], want, cb.left, cb.right, &lf)); break;
        case 1: API("opn2_generate", ret = opn2_generate(dev[2], want, (short *)cb.left)); break;
        case 2: API("opn2_playFormat", ret = opn2_playFormat(dev[2], want, cb.left, cb.right, &lf)); break;
        default: API("opn2_play", ret = opn2_play(dev[2], want, (short *)cb.left)); break;
        }
        n_calls++;
        int at_end = 0;
        if(is_play) API("opn2_atEnd", at_end = opn2_atEnd(dev[2]));

        // -- precondition: the two F64 twins agree
        if(supported)
        {
            // (a count above the request is not a disagreement of the twins: it is judged as a return value below)
            bool same = rret[0] == rret[1] && rret[0] >= 0 &&
                        (rret[0] == 0 || memcmp(ref[0].data(), ref[1].data(), (size_t)std::min(rret[0], even2) * sizeof(double)) == 0);
            count("twin_pairs_compared");
            if(!same)
            {
                // identically driven instances differ (count or samples): C14's subject; no reference signal -> not judged
                count("twin_disagree"); c.inconclusive = true; twin_broken = true; cb.release(); break;
            }
        }

        // -- (1) return value
        bool ret_ok = true;
        if(!supported)
        {
            n_unsupported++;
            if(ret != 0) { c.violation("oracle:C13:unsupported-not-refused:" + type_name(f.type) + vfmt(":c%u", f.container), ctx + vfmt(" returned %d", ret)); ret_ok = false; }
        }
        else if(!is_play)
        {
            if(ret != even2) { c.violation(std::string("oracle:C13:return:") + api_names[api], ctx + vfmt(" returned %d, expected %d", ret, even2)); ret_ok = false; }
            else if(rret[0] != even2) { c.violation("oracle:C13:return:opn2_generateFormat", ctx + vfmt(" [F64 twin: type=F64 container=8 offset=16] returned %d, expected %d", rret[0], even2)); ret_ok = false; }
        }
        else
        {
            if(ret < 0 || ret > even2) { c.violation(std::string("oracle:C13:return:more-than-requested:") + api_names[api], ctx + vfmt(" returned %d, request rounds to %d", ret, even2)); ret_ok = false; }
            else if((ret & 1) != 0) { c.violation(std::string("oracle:C13:return:odd-count:") + api_names[api], ctx + vfmt(" returned %d", ret)); ret_ok = false; }
            else if(ret == 0 && even2 > 0)
            {
                if(cfg.mode == 2)
                {   // no music loaded: statement silent -> adopt what the library does and stay consistent
                    int cls = at_end ? 1 : 0;
                    if(g_nofile_class < 0) g_nofile_class = cls;
                    else if(g_nofile_class != cls) c.violation("oracle:C13:nofile-play-inconsistent", ctx + vfmt(" returned 0 with atEnd=%d, earlier atEnd=%d", at_end, g_nofile_class));
                    cover(vfmt("nofile-zero|atEnd%d", at_end));
                }
                else if(!at_end) { c.violation(std::string("oracle:C13:return:zero-before-end:") + api_names[api], ctx + " returned 0 while opn2_atEnd() == 0"); ret_ok = false; }
                ended = true;
            }
            if(ret_ok && supported && ret != rret[0])
            { c.violation("oracle:C13:return:differs-between-formats", ctx + vfmt(" returned %d, the F64 twin with the same history %d", ret, rret[0])); ret_ok = false; }
        }

        // -- (2) + (3)
        if(ret_ok)
        {
            if(!supported) { bool dummy = false; verify_buffers(c, cb, f, 0, NULL, ctx, st, dummy); }
            else
            {
                std::vector<int64_t> xs((size_t)ret);
                bool integral = true;
                for(size_t i = 0; i < (size_t)ret; i++)
                {
                    double v = ref[0][i] * 32767.0; double rv = nearbyint(v);
                    if(!(fabs(v - rv) <= 1e-6 * std::max(1.0, fabs(rv))) || fabs(rv) > 4e9)
                    {
                        c.violation("oracle:C13:conversion:F64:c8", ctx + vfmt(" twin sample %zu = %.17g is not an integer mix value / 32767 (x would be %.9f)", i, ref[0][i], v));
                        integral = false; break;
                    }
                    xs[i] = (int64_t)rv;
                }
                if(integral)
                {
                    bool b16 = false;
                    verify_buffers(c, cb, f, (size_t)ret / 2, &xs, ctx, st, b16);
                    if(!b16) for(size_t i = 0; i < xs.size(); i++) if(xs[i] > 32767 || xs[i] < -32768) { b16 = true; break; }
                    long long nb = 0; for(size_t i = 0; i < xs.size(); i += 2) if(xs[i] > 32767 || xs[i] < -32768 || xs[i + 1] > 32767 || xs[i + 1] < -32768) nb++;
                    count("frames_beyond_int16", nb);
                    if(b16) beyond16 = true;
                    // ref tail guard: the twin must not have written beyond its count either
                    for(size_t i = (size_t)rret[0]; i < ref[0].size(); i++) if(ref[0][i] != -12345.0) { c.violation("oracle:C13:foreign-byte-changed:beyond-reported-count", ctx + " [F64 twin] sample beyond the returned count was written"); break; }
                    bool silent = true; for(size_t i = 0; i < xs.size(); i++) if(xs[i] != 0) { silent = false; break; }
                    if(!silent) count("nonsilent_calls_verified");
                }
            }
        }
        cb.release();

        // -- coverage
        {
            const char *szc = want < 0 ? "neg" : NULL;
            std::string sz = szc ? szc : vfmt("%d", want);
            std::string layout = f.planar ? "planar" : "inter";
            cover(vfmt("full|%s|c%u|o%d|%s|%s|e%d|%s|a%d|%s", type_name(f.type).c_str(), f.container, f.offclass, layout.c_str(), sz.c_str(), cfg.emu, cfg.loud ? "loud" : "quiet", api, f.exact ? "x" : "g"));
            cover(vfmt("fmt|%d|c%u|o%d|%s|%s|%s", f.type < 0 || f.type > 9 ? 99 : f.type, f.container, f.offclass, layout.c_str(), f.exact ? "x" : "g", sz.c_str()));
            cover(vfmt("drv|%s|e%d|n%d|%s|a%d|r%ld|p%d", sz.c_str(), cfg.emu, cfg.chips, cfg.loud ? "loud" : "quiet", api, cfg.rate, cfg.pcmrate ? 1 : 0));
            if(supported && is_play) cover(vfmt("playret|%s|%s", ret == 0 ? "zero" : (ret < even2 ? "short" : "full"), at_end ? "end" : "mid"));
            if(step < 6) sig += vfmt("%s/c%u/o%d/%c/%d;", type_name(f.type).c_str(), f.container, f.offclass, f.planar ? 'p' : 'i', want);
        }
        if(ended && ++calls_after_end >= 3) break;
    }
    #undef ALL
    for(int q = 0; q < 3; q++) API("opn2_close", opn2_close(dev[q]));

    count("audio_calls_checked", n_calls);
    count("unsupported_calls_checked", n_unsupported);
    count("canary_bytes_checked", st.canary_bytes);
    count("owned_bytes_verified", st.owned_bytes);
    count("slots_compared", st.slots_cmp);
    count("slots_aliased_by_caller_layout", st.slots_aliased);
    if(beyond16) count("cases_beyond_int16");
    if(cfg.mode == 1) { count("file_cases"); if(ended) count("songs_played_to_end"); }
    c.sig = vfmt("e%d n%d %s m%d ", cfg.emu, cfg.chips, cfg.loud ? "L" : "q", cfg.mode) + sig;
    c.nontrivial = !twin_broken && st.slots_cmp > 0;
    c.sample(std::string("{\"emulator\":") + vfmt("%d", cfg.emu) + ",\"chips\":" + vfmt("%d", cfg.chips) + ",\"rate\":" + vfmt("%ld", cfg.rate) + ",\"material\":" + jstr(cfg.loud ? "loud" : "quiet") +
             ",\"mode\":" + jstr(cfg.mode == 0 ? "realtime" : cfg.mode == 1 ? "file" : "play-without-music") + ",\"audio_calls\":" + vfmt("%lld", n_calls) +
             ",\"slots_compared\":" + vfmt("%lld", st.slots_cmp) + ",\"beyond_int16\":" + (beyond16 ? "true" : "false") + ",\"calls\":" + jstr(sig) + "}");
}
