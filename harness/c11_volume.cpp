// C11 — loudness controls are monotone and stay within the chip's level range.
//
// Monitor: hook H1 (register tap), decoder for the total-level registers 0x40..0x4F written from the YM2612 manual:
// TL of register slot s (0..3) of chip channel c lives at 0x40 + 4*s + c%3 on port c/3; the register slots are, in
// address order, operator 1, 3, 2, 4 (the manual's slot order S1, S3, S2, S4). Which operators are carriers (their
// output reaches the accumulator) follows from the manual's algorithm diagrams:
//   alg 0..3: operator 4;  alg 4: operators 2 and 4;  alg 5, 6: operators 2, 3, 4;  alg 7: all four.
// The oracle is purely relational (range, monotone, zero, untouched): no level table of the implementation is used.
//
// Stages:
//   cube    one (volume model, algorithm, a few adjacent velocities): for every master volume in {0,1,64,127} the whole
//           CC7 x CC11 plane is swept while one note is held; monotone in CC11, CC7, master and velocity; zero; range;
//           modulators untouched (scaling off, brightness 127).
//   config  one (algorithm, modulator scaling, full-range brightness, model, melodic|percussion channel): sampled
//           (velocity, CC7, CC11, master, brightness) points; from each point a full line along every axis incl. CC74.
#include "vlib.hpp"
#include "vsmf.hpp"

static const char *harness_name() { return "c11_volume"; }
static void harness_init() {}

static const char *MODEL_NAME[6] = {"auto", "Generic", "NativeOPN2", "DMX", "Apogee", "Win9x"};
static const int MASTERS[4] = {0, 1, 64, 127};

// carrier operators per algorithm, from the manual's diagrams (operator numbers 1..4)
static bool is_carrier_op(int alg, int opnum)
{
    switch(alg & 7)
    {
    case 0: case 1: case 2: case 3: return opnum == 4;
    case 4: return opnum == 2 || opnum == 4;
    case 5: case 6: return opnum >= 2;
    default: return true;
    }
}
// register slot (0x40 + 4*slot) -> operator number
static int slot_op(int slot) { static const int m[4] = {1, 3, 2, 4}; return m[slot & 3]; }
static bool is_carrier_slot(int alg, int slot) { return is_carrier_op(alg, slot_op(slot)); }

struct Rig
{
    OPN2_MIDIPlayer *dev;
    Tap tap;
    Rig(): dev(NULL) {}
    ~Rig() { if(dev) { Tap::detach(dev); API("opn2_close", opn2_close(dev)); dev = NULL; } }
    bool open(Case &c, int emu)
    {
        API("opn2_init", dev = opn2_init(44100));
        if(!dev) { c.violation("oracle:C11:init-failed", "opn2_init returned NULL"); return false; }
        tap.keep_log = true;
        tap.attach(dev);
        int rc = 0;
        API("opn2_setNumChips", rc = opn2_setNumChips(dev, 1));
        if(rc != 0) { c.inconclusive = true; return false; }
        API("opn2_switchEmulator", rc = opn2_switchEmulator(dev, emu));
        if(rc != 0) { c.inconclusive = true; return false; }
        tap.log.clear();
        return true;
    }
};

static bool put_ins(Case &c, Rig &r, bool perc, unsigned idx, int alg, int fb, const uint8_t tl[4])
{
    OPN2_Instrument in; memset(&in, 0, sizeof(in));
    in.version = 0; in.note_offset = 0; in.midi_velocity_offset = 0; in.percussion_key_number = 0; in.inst_flags = 0;
    in.fbalg = (uint8_t)(((fb & 7) << 3) | (alg & 7)); in.lfosens = 0;
    for(int s = 0; s < 4; s++)
    {
        in.operators[s].dtfm_30 = (uint8_t)(0x01 + s);
        in.operators[s].level_40 = tl[s];            // operators[] is in register-slot order (setPatch writes [s] to 0x40 + 4*s)
        in.operators[s].rsatk_50 = 0x1F; in.operators[s].amdecay1_60 = 0x04; in.operators[s].decay2_70 = 0x02; in.operators[s].susrel_80 = 0x2F; in.operators[s].ssgeg_90 = 0;
    }
    in.delay_on_ms = 5000; in.delay_off_ms = 100;
    OPN2_BankId id; id.percussive = perc ? 1 : 0; id.msb = 0; id.lsb = 0;
    OPN2_Bank bk; memset(&bk, 0, sizeof(bk));
    int rc = -1;
    API("opn2_getBank", rc = opn2_getBank(r.dev, &id, OPNMIDI_Bank_Create, &bk));
    if(rc != 0) { c.violation("oracle:C11:bank-create-failed", "opn2_getBank(Create) failed"); return false; }
    API("opn2_setInstrument", rc = opn2_setInstrument(r.dev, &bk, idx, &in));
    if(rc != 0) { c.violation("oracle:C11:set-instrument-failed", "opn2_setInstrument failed"); return false; }
    return true;
}

// state of the controls as the harness set them, and the note under observation
struct Ctl
{
    int model, alg, scaling, fullrange;
    int ch, key, cch;         // MIDI channel, key, chip channel of the held note
    int vel, cc7, cc11, master, bright;
    uint8_t own[4];           // instrument's own TL bytes, register-slot order
    uint8_t tl[4];            // TL in force after the last call
    long long writes;
    int reported;
};

// scan what the last call wrote: range clause on every write; afterwards the four TL in force are in k.tl
static void after_call(Case &c, Rig &r, Ctl &k, const char *what)
{
    for(size_t i = 0; i < r.tap.log.size(); i++)
    {
        const RegWrite &w = r.tap.log[i];
        if(w.port > 1 || w.reg < 0x40 || w.reg > 0x4F || (w.reg & 3) == 3) continue;
        k.writes++;
        int ci = (int)w.chip * 6 + (w.port ? 3 : 0) + (w.reg & 3);
        if(w.val > 127 && k.reported++ < 4)
            c.violation(vfmt("oracle:C11:tl-out-of-range:model-%s", MODEL_NAME[k.model]),
                        vfmt("%s wrote TL register %02x (chip channel %d slot %d) = %u > 127 [alg=%d vel=%d cc7=%d cc11=%d master=%d cc74=%d scaling=%d]",
                             what, w.reg, ci, (w.reg >> 2) & 3, w.val, k.alg, k.vel, k.cc7, k.cc11, k.master, k.bright, k.scaling));
    }
    r.tap.log.clear();
    if(k.cch >= 0) memcpy(k.tl, r.tap.ch[(size_t)k.cch].tl, 4);
}

// A second instance with ANOTHER volume model that holds the same note and receives, for about half of the calls, the same call just
// before the instance under test does (stage config). What the instance under test writes is its own business: all clauses unchanged.
static OPN2_MIDIPlayer *g_shadow = NULL;
static Rng *g_shadow_rng = NULL;
static bool shadow_now() { if(!g_shadow || !g_shadow_rng || !g_shadow_rng->chance(0.5)) return false; count("calls_mirrored_to_the_other_model_instance"); return true; }

static void do_cc(Case &c, Rig &r, Ctl &k, int ctl, int val)
{
    if(ctl == 7) k.cc7 = val; else if(ctl == 11) k.cc11 = val; else if(ctl == 74) k.bright = val;
    if(shadow_now()) API("opn2_rt_controllerChange", opn2_rt_controllerChange(g_shadow, (uint8_t)k.ch, (uint8_t)ctl, (uint8_t)val));
    API("opn2_rt_controllerChange", opn2_rt_controllerChange(r.dev, (uint8_t)k.ch, (uint8_t)ctl, (uint8_t)val));
    after_call(c, r, k, ctl == 7 ? "CC7" : ctl == 11 ? "CC11" : "CC74");
}
// LSB of the 14-bit master volume, fixed per case so that the MSB orders the values of one case; exact zero is sent as 00 00
static int g_master_lsb = 0;
static bool do_master(Case &c, Rig &r, Ctl &k, int val)
{
    uint8_t msg[8] = {0xF0, 0x7F, 0x7F, 0x04, 0x01, (uint8_t)(val == 0 ? 0 : g_master_lsb), (uint8_t)val, 0xF7};
    ExactBuf eb(msg, sizeof(msg));
    int rc = 0;
    k.master = val;
    if(shadow_now()) { ExactBuf e2(msg, sizeof(msg)); int r2 = 0; API("opn2_rt_systemExclusive", r2 = opn2_rt_systemExclusive(g_shadow, e2.p, e2.n)); (void)r2; }
    API("opn2_rt_systemExclusive", rc = opn2_rt_systemExclusive(r.dev, eb.p, eb.n));
    after_call(c, r, k, "master-volume SysEx");
    if(rc != 1) { c.violation("oracle:C11:master-volume-sysex-rejected", vfmt("F0 7F 7F 04 01 %02X %02X F7 returned %d", msg[5], val, rc)); return false; }
    return true;
}
static bool do_note(Case &c, Rig &r, Ctl &k, int vel)
{
    int rc = 0;
    k.vel = vel;
    // find the chip channel from the key-on inside the call
    std::vector<uint32_t> before(r.tap.ch.size());
    for(size_t i = 0; i < r.tap.ch.size(); i++) before[i] = r.tap.ch[i].n_keyon;
    if(shadow_now()) { int r2 = 0; API("opn2_rt_noteOn", r2 = opn2_rt_noteOn(g_shadow, (uint8_t)k.ch, (uint8_t)k.key, (uint8_t)vel)); (void)r2; }
    API("opn2_rt_noteOn", rc = opn2_rt_noteOn(r.dev, (uint8_t)k.ch, (uint8_t)k.key, (uint8_t)vel));
    int found = -1, n = 0;
    for(size_t i = 0; i < r.tap.ch.size(); i++) if(r.tap.ch[i].n_keyon != (i < before.size() ? before[i] : 0)) { found = (int)i; n++; }
    if(rc != 1 || n != 1) { r.tap.log.clear(); k.cch = -1; return false; }
    k.cch = found;
    after_call(c, r, k, "note-on");
    return true;
}

// clauses on the state in force (k.tl) after a call
static void judge_state(Case &c, Ctl &k, const char *what)
{
    for(int s = 0; s < 4; s++)
    {
        bool car = is_carrier_slot(k.alg, s);
        if(car)
        {
            if((k.cc7 == 0 || k.cc11 == 0 || k.master == 0) && k.tl[s] != 127 && k.reported++ < 4)
                c.violation(vfmt("oracle:C11:zero-control-does-not-silence-carrier:%s:model-%s", k.master == 0 ? "master" : k.cc7 == 0 ? "volume" : "expression", MODEL_NAME[k.model]),
                            vfmt("after %s: carrier slot %d (operator %d, alg %d) TL=%u, expected 127 [vel=%d cc7=%d cc11=%d master=%d cc74=%d scaling=%d own TL=%u]",
                                 what, s, slot_op(s), k.alg, k.tl[s], k.vel, k.cc7, k.cc11, k.master, k.bright, k.scaling, k.own[s]));
        }
        else if(!k.scaling && k.bright == 127)
        {
            if(k.tl[s] != (k.own[s] & 0x7F) && k.reported++ < 4)
                c.violation(vfmt("oracle:C11:modulator-touched-without-scaling-or-brightness:model-%s", MODEL_NAME[k.model]),
                            vfmt("after %s: modulator slot %d (operator %d, alg %d) TL=%u, instrument's own TL=%u [vel=%d cc7=%d cc11=%d master=%d cc74=127 scaling=0 fullrange=%d]",
                                 what, s, slot_op(s), k.alg, k.tl[s], k.own[s] & 0x7F, k.vel, k.cc7, k.cc11, k.master, k.fullrange));
        }
    }
    count("states_judged");
}

static const char *bright_class(int b) { return b == 127 ? "127" : b >= 64 ? "64-126" : b >= 1 ? "1-63" : "0"; }

static std::vector<int> axis_values(bool with_zero)
{
    std::vector<int> v;
    if(g_w.tier == "thorough" || g_w.optnum("full", 0)) { for(int i = with_zero ? 0 : 1; i < 128; i++) v.push_back(i); return v; }
    std::set<int> s;
    for(int i = 0; i < 128; i += 4) s.insert(i);
    static const int bnd[] = {0, 1, 2, 63, 64, 65, 126, 127};
    for(size_t i = 0; i < 8; i++) s.insert(bnd[i]);
    if(!with_zero) s.erase(0);
    v.assign(s.begin(), s.end());
    return v;
}

static void gen_tl(Rng &rng, int alg, uint8_t tl[4])
{
    // carriers: one fully loud (TL 0) so the whole level range is used, the others anything; modulators anything
    bool have_zero = false;
    for(int s = 0; s < 4; s++)
    {
        tl[s] = (uint8_t)rng.below(128);
        if(rng.chance(0.15)) tl[s] = rng.chance(0.5) ? 0 : 127;
        if(is_carrier_slot(alg, s) && !have_zero && (s == 3)) { tl[s] = (uint8_t)(rng.chance(0.6) ? 0 : rng.below(40)); have_zero = true; }
    }
}

// ------------------------------------------------------------------------------------------------------------
// stage: cube
// ------------------------------------------------------------------------------------------------------------
static void stage_cube(Case &c)
{
    Rng &rng = c.rng;
    std::vector<int> A = axis_values(true), V = axis_values(false);
    const int VB = 4;                                                  // velocities owned by one case
    int nvb = (int)((V.size() + VB - 1) / VB);
    // every (model, velocity block) is visited `reps` times, each time with another algorithm and another random instrument
    long reps = g_w.optnum("reps", 1), per = 5L * nvb, total = per * reps;
    if(c.k >= total) { c.skip = true; return; }
    long rep = c.k / per, kk = c.k % per;
    // spread: consecutive case indices walk through models first
    int model = 1 + (int)(kk % 5);
    int vb = (int)((kk / 5) * 7 % nvb);      // 7 is coprime to nvb for 32 and 10
    if(nvb % 7 == 0) vb = (int)((kk / 5) % nvb);
    int alg = (int)((vb + 3 * model + 5 * rep + (long)(g_w.seed % 8)) % 8);
    Rig r;
    if(!r.open(c, rng.chance(0.5) ? 0 : 2)) return;
    Ctl k; memset(&k, 0, sizeof(k));
    k.model = model; k.alg = alg; k.scaling = 0; k.fullrange = (int)rng.below(2);
    k.ch = (int)rng.below(9); k.key = rng.range(24, 96); k.cch = -1; k.cc7 = 100; k.cc11 = 127; k.master = 127; k.bright = 127;
    g_master_lsb = rng.chance(0.4) ? 0 : (int)rng.pick((const int[]){0x40, 0x7F, 0x3F, 0x01, 0x55});
    gen_tl(rng, alg, k.own);
    int program = (int)rng.below(128);
    if(!put_ins(c, r, false, (unsigned)program, alg, (int)rng.below(8), k.own)) return;
    API("opn2_setVolumeRangeModel", opn2_setVolumeRangeModel(r.dev, model));
    int got = 0; API("opn2_getVolumeRangeModel", got = opn2_getVolumeRangeModel(r.dev));
    if(got != model) { c.violation("oracle:C11:volume-model-not-selected", vfmt("set %d, getter says %d", model, got)); return; }
    API("opn2_setScaleModulators", opn2_setScaleModulators(r.dev, 0));
    API("opn2_setFullRangeBrightness", opn2_setFullRangeBrightness(r.dev, k.fullrange));
    API("opn2_rt_patchChange", opn2_rt_patchChange(r.dev, (uint8_t)k.ch, (uint8_t)program));
    // the soft pedal is one more fixed input of the case: with it down the same monotonicity must hold
    if(rng.chance(0.3)) { API("opn2_rt_controllerChange", opn2_rt_controllerChange(r.dev, (uint8_t)k.ch, 67, 127)); count("cases_with_soft_pedal"); }
    r.tap.log.clear();

    const size_t NA = A.size();
    // T[master index][a][b][slot]
    std::vector<uint8_t> cur(4 * NA * NA * 4), prev;
    bool have_prev = false;
    int prev_vel = 0;
    int first = vb * VB - 1;              // one neighbour below the owned range, so velocity steps across case borders are compared too
    long long cells = 0;
    int mono_reported = 0;
    for(int vi = std::max(first, 0); vi < (int)V.size() && vi < vb * VB + VB && g_w.violations_in_case < 10; vi++)
    {
        int vel = V[(size_t)vi];
        if(!do_note(c, r, k, vel)) { c.inconclusive = true; count("noteon_without_keyon"); return; }
        judge_state(c, k, "note-on");
        for(int mi = 0; mi < 4; mi++)
        {
            if(!do_master(c, r, k, MASTERS[mi])) return;
            judge_state(c, k, "master volume");
            for(size_t ai = 0; ai < NA; ai++)
            {
                do_cc(c, r, k, 7, A[ai]);
                judge_state(c, k, "CC7");
                for(size_t bi = 0; bi < NA; bi++)
                {
                    do_cc(c, r, k, 11, A[bi]);
                    judge_state(c, k, "CC11");
                    uint8_t *t = &cur[((((size_t)mi * NA + ai) * NA) + bi) * 4];
                    memcpy(t, k.tl, 4);
                    cells++;
                    for(int s = 0; s < 4; s++)
                    {
                        if(!is_carrier_slot(alg, s)) continue;
                        const char *axis = NULL; int from = 0, to = 0; unsigned was = 0;
                        if(bi > 0 && t[s] > t[s - 4]) { axis = "expression"; from = A[bi - 1]; to = A[bi]; was = t[s - 4]; }
                        else if(ai > 0 && t[s] > *(t + s - 4 * (long)NA)) { axis = "volume"; from = A[ai - 1]; to = A[ai]; was = *(t + s - 4 * (long)NA); }
                        else if(mi > 0 && t[s] > *(t + s - 4 * (long)(NA * NA))) { axis = "master"; from = MASTERS[mi - 1]; to = MASTERS[mi]; was = *(t + s - 4 * (long)(NA * NA)); }
                        else if(have_prev && t[s] > prev[(size_t)(t - &cur[0]) + (size_t)s]) { axis = "velocity"; from = prev_vel; to = vel; was = prev[(size_t)(t - &cur[0]) + (size_t)s]; }
                        if(axis && mono_reported++ < 6)
                            c.violation(vfmt("oracle:C11:carrier-tl-not-monotone:%s:model-%s", axis, MODEL_NAME[model]),
                                        vfmt("carrier slot %d (operator %d, alg %d, own TL %u): raising %s %d -> %d raises TL %u -> %u [vel=%d cc7=%d cc11=%d master=%d]",
                                             s, slot_op(s), alg, k.own[s], axis, from, to, was, t[s], vel, A[ai], A[bi], MASTERS[mi]));
                    }
                }
            }
            cover(vfmt("m%d|mv%d|alg%d|s0|br127", model, MASTERS[mi], alg));
            if(vi >= vb * VB) cover(vfmt("slab|m%d|mv%d|v%d", model, MASTERS[mi], vel));
        }
        prev.swap(cur); cur.resize(prev.size()); have_prev = true; prev_vel = vel;
        API("opn2_rt_noteOff", opn2_rt_noteOff(r.dev, (uint8_t)k.ch, (uint8_t)k.key));
        r.tap.log.clear();
    }
    count("tl_writes_decoded", k.writes);
    count("cube_cells_visited", cells);
    c.nontrivial = cells > 0;
    c.sig = vfmt("cube|m%d|alg%d|vb%d", model, alg, vb);
    c.sample(vfmt("{\"stage\":\"cube\",\"model\":\"%s\",\"algorithm\":%d,\"own_tl\":[%u,%u,%u,%u],\"velocities\":[%d,%d],\"axis_points\":%zu,\"cells\":%lld,\"tl_writes\":%lld}",
                   MODEL_NAME[model], alg, k.own[0], k.own[1], k.own[2], k.own[3], V[(size_t)std::max(first, 0)], V[(size_t)std::min<int>(vb * VB + VB - 1, (int)V.size() - 1)], NA, cells, k.writes));
}

// ------------------------------------------------------------------------------------------------------------
// stage: config
// ------------------------------------------------------------------------------------------------------------
struct Line { std::vector<int> x; std::vector<uint8_t> tl; };   // tl[4*i + slot]

static void check_line(Case &c, Ctl &k, const Line &L, const char *axis, int &reported)
{
    // carriers: TL non-increasing as the control rises
    for(size_t i = 1; i < L.x.size(); i++)
        for(int s = 0; s < 4; s++)
        {
            if(!is_carrier_slot(k.alg, s)) continue;
            if(L.tl[4 * i + s] > L.tl[4 * (i - 1) + s] && reported++ < 6)
                c.violation(vfmt("oracle:C11:carrier-tl-not-monotone:%s:model-%s", axis, MODEL_NAME[k.model]),
                            vfmt("carrier slot %d (operator %d, alg %d, own TL %u): raising %s %d -> %d raises TL %u -> %u [vel=%d cc7=%d cc11=%d master=%d cc74=%d scaling=%d fullrange=%d midi-ch=%d]",
                                 s, slot_op(s), k.alg, k.own[s], axis, L.x[i - 1], L.x[i], L.tl[4 * (i - 1) + s], L.tl[4 * i + s], k.vel, k.cc7, k.cc11, k.master, k.bright, k.scaling, k.fullrange, k.ch));
        }
    count("lines_checked");
}

static void stage_config(Case &c)
{
    Rng &rng = c.rng;
    enum { N = 8 * 2 * 2 * 5 * 2 };
    if(c.k >= N * g_w.optnum("reps", 1)) { c.skip = true; return; }      // later repetitions: same configuration, other instrument and points
    long idx = (long)(((unsigned long long)(c.k % N) * 73ull) % (unsigned long long)N);     // 73 coprime to 320
    int alg = (int)(idx % 8); idx /= 8;
    int model = 1 + (int)(idx % 5); idx /= 5;
    int scaling = (int)(idx % 2); idx /= 2;
    int fullrange = (int)(idx % 2); idx /= 2;
    int perc = (int)(idx % 2);
    Rig r;
    if(!r.open(c, rng.chance(0.5) ? 0 : 2)) return;
    Ctl k; memset(&k, 0, sizeof(k));
    k.model = model; k.alg = alg; k.scaling = scaling; k.fullrange = fullrange;
    k.ch = perc ? 9 : (int)rng.below(9); k.key = rng.range(24, 96); k.cch = -1; k.cc7 = 100; k.cc11 = 127; k.master = 127; k.bright = 127;
    g_master_lsb = rng.chance(0.4) ? 0 : (int)rng.pick((const int[]){0x40, 0x7F, 0x3F, 0x01, 0x55});
    gen_tl(rng, alg, k.own);
    int program = (int)rng.below(128);
    if(!put_ins(c, r, perc != 0, perc ? (unsigned)k.key : (unsigned)program, alg, (int)rng.below(8), k.own)) return;
    API("opn2_setVolumeRangeModel", opn2_setVolumeRangeModel(r.dev, model));
    API("opn2_setScaleModulators", opn2_setScaleModulators(r.dev, scaling));
    API("opn2_setFullRangeBrightness", opn2_setFullRangeBrightness(r.dev, fullrange));
    if(!perc) API("opn2_rt_patchChange", opn2_rt_patchChange(r.dev, (uint8_t)k.ch, (uint8_t)program));
    if(rng.chance(0.3)) { API("opn2_rt_controllerChange", opn2_rt_controllerChange(r.dev, (uint8_t)k.ch, 67, 127)); count("cases_with_soft_pedal"); }
    r.tap.log.clear();
    // the other-model instance (half of the cases) and, in the velocity lines, notes played under another model in between
    Rig sh; Rng shrng(rng.next(), 5, 0);
    struct ShadowOff { ~ShadowOff() { g_shadow = NULL; g_shadow_rng = NULL; } } shadow_off;
    const int model2 = 1 + (model - 1 + 1 + (int)rng.below(4)) % 5;
    const bool flips = rng.chance(0.5);
    if(rng.chance(0.5) && sh.open(c, 0))
    {
        sh.tap.keep_log = false; sh.tap.log.clear();
        if(put_ins(c, sh, perc != 0, perc ? (unsigned)k.key : (unsigned)program, alg, 0, k.own))
        {
            API("opn2_setVolumeRangeModel", opn2_setVolumeRangeModel(sh.dev, model2));
            if(!perc) API("opn2_rt_patchChange", opn2_rt_patchChange(sh.dev, (uint8_t)k.ch, (uint8_t)program));
            g_shadow = sh.dev; g_shadow_rng = &shrng; count("cases_with_an_instance_of_another_volume_model");
        }
    }
    std::vector<int> A = axis_values(true), V = axis_values(false);
    int npoints = (int)g_w.optnum("points", g_w.tier == "thorough" ? 40 : 8);
    int reported = 0;
    long lines = 0;
    bool mod_reacts_to_brightness = false, car_reacts_to_brightness = false;
    static const int bvals[] = {0, 1, 2, 31, 32, 63, 64, 65, 100, 126, 127};
    static const int cvals[] = {0, 1, 2, 63, 64, 100, 126, 127};
    for(int pt = 0; pt < npoints && g_w.violations_in_case < 10; pt++)
    {
        int v0 = rng.chance(0.3) ? (rng.chance(0.5) ? 127 : 1) : rng.range(1, 127);
        int a0 = rng.chance(0.4) ? rng.pick(cvals) : (int)rng.below(128);
        int b0 = rng.chance(0.4) ? rng.pick(cvals) : (int)rng.below(128);
        int m0 = rng.chance(0.5) ? 127 : rng.chance(0.5) ? rng.pick(cvals) : (int)rng.below(128);
        int br0 = pt == 0 ? 127 : rng.chance(0.6) ? rng.pick(bvals) : (int)rng.below(128);
        if(!do_master(c, r, k, m0)) return;
        do_cc(c, r, k, 7, a0); do_cc(c, r, k, 11, b0); do_cc(c, r, k, 74, br0);
        if(!do_note(c, r, k, v0)) { c.inconclusive = true; count("noteon_without_keyon"); return; }
        judge_state(c, k, "note-on");
        cover(vfmt("m%d|mv%s|alg%d|s%d|br%s|fr%d|%s", model, m0 == 127 ? "127" : m0 == 0 ? "0" : "mid", alg, scaling, bright_class(br0), fullrange, perc ? "perc" : "mel"));
        cover(vfmt("m%d|mv%d|alg%d|s%d|br%s", model, (m0 == 0 || m0 == 1 || m0 == 64 || m0 == 127) ? m0 : -1, alg, scaling, bright_class(br0)));
        // --- brightness line (falling from 127 to 0)
        {
            Line L;
            for(int b = 127; b >= 0; b--)
            {
                if(g_w.tier != "thorough" && !(b % 4 == 0 || b <= 2 || b >= 126 || (b >= 62 && b <= 66))) continue;
                do_cc(c, r, k, 74, b);
                judge_state(c, k, "CC74");
                L.x.push_back(b); L.tl.insert(L.tl.end(), k.tl, k.tl + 4);
            }
            for(size_t i = 1; i < L.x.size(); i++)
                for(int s = 0; s < 4; s++)
                {
                    bool car = is_carrier_slot(alg, s);
                    uint8_t was = L.tl[4 * (i - 1) + s], now = L.tl[4 * i + s];
                    if(now != was) { if(car) car_reacts_to_brightness = true; else mod_reacts_to_brightness = true; }
                    if(!car && now < was && reported++ < 6)     // "lower brightness never brightens": a modulator must not get louder as CC74 falls
                        c.violation(vfmt("oracle:C11:lower-brightness-brightens:model-%s", MODEL_NAME[model]),
                                    vfmt("modulator slot %d (operator %d, alg %d, own TL %u): CC74 %d -> %d lowers TL %u -> %u [vel=%d cc7=%d cc11=%d master=%d scaling=%d fullrange=%d midi-ch=%d]",
                                         s, slot_op(s), alg, k.own[s], L.x[i - 1], L.x[i], was, now, v0, a0, b0, m0, scaling, fullrange, k.ch));
                }
            lines++; count("lines_checked");
            do_cc(c, r, k, 74, br0);
        }
        // --- CC7, CC11, master lines
        for(int ax = 0; ax < 3; ax++)
        {
            Line L;
            const std::vector<int> &X = A;
            for(size_t i = 0; i < X.size(); i++)
            {
                if(ax == 0) do_cc(c, r, k, 7, X[i]); else if(ax == 1) do_cc(c, r, k, 11, X[i]); else if(!do_master(c, r, k, X[i])) return;
                judge_state(c, k, ax == 0 ? "CC7" : ax == 1 ? "CC11" : "master volume");
                L.x.push_back(X[i]); L.tl.insert(L.tl.end(), k.tl, k.tl + 4);
            }
            check_line(c, k, L, ax == 0 ? "volume" : ax == 1 ? "expression" : "master", reported);
            lines++;
            if(ax == 1 && rng.chance(0.5))
            {   // Reset All Controllers while the note is held with a lowered expression: the controls in force afterwards (read from the
                // channel) are at least what they are when the same values are sent explicitly next, and at most: the carriers' TL of the
                // two states have to agree (attenuation never increases when a control rises, in both directions)
                int low = rng.pick((const int[]){0, 1, 32, 64, 100});
                do_cc(c, r, k, 11, low);
                API("opn2_rt_controllerChange", opn2_rt_controllerChange(r.dev, (uint8_t)k.ch, 121, 0));
                { const OPNMIDIplay::MIDIchannel &mc = P(r.dev)->m_midiChannels[(size_t)k.ch]; k.cc7 = mc.volume; k.cc11 = mc.expression; k.bright = mc.brightness; }
                after_call(c, r, k, "CC121");
                judge_state(c, k, "CC121");
                uint8_t t121[4]; memcpy(t121, k.tl, 4);
                const int v1 = k.cc7, e1 = k.cc11;
                do_cc(c, r, k, 7, v1); do_cc(c, r, k, 11, e1);
                for(int sl = 0; sl < 4; sl++) if(is_carrier_slot(alg, sl) && t121[sl] != k.tl[sl] && reported++ < 6)
                    c.violation(vfmt("oracle:C11:carrier-tl-not-monotone:expression:after-cc121:model-%s", MODEL_NAME[model]),
                                vfmt("carrier slot %d (operator %d, alg %d): held note, CC11=%d, then CC121 leaves volume %d / expression %d in force with TL %u; sending CC7=%d CC11=%d explicitly gives TL %u [vel=%d master=%d scaling=%d midi-ch=%d]",
                                     sl, slot_op(sl), alg, low, v1, e1, t121[sl], v1, e1, k.tl[sl], k.vel, k.master, scaling, k.ch));
                count("reset_all_controllers_with_a_held_note");
                do_cc(c, r, k, 74, br0); do_cc(c, r, k, 7, a0);
            }
            if(ax == 0) do_cc(c, r, k, 7, a0); else if(ax == 1) do_cc(c, r, k, 11, b0); else if(!do_master(c, r, k, m0)) return;
        }
        // --- velocity line (each value is a new note-on of the same key)
        {
            Line L; bool ok = true;
            for(size_t i = 0; i < V.size(); i++)
            {
                if(flips && rng.chance(0.3))
                {   // the same note with the same values was just played under another volume model (host switching models between notes)
                    API("opn2_setVolumeRangeModel", opn2_setVolumeRangeModel(r.dev, model2));
                    int r2 = 0; API("opn2_rt_noteOn", r2 = opn2_rt_noteOn(r.dev, (uint8_t)k.ch, (uint8_t)k.key, (uint8_t)V[i])); (void)r2;
                    API("opn2_setVolumeRangeModel", opn2_setVolumeRangeModel(r.dev, model));
                    r.tap.log.clear(); count("notes_played_under_another_model_in_between");
                }
                if(!do_note(c, r, k, V[i])) { ok = false; break; }
                judge_state(c, k, "note-on");
                L.x.push_back(V[i]); L.tl.insert(L.tl.end(), k.tl, k.tl + 4);
            }
            if(!ok) { c.inconclusive = true; count("noteon_without_keyon"); return; }
            check_line(c, k, L, "velocity", reported);
            lines++;
        }
        API("opn2_rt_noteOff", opn2_rt_noteOff(r.dev, (uint8_t)k.ch, (uint8_t)k.key));
        if(perc) API("opn2_rt_controllerChange", opn2_rt_controllerChange(r.dev, (uint8_t)k.ch, 123, 0));   // drum notes outlive their note-off until audio time passes
        r.tap.log.clear();
    }
    // informational: what the statement leaves open
    cover(vfmt("brightness|%s|s%d|fr%d|modulators-%s|carriers-%s", perc ? "perc" : "mel", scaling, fullrange, mod_reacts_to_brightness ? "react" : "ignore", car_reacts_to_brightness ? "react" : "ignore"));
    count(perc ? (mod_reacts_to_brightness ? "percussion_cases_brightness_applied" : "percussion_cases_brightness_ignored")
               : (mod_reacts_to_brightness ? "melodic_cases_brightness_applied" : "melodic_cases_brightness_ignored"));
    count("tl_writes_decoded", k.writes);
    c.nontrivial = lines > 0;
    c.sig = vfmt("config|alg%d|m%d|s%d|fr%d|p%d", alg, model, scaling, fullrange, perc);
    c.sample(vfmt("{\"stage\":\"config\",\"model\":\"%s\",\"algorithm\":%d,\"scaling\":%d,\"full_range_brightness\":%d,\"channel\":%d,\"own_tl\":[%u,%u,%u,%u],\"points\":%d,\"lines\":%ld,\"tl_writes\":%lld}",
                   MODEL_NAME[model], alg, scaling, fullrange, k.ch, k.own[0], k.own[1], k.own[2], k.own[3], npoints, lines, k.writes));
}

// ------------------------------------------------------------------------------------------------------------
// stage arp: with auto-arpeggio on and more same-instrument notes than chip channels, notes of a MIDI channel whose volume
// (or expression) is zero share chip channels with audible notes of another MIDI channel. Whenever the arpeggio keys a chip
// channel on with the pitch of a silenced note, the carriers in force at that key-on must be fully attenuated.
// ------------------------------------------------------------------------------------------------------------
static void stage_arp(Case &c)
{
    Rng &rng = c.rng;
    Rig r;
    if(!r.open(c, rng.chance(0.5) ? 0 : 2)) return;
    int model = 1 + (int)rng.below(5), alg = (int)rng.below(8);
    uint8_t own[4]; gen_tl(rng, alg, own);
    if(!put_ins(c, r, false, 0, alg, (int)rng.below(8), own)) return;
    API("opn2_setVolumeRangeModel", opn2_setVolumeRangeModel(r.dev, model));
    API("opn2_setScaleModulators", opn2_setScaleModulators(r.dev, 0));
    API("opn2_setAutoArpeggio", opn2_setAutoArpeggio(r.dev, 1));
    const int chX = 0, chY = 1;
    bool by_expression = rng.chance(0.4);
    API("opn2_rt_patchChange", opn2_rt_patchChange(r.dev, chX, 0)); API("opn2_rt_patchChange", opn2_rt_patchChange(r.dev, chY, 0));
    API("opn2_rt_controllerChange", opn2_rt_controllerChange(r.dev, chX, by_expression ? 11 : 7, 0));
    API("opn2_rt_controllerChange", opn2_rt_controllerChange(r.dev, chY, 7, (uint8_t)rng.range(90, 127)));
    // audible notes first (keys 72..), then the silenced ones (keys 40..) within the 70 ms sharing window
    // one group fills the chip, the other joins within the 70 ms sharing window (either order); some notes leave again mid-turn
    const bool silenced_first = rng.chance(0.5);
    int nfirst = rng.range(5, 7), nsecond = rng.range(1, 4);
    int ny = silenced_first ? nsecond : nfirst, nx = silenced_first ? nfirst : nsecond;
    std::vector<short> pcm(2 * 1024);
    auto strike = [&](bool silenced, int i) { int rc = 0; API("opn2_rt_noteOn", rc = opn2_rt_noteOn(r.dev, silenced ? chX : chY, (uint8_t)(silenced ? 40 + i * 2 : 72 + i * 2), (uint8_t)rng.range(60, 127))); (void)rc; };
    for(int i = 0; i < nfirst; i++) strike(silenced_first, i);
    int gap = (int)rng.pick((const int[]){0, 0, 64, 200, 400});
    if(gap) API("opn2_generate", opn2_generate(r.dev, gap * 2, pcm.data()));
    r.tap.log.clear();
    for(int i = 0; i < nsecond; i++)
    {
        strike(!silenced_first, i);
        if(rng.chance(0.5)) { int n = (int)rng.pick((const int[]){32, 100, 300, 512}); API("opn2_generate", opn2_generate(r.dev, n * 2, pcm.data())); }
        if(rng.chance(0.2)) { bool sil = rng.chance(0.5); API("opn2_rt_noteOff", opn2_rt_noteOff(r.dev, sil ? chX : chY, (uint8_t)((sil ? 40 : 72) + 2 * rng.below(3)))); }
    }
    int periods = rng.range(10, 40), block = (int)rng.pick((const int[]){128, 512, 700, 1024});
    for(int p = 0; p < periods; p++) API("opn2_generate", opn2_generate(r.dev, block * 2, pcm.data()));
    // replay the register log: per chip channel TL of the four slots and the committed frequency; judge every key-on
    struct CS { uint8_t tl[4]; unsigned a4l, a4, a0; bool have; } cs[6];
    memset(cs, 0, sizeof(cs));
    long keyons = 0, silenced_keyons = 0; int reported = 0;
    for(size_t i = 0; i < r.tap.log.size(); i++)
    {
        const RegWrite &w = r.tap.log[i];
        if(w.port == 0xFF || w.chip != 0) continue;
        if(w.port == 0 && w.reg == 0x28)
        {
            static const int map[8] = {0, 1, 2, -1, 3, 4, 5, -1};
            int cc = map[w.val & 7];
            if(cc < 0 || !(w.val & 0xF0) || !cs[cc].have) continue;
            keyons++;
            unsigned block_ = (cs[cc].a4 >> 3) & 7, fnum = ((cs[cc].a4 & 7) << 8) | cs[cc].a0;
            double hz = (double)fnum * 7670454.0 / (144.0 * ldexp(1.0, 21 - (int)block_));
            double key = 69.0 + 12.0 * log2(hz / 440.0);
            if(key < 60.0)
            {   // one of the silenced notes (keys 40..49) is being keyed on
                silenced_keyons++;
                for(int sl = 0; sl < 4; sl++) if(is_carrier_slot(alg, sl) && cs[cc].tl[sl] != 127 && reported++ < 3)
                    c.violation(vfmt("oracle:C11:zero-control-does-not-silence-carrier:%s:arpeggio:model-%s", by_expression ? "expression" : "volume", MODEL_NAME[model]),
                                vfmt("chip channel %d keyed on with the pitch of key %.1f (MIDI channel %d, %s = 0) while carrier slot %d (operator %d, alg %d) has TL=%u, expected 127 [%d audible + %d silenced notes, arpeggio on, register write #%zu]",
                                     cc, key, chX, by_expression ? "CC11" : "CC7", sl, slot_op(sl), alg, cs[cc].tl[sl], ny, nx, i));
            }
            continue;
        }
        if(w.port > 1) continue;
        unsigned low = w.reg & 3; if(low == 3) continue;
        int ci = (w.port ? 3 : 0) + (int)low;
        if(w.reg >= 0x40 && w.reg < 0x50) cs[ci].tl[(w.reg >> 2) & 3] = (uint8_t)(w.val & 0x7F);
        else if(w.reg >= 0xA4 && w.reg < 0xA8) cs[ci].a4l = w.val;
        else if(w.reg >= 0xA0 && w.reg < 0xA4) { cs[ci].a4 = cs[ci].a4l; cs[ci].a0 = w.val; cs[ci].have = true; }
    }
    count("arp_keyons_decoded", keyons); count("arp_keyons_of_silenced_notes", silenced_keyons);
    c.nontrivial = silenced_keyons > 0;
    cover(vfmt("arp|model%d|alg%d|%s|x%d|%s", model, alg, by_expression ? "cc11" : "cc7", nx, silenced_first ? "silenced-first" : "audible-first"));
    c.sig = vfmt("arp|%d|%d", model, alg);
    c.sample(vfmt("{\"stage\":\"arp\",\"model\":\"%s\",\"alg\":%d,\"audible_notes\":%d,\"silenced_notes\":%d,\"keyons\":%ld,\"keyons_of_silenced_notes\":%ld}", MODEL_NAME[model], alg, ny, nx, keyons, silenced_keyons));
}

// ------------------------------------------------------------------------------------------------------------
// stage multidev: notes held on several MIDI devices of one song (tracks naming their device with FF 09), volume / expression
// changes per device and master-volume SysEx messages arriving through the sequencer: the clauses hold for every sounding note,
// whichever device it belongs to, and equal controls give equal levels on every device
// ------------------------------------------------------------------------------------------------------------
static std::vector<int> g_mv_seen;     // operation kinds handed over by the sequencer inside the current call
static void mv_hook(void *, OPN2_UInt8 type, OPN2_UInt8, OPN2_UInt8, const OPN2_UInt8 *data, size_t len)
{
    if(type == 0x9) g_mv_seen.push_back(0);
    else if(type == 0xB && len >= 1 && data[0] == 7) g_mv_seen.push_back(1);
    else if(type == 0xB && len >= 1 && data[0] == 11) g_mv_seen.push_back(2);
    else if(type == 0xF0 || type == 0xF7) g_mv_seen.push_back(3);
}
struct MvNote { int dev, ch, key, vel, cc7, cc11, cch; std::vector<int> st; std::vector<uint8_t> tl; };   // st: (cc7, cc11, master) per judged state
static void stage_multidev(Case &c)
{
    Rng &rng = c.rng;
    Rig r;
    if(!r.open(c, rng.chance(0.5) ? 0 : 2)) return;
    int rc = 0;
    API("opn2_setNumChips", rc = opn2_setNumChips(r.dev, 2));
    int model = 1 + (int)rng.below(5), alg = (int)rng.below(8);
    uint8_t own[4]; gen_tl(rng, alg, own);
    if(!put_ins(c, r, false, 0, alg, (int)rng.below(8), own)) return;
    API("opn2_setVolumeRangeModel", opn2_setVolumeRangeModel(r.dev, model));
    API("opn2_setScaleModulators", opn2_setScaleModulators(r.dev, 0));
    g_master_lsb = rng.chance(0.4) ? 0 : (int)rng.pick((const int[]){0x40, 0x7F, 0x3F, 0x01, 0x55});
    static const char *names[] = {"Port A", "Port B", "MPU-401", "x"};
    const int ndev = rng.range(2, 3);
    Song song; song.format = 1; song.division = 96; song.running_status = rng.chance(0.5);
    song.tracks.resize((size_t)ndev + 1);
    song.tracks[0].ev.push_back(mk_tempo(0, 500000));
    std::vector<MvNote> notes((size_t)ndev);
    struct Op { uint64_t tick; int kind, dev, a; };     // kind 0 note-on, 1 CC7, 2 CC11, 3 master volume
    std::vector<Op> ops;
    uint64_t tick = 0;
    int nb = (int)rng.below(4);
    const int vel = rng.range(1, 127);
    const bool same_channel = rng.chance(0.5);
    for(int d = 0; d < ndev; d++)
    {
        MvNote &n = notes[(size_t)d];
        n.dev = d; n.ch = same_channel ? 3 : (int)rng.below(9); n.key = 48 + d * 5; n.vel = vel; n.cc7 = 100; n.cc11 = 127; n.cch = -1;
        song.tracks[(size_t)d + 1].ev.push_back(mk_meta_text(0, 0x09, names[(nb + d) % 4]));
        song.tracks[(size_t)d + 1].ev.push_back(mk_chan(0, 0xC0 | n.ch, 0));
    }
    for(int d = 0; d < ndev; d++)
    {
        MvNote &n = notes[(size_t)d];
        if(rng.chance(0.7)) { n.cc7 = rng.range(0, 127); tick++; song.tracks[(size_t)d + 1].ev.push_back(mk_chan(tick, 0xB0 | n.ch, 7, n.cc7)); Op o = {tick, 1, d, n.cc7}; ops.push_back(o); }
        tick++; song.tracks[(size_t)d + 1].ev.push_back(mk_chan(tick, 0x90 | n.ch, n.key, n.vel)); Op o = {tick, 0, d, 0}; ops.push_back(o);
    }
    static const int vals[] = {0, 0, 1, 32, 64, 100, 127, 127};
    const int nops = rng.range(6, 20);
    for(int i = 0; i < nops; i++)
    {
        Op o; o.tick = (tick += (uint64_t)rng.range(1, 4)); o.dev = (int)rng.below((uint32_t)ndev); o.a = rng.chance(0.7) ? rng.pick(vals) : rng.range(0, 127);
        unsigned k = rng.below(10);
        o.kind = k < 5 ? 3 : k < 8 ? 1 : 2;
        const MvNote &n = notes[(size_t)o.dev];
        if(o.kind == 3)
        {
            SEv e; e.tick = o.tick; e.status = 0xF0;
            const uint8_t m[] = {0x7F, 0x7F, 0x04, 0x01, (uint8_t)(o.a == 0 ? 0 : g_master_lsb), (uint8_t)o.a, 0xF7};
            e.data.assign(m, m + sizeof(m));
            song.tracks[rng.chance(0.3) ? 0 : (size_t)o.dev + 1].ev.push_back(e);
        }
        else song.tracks[(size_t)o.dev + 1].ev.push_back(mk_chan(o.tick, 0xB0 | n.ch, o.kind == 1 ? 7 : 11, o.a));
        ops.push_back(o);
    }
    tick += 2;
    for(int t = 0; t <= ndev; t++) song.tracks[(size_t)t].ev.push_back(mk_meta(tick, 0x2F, std::vector<uint8_t>()));
    std::vector<uint8_t> file = serialize_song(song);
    { ExactBuf in(file); API("opn2_openData", rc = opn2_openData(r.dev, in.p, (unsigned long)in.n)); }
    if(rc != 0) { c.violation("oracle:C11:wellformed-file-rejected", vfmt("generated multi-device SMF (%zu bytes) rejected: %s", file.size(), opn2_errorInfo(r.dev))); return; }
    r.tap.log.clear();
    API("opn2_setRawEventHook", opn2_setRawEventHook(r.dev, mv_hook, NULL));
    Ctl k; memset(&k, 0, sizeof(k));
    k.model = model; k.alg = alg; k.scaling = 0; k.fullrange = 0; k.bright = 127; k.cch = -1; memcpy(k.own, own, 4);
    int master = -1;        // not known before the first master-volume message of the song
    size_t next = 0; double delay = 0; long guard = 0; bool lost = false; long judged = 0;
    while(guard++ < 2000 && next < ops.size() && !lost)
    {
        std::vector<uint32_t> before(r.tap.ch.size());
        for(size_t i = 0; i < r.tap.ch.size(); i++) before[i] = r.tap.ch[i].n_keyon;
        g_mv_seen.clear();
        double nd = 0; API("opn2_tickEvents", nd = opn2_tickEvents(r.dev, delay, 1e-6));
        delay = nd;
        k.master = master < 0 ? 127 : master; k.vel = vel; k.cc7 = k.cc11 = 127; k.ch = -1;
        after_call(c, r, k, "opn2_tickEvents");
        if(g_mv_seen.empty()) { int end = 0; API("opn2_atEnd", end = opn2_atEnd(r.dev)); if(end) break; continue; }
        if(g_mv_seen.size() > 1) { lost = true; break; }           // one operation per tick in the file: cannot attribute otherwise
        const Op &o = ops[next];
        if(g_mv_seen[0] != o.kind) { lost = true; break; }
        next++;
        MvNote &n = notes[(size_t)o.dev];
        if(o.kind == 0)
        {
            int found = -1, cnt = 0;
            for(size_t i = 0; i < r.tap.ch.size(); i++) if(r.tap.ch[i].n_keyon != (i < before.size() ? before[i] : 0)) { found = (int)i; cnt++; }
            if(cnt != 1) { lost = true; break; }
            n.cch = found;
        }
        else if(o.kind == 1) n.cc7 = o.a;
        else if(o.kind == 2) n.cc11 = o.a;
        else master = o.a;
        // judge every sounding note of every device after this operation
        for(size_t j = 0; j < notes.size(); j++)
        {
            MvNote &q = notes[j];
            if(q.cch < 0) continue;
            k.ch = q.ch; k.key = q.key; k.cch = q.cch; k.vel = q.vel; k.cc7 = q.cc7; k.cc11 = q.cc11; k.master = master < 0 ? 127 : master;
            memcpy(k.tl, r.tap.ch[(size_t)q.cch].tl, 4);
            judge_state(c, k, vfmt("%s on device %d of %d (song event), note of device %d", o.kind == 0 ? "note-on" : o.kind == 1 ? "CC7" : o.kind == 2 ? "CC11" : "master-volume SysEx", o.dev + 1, ndev, (int)j + 1).c_str());
            judged++;
            if(master >= 0) { q.st.push_back(q.cc7); q.st.push_back(q.cc11); q.st.push_back(master); q.tl.insert(q.tl.end(), k.tl, k.tl + 4); }
        }
        k.cch = -1;
    }
    if(lost || next != ops.size()) { c.inconclusive = true; count("multidev_events_not_attributable"); return; }
    // monotone in each control with the others fixed, within one note and across the devices (same instrument, same velocity)
    int reported = 0;
    for(size_t a = 0; a < notes.size(); a++) for(size_t b = 0; b < notes.size(); b++)
    {
        const MvNote &A = notes[a], &B = notes[b];
        for(size_t i = 0; i * 3 < A.st.size(); i++) for(size_t j = 0; j * 3 < B.st.size(); j++)
        {
            int le = 0, eq = 0;
            for(int x = 0; x < 3; x++) { if(A.st[i * 3 + (size_t)x] == B.st[j * 3 + (size_t)x]) eq++; else if(A.st[i * 3 + (size_t)x] < B.st[j * 3 + (size_t)x]) le++; }
            if(eq + le != 3) continue;        // A's controls <= B's controls, componentwise
            for(int sl = 0; sl < 4; sl++)
            {
                if(!is_carrier_slot(alg, sl)) continue;
                uint8_t ta = A.tl[i * 4 + (size_t)sl], tb = B.tl[j * 4 + (size_t)sl];
                if(tb > ta && reported++ < 4)
                    c.violation(vfmt("oracle:C11:carrier-tl-not-monotone:%s:model-%s", a == b ? "song-events" : "across-devices", MODEL_NAME[model]),
                                vfmt("carrier slot %d (operator %d, alg %d, own TL %u), velocity %d: note of device %zu with cc7=%d cc11=%d master=%d has TL %u, note of device %zu with cc7=%d cc11=%d master=%d has TL %u (%d devices)",
                                     sl, slot_op(sl), alg, own[sl], vel, a + 1, A.st[i * 3], A.st[i * 3 + 1], A.st[i * 3 + 2], ta, b + 1, B.st[j * 3], B.st[j * 3 + 1], B.st[j * 3 + 2], tb, ndev));
            }
            count("multidev_state_pairs_compared");
        }
    }
    count("multidev_states_judged", judged);
    c.nontrivial = judged >= 6;
    cover(vfmt("multidev|model%d|alg%d|dev%d|%s", model, alg, ndev, same_channel ? "same-channel-number" : "other-channels"));
    c.sig = vfmt("md|%d|%d", model, alg);
    c.sample(vfmt("{\"stage\":\"multidev\",\"model\":\"%s\",\"alg\":%d,\"devices\":%d,\"operations\":%zu,\"states_judged\":%ld,\"file_bytes\":%zu}", MODEL_NAME[model], alg, ndev, ops.size(), judged, file.size()));
}

static void run_case(Case &c)
{
    if(g_w.stage == "multidev") { stage_multidev(c); return; }
    if(g_w.stage == "arp") { stage_arp(c); return; }
    if(g_w.stage == "config") stage_config(c);
    else stage_cube(c);
}
