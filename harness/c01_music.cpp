// C01 — untrusted music data never crashes, corrupts memory or hangs the player.
// Stages: fuzz (generated/mutated/hostile files + follow-up calls), sweep (exhaustive truncation and
// single-byte substitution of small well-formed files of every format).
#include "vconv.hpp"
#include <functional>

static const char *harness_name() { return "c01_music"; }
static void harness_init() { default_bank(); }

// ---------------------------------------------------------------------------------------------
// input construction
// ---------------------------------------------------------------------------------------------
typedef std::vector<uint8_t> Bytes;

static Bytes seed_file(Rng &r, int fmt, std::string &fmtname)
{
    SongOpts o; o.max_tracks = 4; o.max_events = 25; o.big_deltas = true; o.loops = true;
    switch(fmt)
    {
    default:
    case 0: { fmtname = "smf"; Song s = gen_song(r, o); return serialize_song(s); }
    case 1: { fmtname = "rmi"; Song s = gen_song(r, o); Bytes t; if(r.chance(0.3)) put_str(t, "LIST\x04\0\0\0INFO"); return wrap_rmi(serialize_song(s), r.chance(0.5), t); }
    case 2: { fmtname = "gmf"; o.max_tracks = 1; Song s = gen_song(r, o); return make_gmf(s, 0); }
    case 3: { fmtname = "mus"; return gen_mus(r, 40).bytes; }
    case 4: { fmtname = "xmi"; return gen_xmi(r, 0, 25).bytes; }
    case 5:
    {   // CMF skeleton that passes the detector (OPNMIDI rejects CMF after parsing it)
        fmtname = "cmf";
        Bytes f; put_str(f, "CTMF"); put_le(f, 0x0101, 2);
        int nins = r.range(0, 3);
        size_t ins_start = 40, mus_start = ins_start + (size_t)nins * 16;
        put_le(f, ins_start, 2); put_le(f, mus_start, 2); put_le(f, 192, 2); put_le(f, 96, 2);
        put_le(f, 0, 2); put_le(f, 0, 2); put_le(f, 0, 2);           // title/author/remarks offsets
        for(int i = 0; i < 16; i++) f.push_back(1);                 // channels in use
        put_le(f, (uint64_t)nins, 2); put_le(f, 120, 2);
        while(f.size() < ins_start) f.push_back(0);
        for(int i = 0; i < nins * 16; i++) f.push_back(r.byte());
        SongOpts o1; o1.max_tracks = 1; o1.min_tracks = 1; o1.max_events = 15;
        Song s = gen_song(r, o1);
        put_bytes(f, serialize_track(s, s.tracks[0]));
        return f;
    }
    case 6:
    {   // IMF: detector sums; type 1 with length prefix
        fmtname = "imf";
        Bytes body; int n = r.range(1, 30);
        for(int i = 0; i < n; i++) { body.push_back((uint8_t)r.range(0x20, 0xF5)); body.push_back(r.byte()); put_le(body, (uint64_t)r.range(0, 3), 2); }
        Bytes f; put_le(f, body.size(), 2); put_bytes(f, body);
        while(f.size() < 16) f.push_back(0);
        return f;
    }
    case 8:
    {   // well-formed "loop storm": global and nested (stack) loop markers, also with infinite counts, around bodies that
        // take little or no song time (zero deltas, tempo 0..2 us per quarter note); the anti-freeze logic must bound every call
        fmtname = "loopstorm";
        int div = r.pick((const int[]){1, 24, 96, 480, 32767});
        Bytes b;
        auto delta = [&]() { switch(r.below(5)) { case 0: case 1: b.push_back(0); break; case 2: put_vlq(b, (uint64_t)r.range(1, 4)); break; case 3: put_vlq(b, (uint64_t)r.range(1, div)); break; default: put_vlq(b, (uint64_t)r.range(1, 4 * div)); } };
        auto tempo = [&]() { delta(); b.push_back(0xFF); b.push_back(0x51); b.push_back(3); uint32_t us = r.chance(0.6) ? (uint32_t)r.below(3) : (uint32_t)r.pick((const int[]){3, 10, 1000, 500000}); b.push_back((uint8_t)(us >> 16)); b.push_back((uint8_t)(us >> 8)); b.push_back((uint8_t)us); };
        auto marker = [&](const std::string &t) { delta(); b.push_back(0xFF); b.push_back(0x06); put_vlq(b, t.size()); put_str(b, t.c_str()); };
        auto note = [&]() { delta(); b.push_back((uint8_t)(0x90 | r.below(3))); b.push_back((uint8_t)r.range(40, 80)); b.push_back((uint8_t)r.range(0, 127)); };
        std::function<void(int)> section = [&](int depth)
        {
            int n = r.range(0, 7);
            for(int i = 0; i < n; i++)
            {
                int k = (int)r.below(12);
                if(k >= 10) k = 8;
                if(k < 4) note();
                else if(k < 6) tempo();
                else if(k < 8 && depth < 3)
                {
                    marker(vfmt("loopStart=%d", (int)r.pick((const int[]){0, 0, 1, 2, 3, 100})));
                    section(depth + 1);
                    marker(r.chance(0.8) ? std::string("loopEnd=0") : std::string("loopEnd"));
                }
                else if(k == 8 && r.chance(0.7))
                {   // the sequencer's internal event codes written into the file as meta events, with payloads of 0..2 bytes
                    delta(); b.push_back(0xFF); b.push_back((uint8_t)(0xE1 + r.below(7))); int pl = (int)r.below(3); b.push_back((uint8_t)pl); for(int q = 0; q < pl; q++) b.push_back((uint8_t)r.below(4));
                }
                else if(k == 8) marker(r.chance(0.5) ? "loopStart" : "loopEnd");
                else { delta(); b.push_back((uint8_t)(0xB0 | r.below(3))); b.push_back((uint8_t)r.pick((const int[]){7, 11, 64, 111, 116, 117})); b.push_back((uint8_t)r.below(128)); }
            }
        };
        if(r.chance(0.6)) tempo();
        section(0);
        delta(); b.push_back(0xFF); b.push_back(0x2F); b.push_back(0);
        Bytes f; put_str(f, "MThd"); put_be(f, 6, 4); put_be(f, 0, 2); put_be(f, 1, 2); put_be(f, (uint64_t)div, 2);
        put_str(f, "MTrk"); put_be(f, b.size(), 4); put_bytes(f, b);
        return f;
    }
    case 10:
    {   // well-formed multi-device SMF: tracks name MIDI devices (FF 09), also more than one per track, and play every kind of
        // channel event behind them (the track-to-device map and the grown channel table are state that outlives a song)
        fmtname = "multiport";
        Song sg; sg.format = 1; sg.division = 96; sg.running_status = r.chance(0.5);
        int nt = r.range(2, 4); sg.tracks.resize((size_t)nt);
        for(int t = 0; t < nt; t++)
        {
            int serial = 0; uint64_t tick = 0; STrack &tr = sg.tracks[(size_t)t];
            auto push = [&](SEv e) { e.serial = serial++; tr.ev.push_back(e); };
            int ndev = r.range(0, 3);
            int n = r.range(3, 12);
            for(int i = 0; i < n; i++)
            {
                tick += (uint64_t)(r.chance(0.4) ? 0 : r.range(1, 48));
                if(ndev > 0 && r.chance(0.3)) { push(mk_meta_text(tick, 0x09, vfmt("dev%d", (int)r.below(4)))); ndev--; continue; }
                int ch = (int)r.below(16), key = r.range(30, 90);
                switch(r.below(7))
                {
                case 0: case 1: push(mk_chan(tick, 0x90 | ch, key, r.range(1, 127))); break;
                case 2: push(mk_chan(tick, 0x80 | ch, key, 0)); break;
                case 3: push(mk_chan(tick, 0xA0 | ch, key, r.range(0, 127))); break;
                case 4: push(mk_chan(tick, 0xD0 | ch, r.range(0, 127))); break;
                case 5: push(mk_chan(tick, 0xE0 | ch, r.range(0, 127), r.range(0, 127))); break;
                default: push(mk_chan(tick, 0xB0 | ch, (int)r.pick((const int[]){1, 7, 10, 11, 64, 0, 32, 6, 100, 101}), r.range(0, 127))); break;
                }
            }
            push(mk_meta(tick + (uint64_t)r.range(0, 48), 0x2F, std::vector<uint8_t>()));
        }
        return serialize_song(sg);
    }
    case 9:
    {   // well-formed XMI whose sequence uses the AIL loop controllers: FOR (CC116 n), NEXT (CC117 >= 64), BREAK (CC117 < 64),
        // balanced or not, nested, with infinite counts; seeks land inside loop bodies
        fmtname = "xmiloops";
        Bytes b;
        b.push_back(0xFF); b.push_back(0x51); b.push_back(0x03); put_be(b, (uint64_t)r.pick((const int[]){500000, 100000, 3, 1000000}), 3);
        if(r.chance(0.15))
        {   // a long SysEx / meta payload that is really there (the converter copies it into a buffer it grows in 8 KiB steps)
            xmi_delay(b, (uint32_t)r.range(0, 10));
            size_t L = (size_t)r.pick((const int[]){100, 8200, 16400, 30000, 50000});
            if(r.chance(0.7)) b.push_back(0xF0); else { b.push_back(0xFF); b.push_back(0x01); }
            put_vlq(b, L);
            for(size_t q = 0; q < L; q++) b.push_back((uint8_t)(q & 0x7F));
        }
        int n = r.range(2, 24), depth = 0;
        if(r.chance(0.5))
        {   // loops that the loader accepts: every FOR is closed by exactly one NEXT or BREAK; bodies long enough to seek into
            int nseg = r.range(2, 5);
            for(int sgi = 0; sgi < nseg; sgi++)
            {
                xmi_delay(b, (uint32_t)r.range(0, 60));
                bool loop = r.chance(0.7);
                if(loop) { b.push_back(0xB0); b.push_back(116); b.push_back((uint8_t)r.pick((const int[]){0, 1, 2, 2, 3})); }
                int m = r.range(1, 4);
                for(int j = 0; j < m; j++) { xmi_delay(b, (uint32_t)r.range(10, 90)); b.push_back((uint8_t)(0x90 | r.below(3))); b.push_back((uint8_t)r.range(40, 80)); b.push_back(100); put_vlq(b, (uint64_t)r.range(1, 50)); }
                xmi_delay(b, (uint32_t)r.range(10, 90));
                if(loop) { b.push_back(0xB0); b.push_back(117); b.push_back((uint8_t)(r.chance(0.5) ? 127 : 0)); }
            }
            n = 0;
        }
        for(int i = 0; i < n; i++)
        {
            xmi_delay(b, r.chance(0.4) ? 0u : (uint32_t)r.range(1, 60));
            int k = (int)r.below(10), ch = (int)r.below(3);
            if(k < 4) { b.push_back((uint8_t)(0x90 | ch)); b.push_back((uint8_t)r.range(40, 80)); b.push_back((uint8_t)r.range(1, 127)); put_vlq(b, (uint64_t)r.range(1, 100)); }
            else if(k < 6) { b.push_back((uint8_t)(0xB0 | ch)); b.push_back(116); b.push_back((uint8_t)r.pick((const int[]){0, 0, 1, 2, 3, 127})); depth++; }
            else if(k < 8) { b.push_back((uint8_t)(0xB0 | ch)); b.push_back(117); b.push_back((uint8_t)(r.chance(0.7) ? 127 : r.range(64, 127))); depth--; }
            else if(k == 8) { b.push_back((uint8_t)(0xB0 | ch)); b.push_back(117); b.push_back((uint8_t)r.range(0, 63)); }
            else { b.push_back((uint8_t)(0xB0 | ch)); b.push_back((uint8_t)r.pick((const int[]){7, 10, 64, 119, 110, 111})); b.push_back((uint8_t)r.below(128)); }
        }
        while(depth-- > 0 && r.chance(0.7)) { xmi_delay(b, (uint32_t)r.range(0, 30)); b.push_back(0xB0); b.push_back(117); b.push_back(127); }
        xmi_delay(b, (uint32_t)r.range(0, 120));
        b.push_back(0xFF); b.push_back(0x2F); b.push_back(0x00);
        Bytes info; put_le(info, 1, 2);
        Bytes xdir; put_str(xdir, "XDIR"); iff_chunk(xdir, "INFO", info);
        Bytes form; put_str(form, "XMID"); iff_chunk(form, "EVNT", b);
        Bytes cat; put_str(cat, "XMID"); iff_chunk(cat, "FORM", form);
        Bytes f; iff_chunk(f, "FORM", xdir); iff_chunk(f, "CAT ", cat);
        return f;
    }
    case 7:
    {   // RSXX (EA-MUS): byte 0 = offset >= 0x5D of the data, "rsxx}u" 16 bytes before it
        fmtname = "rsxx";
        int start = r.range(0x5D, 0x7F);
        Bytes f((size_t)start, 0);
        f[0] = (uint8_t)start;
        memcpy(&f[(size_t)start - 0x10], "rsxx}u", 6);
        SongOpts o1; o1.max_tracks = 1; o1.min_tracks = 1; o1.max_events = 15; o1.sysex_meta = false;
        Song s = gen_song(r, o1);
        Bytes t = serialize_track(s, s.tracks[0]);
        // RSXX tracks have no initial delta
        size_t skip = 0; while(skip < t.size() && (t[skip] & 0x80)) skip++; skip++;
        f.insert(f.end(), t.begin() + (long)std::min(skip, t.size()), t.end());
        return f;
    }
    }
}

static void mutate(Rng &r, Bytes &b)
{
    int n = 1 + (int)r.below(r.chance(0.7) ? 3 : 12);
    for(int i = 0; i < n && !b.empty(); i++)
    {
        size_t pos = r.below((uint32_t)b.size());
        static const uint8_t interesting[] = {0x00, 0x01, 0x7F, 0x80, 0x81, 0xFF, 0xFE, 0xF0, 0xF7, 0x2F, 0x51, 0x40, 0x10, 0x90, 0xB0, 0x06};
        switch(r.below(9))
        {
        case 0: b[pos] ^= (uint8_t)(1u << r.below(8)); break;
        case 1: b[pos] = r.byte(); break;
        case 2: b[pos] = r.pick(interesting); break;
        case 3: b.resize(pos); break;                                   // truncate
        case 4: { size_t cnt = 1 + r.below(8); b.insert(b.begin() + (long)pos, cnt, r.pick(interesting)); break; }
        case 5: { size_t cnt = std::min<size_t>(1 + r.below(8), b.size() - pos); b.erase(b.begin() + (long)pos, b.begin() + (long)(pos + cnt)); break; }
        case 6: { size_t src = r.below((uint32_t)b.size()); size_t cnt = std::min<size_t>(1 + r.below(32), b.size() - src); Bytes c(b.begin() + (long)src, b.begin() + (long)(src + cnt)); b.insert(b.begin() + (long)pos, c.begin(), c.end()); break; }
        case 7: { // overwrite a 4-byte big-endian field with a hostile length
            static const uint32_t lens[] = {0, 1, 0x7FFFFFFF, 0x80000000u, 0xFFFFFFFFu, 0xFFFFFFF8u, 0xFFFFFFF0u, 0x10000, 0xFFFF};
            uint32_t v = r.pick(lens); if(r.chance(0.3)) v = (uint32_t)b.size() - (uint32_t)pos + (uint32_t)r.range(-9, 9);
            for(int j = 0; j < 4 && pos + (size_t)j < b.size(); j++) b[pos + (size_t)j] = (uint8_t)(v >> (24 - 8 * j));
            break; }
        case 8: { // long / wrapping variable-length quantity
            int cnt = r.range(2, 11); Bytes v; for(int j = 0; j < cnt; j++) v.push_back((uint8_t)(0x80 | r.below(128))); v.push_back((uint8_t)r.below(128));
            b.insert(b.begin() + (long)pos, v.begin(), v.end()); break; }
        }
    }
    if(b.size() > 65536) b.resize(65536);
}

// grammar-aware hostile SMF built from raw track bodies
static Bytes hostile_smf(Rng &r, std::string &desc)
{
    Bytes f;
    int fmt = r.range(0, 3);
    static const int divs[] = {0, 1, 96, 0x7FFF, 0x8000, 0xE250, 0xFFFF, 0xE728};
    int div = r.pick(divs);
    static const int tcounts[] = {0, 1, 2, 3, 17, 65535};
    int declared = r.pick(tcounts);
    int actual = r.range(0, 3);
    put_str(f, "MThd"); put_be(f, 6, 4); put_be(f, (uint64_t)fmt, 2); put_be(f, (uint64_t)declared, 2); put_be(f, (uint64_t)div, 2);
    desc = vfmt("hostile-smf fmt=%d div=%d declared=%d actual=%d", fmt, div, declared, actual);
    for(int t = 0; t < actual; t++)
    {
        Bytes b;
        int nev = r.range(0, 12);
        for(int i = 0; i < nev; i++)
        {
            // delta
            switch(r.below(6)) { case 0: b.push_back(0); break; case 1: put_vlq(b, (uint64_t)r.range(0, 300)); break;
                case 2: put_vlq(b, 0x0FFFFFFF); break; case 3: for(int j = 0; j < r.range(4, 10); j++) b.push_back(0xFF); b.push_back(0x7F); break;
                default: b.push_back((uint8_t)r.below(128)); }
            int kind = (int)r.below(14);
            switch(kind)
            {
            case 0: b.push_back((uint8_t)(0x90 | r.below(16))); b.push_back((uint8_t)r.below(256)); b.push_back((uint8_t)r.below(256)); break;
            case 1: b.push_back((uint8_t)r.below(128)); b.push_back((uint8_t)r.below(128)); break;      // running status (maybe none set)
            case 2: { b.push_back(0xFF); b.push_back((uint8_t)(r.chance(0.3) ? 0xE1 + r.below(7) : r.below(256)));   // 0xE1..0xE7: the sequencer's own internal event codes
                static const uint64_t L[] = {0, 1, 3, 127, 128, 0x3FFF, 0x1FFFFF, 0xFFFFFFF, 0xFFFFFFFFull, 0xFFFFFFFFFFFFFFF8ull, 0x7FFFFFFFFFFFFFFFull};
                uint64_t len = r.pick(L); put_vlq(b, len); int have = r.range(0, 6); for(int j = 0; j < have; j++) b.push_back(r.byte()); break; }
            case 3: { b.push_back(r.chance(0.5) ? 0xF0 : 0xF7);
                static const uint64_t L[] = {0, 1, 5, 128, 0xFFFFFFFFull, 0xFFFFFFFFFFFFFFFFull, 0xFFFFFFFFFFFFFFF0ull};
                put_vlq(b, r.pick(L)); int have = r.range(0, 6); for(int j = 0; j < have; j++) b.push_back(r.byte()); break; }
            case 4: b.push_back(0xFF); break;                                     // meta with nothing behind it
            case 5: b.push_back(0xFF); b.push_back(0x2F); b.push_back(0x00); break;
            case 6: b.push_back(0xFF); b.push_back(0x51); b.push_back(0x03); b.push_back(0); b.push_back(0); b.push_back((uint8_t)r.below(3)); break; // tempo 0..2 us
            case 7: b.push_back((uint8_t)r.range(0xF1, 0xFE)); if(r.chance(0.5)) b.push_back(r.byte()); break;
            case 8: { b.push_back(0xFF); b.push_back(0x09); std::string n = vfmt("dev%d", r.range(0, 40)); put_vlq(b, n.size()); put_str(b, n.c_str()); break; }
            case 9: { b.push_back(0xFF); b.push_back(0x06); const char *m[] = {"loopStart", "loopEnd", "LOOPSTART", "loopstart=3", "loopend=", "loopstart=", "loopstart=-1", "loopend=x"}; const char *s = m[r.below(8)]; put_vlq(b, strlen(s)); put_str(b, s); break; }
            case 10: b.push_back((uint8_t)(0xB0 | r.below(16))); b.push_back((uint8_t)r.range(108, 119)); b.push_back((uint8_t)r.below(256)); break;
            case 11: b.push_back((uint8_t)(0xC0 | r.below(16))); b.push_back((uint8_t)r.below(256)); break;
            case 12: b.push_back((uint8_t)(0xE0 | r.below(16))); b.push_back((uint8_t)r.below(256)); b.push_back((uint8_t)r.below(256)); break;
            default: b.push_back((uint8_t)(0x80 | r.below(0x70))); b.push_back((uint8_t)r.below(256)); b.push_back((uint8_t)r.below(256)); break;
            }
        }
        put_str(f, "MTrk");
        static const int64_t adj[] = {0, 0, 0, 1, -1, 2, -2, 100, 0x7FFFFFFF, 0xFFFFFFFFll, 0xFFFFFFF0ll, -(int64_t)1000};
        int64_t a = r.pick(adj);
        uint64_t decl = (a > 1000) ? (uint64_t)a : (uint64_t)std::max<int64_t>(0, (int64_t)b.size() + a);
        put_be(f, decl, 4);
        put_bytes(f, b);
    }
    if(r.chance(0.2)) { int n = r.range(1, 40); for(int i = 0; i < n; i++) f.push_back(r.byte()); }
    return f;
}

static Bytes hostile_other(Rng &r, std::string &desc)
{
    Bytes f;
    int sel = (int)r.below(100);
    switch(sel < 30 ? 0 : sel < 60 ? 1 : sel < 83 ? 2 : sel < 88 ? 3 : 4)
    {
    case 0:
    {   // MUS with hostile header fields / events running off the end
        desc = "hostile-mus";
        Bytes score; int n = r.range(0, 20);
        for(int i = 0; i < n; i++)
        {
            uint8_t ev = (uint8_t)((r.below(8) << 4) | r.below(16) | (r.chance(0.3) ? 0x80 : 0));
            score.push_back(ev);
            int d = r.range(0, 3); for(int j = 0; j < d; j++) score.push_back(r.byte());
            if(ev & 0x80) { int c = r.range(0, 5); for(int j = 0; j < c; j++) score.push_back((uint8_t)(0x80 | r.below(128))); if(r.chance(0.7)) score.push_back((uint8_t)r.below(128)); }
        }
        static const int starts[] = {0, 1, 14, 16, 18, 100, 0xFFFF};
        int start = r.chance(0.5) ? 16 : r.pick(starts);
        static const int lenadj[] = {0, 0, 1, -1, 5, 1000, 0xFFFF};
        int la = r.pick(lenadj);
        int slen = la > 999 ? la : std::max(0, (int)score.size() + la);
        put_str(f, "MUS\x1A"); put_le(f, (uint64_t)slen, 2); put_le(f, (uint64_t)start, 2); put_le(f, (uint64_t)r.range(0, 16), 2); put_le(f, 0, 2); put_le(f, 0, 2); put_le(f, 0, 2);
        put_bytes(f, score);
        break;
    }
    case 1:
    {   // XMI with hostile chunk lengths
        desc = "hostile-xmi";
        XmiFile x = gen_xmi(r, r.range(1, 3), 8);
        f = x.bytes;
        // find chunk length fields: after each 4-char id among FORM/CAT /INFO/EVNT/TIMB/RBRN
        std::vector<size_t> fields;
        for(size_t i = 0; i + 8 <= f.size(); i++)
            if(!memcmp(&f[i], "FORM", 4) || !memcmp(&f[i], "CAT ", 4) || !memcmp(&f[i], "INFO", 4) || !memcmp(&f[i], "EVNT", 4) || !memcmp(&f[i], "TIMB", 4)) fields.push_back(i + 4);
        int nm = r.range(1, 2);
        for(int m = 0; m < nm && !fields.empty(); m++)
        {
            size_t at = r.pick(fields);
            static const uint32_t L[] = {0, 1, 2, 3, 0xFFFFFFFFu, 0xFFFFFFF8u, 0xFFFFFFF4u, 0x7FFFFFFFu, 0x80000000u, 0xFFFFFFF0u, 0x10000};
            uint32_t v = r.chance(0.6) ? r.pick(L) : (uint32_t)((f[at] << 24) | (f[at + 1] << 16) | (f[at + 2] << 8) | f[at + 3]) + (uint32_t)r.range(-12, 12);
            for(int j = 0; j < 4; j++) f[at + (size_t)j] = (uint8_t)(v >> (24 - 8 * j));
        }
        if(r.chance(0.3)) { // RBRN chunk with hostile count
            Bytes rb; put_le(rb, (uint64_t)r.pick((const int[]){0, 1, 127, 128, 200, 65535}), 2); int n = r.range(0, 20); for(int i = 0; i < n; i++) rb.push_back(r.byte());
            size_t p = 0; for(size_t i = 0; i + 4 <= f.size(); i++) if(!memcmp(&f[i], "EVNT", 4)) { p = i; break; }
            if(p) { Bytes c; iff_chunk(c, "RBRN", rb); f.insert(f.begin() + (long)p, c.begin(), c.end()); }
        }
        if(r.chance(0.3)) f.resize(r.below((uint32_t)f.size() + 1));
        break;
    }
    case 2:
    {   // random bytes behind a magic
        static const char *magics[] = {"MThd\0\0\0\6", "RIFF", "GMF\x01", "MUS\x1A", "FORM\0\0\0\x0eXDIR", "CTMF", "FORM\0\0\0\x10XMID"};
        static const size_t mlen[] = {8, 4, 4, 4, 12, 4, 12};
        int mi = r.below(7);
        desc = vfmt("random-behind-magic-%d", mi);
        f.insert(f.end(), (const uint8_t *)magics[mi], (const uint8_t *)magics[mi] + mlen[mi]);
        int n = r.chance(0.8) ? r.range(0, 64) : r.range(64, 4000);
        for(int i = 0; i < n; i++) f.push_back(r.chance(0.3) ? (uint8_t)r.pick((const int[]){0, 0xFF, 0x80, 0x7F, 1}) : r.byte());
        break;
    }
    case 3:
    {   // event storms: thousands of device switches / zero tempo / zero-delay events
        desc = "storm";
        Bytes b;
        int kind = r.below(3), n = r.range(500, 4000);
        if(kind == 0) n = r.range(300, 1200);     // every new port name costs sixteen channel records (about 270 KB): 1200 names keep a worker below 400 MB
        for(int i = 0; i < n; i++)
        {
            b.push_back(0);
            if(kind == 0) { b.push_back(0xFF); b.push_back(0x09); std::string s = vfmt("d%d", i); put_vlq(b, s.size()); put_str(b, s.c_str()); }
            else if(kind == 1) { b.push_back(0xFF); b.push_back(0x51); b.push_back(3); b.push_back(0); b.push_back(0); b.push_back(0); }
            else { b.push_back((uint8_t)(0x90 | (i & 15))); b.push_back((uint8_t)(i & 127)); b.push_back(100); }
        }
        b.push_back(0); b.push_back(0xFF); b.push_back(0x2F); b.push_back(0);
        put_str(f, "MThd"); put_be(f, 6, 4); put_be(f, 0, 2); put_be(f, 1, 2); put_be(f, 96, 2);
        put_str(f, "MTrk"); put_be(f, b.size(), 4); put_bytes(f, b);
        break;
    }
    default:
    {   // pure random / tiny
        desc = "random";
        int n = r.chance(0.5) ? r.range(0, 20) : r.range(20, 600);
        for(int i = 0; i < n; i++) f.push_back(r.byte());
        break;
    }
    }
    if(f.size() > 65536) f.resize(65536);
    return f;
}

// ---------------------------------------------------------------------------------------------
// execution of one (file, song number, follow-ups) case
// ---------------------------------------------------------------------------------------------
static void rawhook(void *ud, OPN2_UInt8, OPN2_UInt8, OPN2_UInt8, const OPN2_UInt8 *, size_t) { (*(long *)ud)++; }
static void loophook(void *ud) { (*(long *)ud)++; }

struct RunOut { int load_rc; bool reached_end; std::string ops; std::string errclass; };

static RunOut exercise(Case &c, Rng &r, const Bytes &file, int presel_song, int nfollow, bool light)
{
    RunOut out; out.load_rc = -2; out.reached_end = false;
    static const long rates[] = {8000, 8000, 11025, 22050, 44100};
    long rate = light ? 8000 : r.pick(rates);
    OPN2_MIDIPlayer *d = NULL;
    API("opn2_init", d = opn2_init(rate));
    if(!d) { c.violation("oracle:init-failed", "opn2_init returned NULL"); return out; }
    int rc = 0;
    API("opn2_setNumChips", rc = opn2_setNumChips(d, 1));
    API("opn2_switchEmulator", rc = opn2_switchEmulator(d, r.chance(0.5) ? OPNMIDI_EMU_MAME : OPNMIDI_EMU_GENS));
    {
        ExactBuf bank(default_bank());
        API("opn2_openBankData", rc = opn2_openBankData(d, bank.p, (long)bank.n));
        if(rc != 0) { c.violation("oracle:default-bank-rejected", "generated default bank was rejected"); opn2_close(d); return out; }
    }
    long nevents = 0, nloops = 0;
    API("opn2_setRawEventHook", opn2_setRawEventHook(d, rawhook, &nevents));
    API("opn2_setLoopStartHook", opn2_setLoopStartHook(d, loophook, &nloops));
    API("opn2_setLoopEndHook", opn2_setLoopEndHook(d, loophook, &nloops));
    // Work proportional to (song time advanced / loop length) is legitimate for an endless loop, so once
    // looping has been enabled in a case, time steps are <= 0.1 s (<= 4096 samples) and tempo factors <= 2;
    // huge steps (1e9 s) and factors (1e9) are only used while looping was never enabled.
    // An endless loop over a zero-length / tiny body legitimately costs 10000 passes per call (the
    // library's anti-freeze bound), i.e. 10000 x file size: endless looping is therefore only combined
    // with files <= 256 bytes (and no second load); otherwise the loop count is finite (0..3).
    // (The loop-begin snapshot taken by the sequencer keeps the time debt of the tick call in which it was
    // taken, so a 1e9 s step before looping is enabled would have to be caught up at every later jump; the
    // decision whether a case may loop at all is therefore taken up front.)
    const bool loop_ever = r.chance(0.5);     // may this case enable looping at any time?
    const bool endless_ok = file.size() <= 256 && r.chance(0.5);
    if(loop_ever && r.chance(0.7)) API("opn2_setLoopEnabled", opn2_setLoopEnabled(d, 1));
    if(!endless_ok) API("opn2_setLoopCount", opn2_setLoopCount(d, r.range(0, 3)));
    else if(r.chance(0.3)) API("opn2_setLoopCount", opn2_setLoopCount(d, r.range(-1, 3)));
    if(presel_song != 0) API("opn2_selectSongNum", opn2_selectSongNum(d, presel_song));

    const bool via_file = r.chance(0.25);
    alloc_watch_reset();
    {
        ExactBuf in(file);
        // every fourth case hands the bytes over as a file: the file reader does not clamp seeks the way the memory reader does
        if(via_file)
        {
            FILE *tf = fopen("c01_input.bin", "wb");
            if(tf) { if(in.n) fwrite(in.p, 1, in.n, tf); fclose(tf); API("opn2_openFile", out.load_rc = opn2_openFile(d, "c01_input.bin")); count("loads_via_openFile"); }
            else API("opn2_openData", out.load_rc = opn2_openData(d, in.p, (unsigned long)in.n));
        }
        else
        API("opn2_openData", out.load_rc = opn2_openData(d, in.p, (unsigned long)in.n));
    }
    unsigned long long maxreq = g_alloc.max_req; long long peak = g_alloc.peak - 0;
    if(maxreq > (256ull << 20)) c.violation("alloc:single-request-over-256MiB:opn2_openData", vfmt("largest single allocation request %llu bytes for an input of %zu bytes", maxreq, file.size()));
    if(getenv("VERIF_C01_PEAK") && peak - (long long)g_alloc.live > (64ll << 20)) fprintf(stderr, "[peak] case %ld input %zu bytes fmt-class load peak %lld MiB maxreq %llu allocs %lld rc %d\n", c.k, file.size(), (peak) >> 20, maxreq, (long long)g_alloc.n_allocs, out.load_rc);
    (void)peak;
    if(out.load_rc != 0 && out.load_rc != -1) c.violation("oracle:load-return-value", vfmt("opn2_openData returned %d", out.load_rc));
    const char *err = NULL;
    API("opn2_errorInfo", err = opn2_errorInfo(d));
    if(out.load_rc == -1)
    {
        if(!err || !*err) c.violation("oracle:load-failed-without-error-text", "opn2_openData returned -1 and opn2_errorInfo is empty");
        std::string e = err ? err : "";
        size_t p = e.find(':'); out.errclass = e.substr(0, std::min<size_t>(p == std::string::npos ? 24 : p, 24));
    }

    short pcm[70000 + 16];
    double len = 0; API("opn2_totalTimeLength", len = opn2_totalTimeLength(d));
    std::set<int> kinds;
    for(int i = 0; i < nfollow; i++)
    {
        int op = (int)r.below(26);
        kinds.insert(op);
        if(g_w.optnum("trace", 0)) fprintf(stderr, "[trace] followup %d op %d\n", i, op);
        alloc_watch_reset();
        switch(op)
        {
        case 0: case 1: case 2:
        {
            static const int sizes[] = {0, 2, 3, 1024, 4096, 2048, -4, 1, 600, 514, 1026};
            int n = light ? 512 : (r.chance(0.04) ? 70000 : r.pick(sizes));
            if(loop_ever && n > 4096) n = 4096;
            int got = 0;
            API("opn2_play", got = opn2_play(d, n, pcm));
            int even = n - (n % 2);
            if(got < 0 || got > std::max(0, even)) c.violation("oracle:play-return-range", vfmt("opn2_play(%d) returned %d", n, got));
            break;
        }
        case 3: case 4:
        {
            static const double dts[] = {0, 1e-4, 0.01, 0.1, 1.0, 10.0, 1e9};
            double dt = r.pick(dts), ret = 0;
            if(loop_ever && dt > 0.1) dt = 0.1;
            API("opn2_tickEvents", ret = opn2_tickEvents(d, dt, r.chance(0.5) ? 0.001 : 1.0 / rate));
            if(ret < 0 || ret != ret) c.violation("oracle:tick-return-negative", vfmt("opn2_tickEvents returned %g", ret));
            break;
        }
        case 5: case 6:
        {
            double t;
            switch(r.below(9)) { case 0: t = -1; break; case 1: t = 0; break; case 2: t = len * r.unit(); break; case 3: t = len - 1e-9; break;
                case 4: t = len + 1; break; case 5: t = 1e300; break; case 6: t = HUGE_VAL; break; case 7: t = NAN; break; default: t = r.unit() * 3; }
            API("opn2_positionSeek", opn2_positionSeek(d, t));
            break;
        }
        case 7: API("opn2_positionRewind", opn2_positionRewind(d)); break;
        case 8: { double t = 0; API("opn2_positionTell", t = opn2_positionTell(d)); (void)t; API("opn2_totalTimeLength", len = opn2_totalTimeLength(d));
                  API("opn2_loopStartTime", t = opn2_loopStartTime(d)); API("opn2_loopEndTime", t = opn2_loopEndTime(d)); break; }
        case 9: { int e = 0; API("opn2_atEnd", e = opn2_atEnd(d)); if(e) out.reached_end = true; break; }
        case 10: { size_t n = 0; API("opn2_trackCount", n = opn2_trackCount(d)); int sc = 0; API("opn2_getSongsCount", sc = opn2_getSongsCount(d)); (void)n; (void)sc; break; }
        case 11: API("opn2_selectSongNum", opn2_selectSongNum(d, r.range(-2, 5))); break;
        case 12:
        {
            const char *s = NULL; API("opn2_metaMusicTitle", s = opn2_metaMusicTitle(d)); if(s) (void)strlen(s);
            API("opn2_metaMusicCopyright", s = opn2_metaMusicCopyright(d)); if(s) (void)strlen(s);
            size_t n = 0; API("opn2_metaTrackTitleCount", n = opn2_metaTrackTitleCount(d));
            for(size_t j = 0; j < std::min<size_t>(n, 50) + 2; j++) { API("opn2_metaTrackTitle", s = opn2_metaTrackTitle(d, j)); if(s) (void)strlen(s); }
            API("opn2_metaMarkerCount", n = opn2_metaMarkerCount(d));
            for(size_t j = 0; j < std::min<size_t>(n, 50) + 2; j++) { Opn2_MarkerEntry m; memset(&m, 0, sizeof(m)); API("opn2_metaMarker", m = opn2_metaMarker(d, j)); if(m.label) (void)strlen(m.label); }
            break;
        }
        case 13: { size_t tc = 0; API("opn2_trackCount", tc = opn2_trackCount(d)); int rr = 0; API("opn2_setTrackOptions", rr = opn2_setTrackOptions(d, (size_t)r.range(0, (int)std::min<size_t>(tc, 70000) + 2), (unsigned)r.below(8))); (void)rr; break; }
        case 14: { int rr = 0; API("opn2_setChannelEnabled", rr = opn2_setChannelEnabled(d, (size_t)r.range(0, 17), (int)r.below(2))); (void)rr; break; }
        case 15: { int en = loop_ever ? (int)r.below(2) : 0; API("opn2_setLoopEnabled", opn2_setLoopEnabled(d, en)); break; }
        case 16: API("opn2_setLoopCount", opn2_setLoopCount(d, r.range(endless_ok ? -1 : 0, 4))); break;
        case 17: API("opn2_setLoopHooksOnly", opn2_setLoopHooksOnly(d, (int)r.below(2))); break;
        case 18: { static const double tm[] = {1e-9, 0.1, 0.5, 1, 2, 100, 1e9, 0, -1}; double t = r.pick(tm); if(loop_ever && t > 2) t = 2; API("opn2_setTempo", opn2_setTempo(d, t)); break; }
        case 19:
        if(endless_ok) break;
        {   // second load: valid or hostile
            Rng r2(c.rng.next(), 77, (uint64_t)i);
            std::string nm; Bytes f2 = r.chance(0.4) ? seed_file(r2, r2.chance(0.35) ? 10 : (int)r2.below(5), nm) : (r.chance(0.5) ? hostile_other(r2, nm) : hostile_smf(r2, nm));
            ExactBuf in(f2); int rc2 = 0;
            if(via_file)
            {
                FILE *tf = fopen("c01_input2.bin", "wb");
                if(tf) { if(in.n) fwrite(in.p, 1, in.n, tf); fclose(tf); API("opn2_openFile", rc2 = opn2_openFile(d, "c01_input2.bin")); }
                else API("opn2_openData", rc2 = opn2_openData(d, in.p, (unsigned long)in.n));
            }
            else
            API("opn2_openData", rc2 = opn2_openData(d, in.p, (unsigned long)in.n));
            if(rc2 != 0 && rc2 != -1) c.violation("oracle:load-return-value", vfmt("second opn2_openData returned %d", rc2));
            API("opn2_totalTimeLength", len = opn2_totalTimeLength(d));
            break;
        }
        case 20: API("opn2_reset", opn2_reset(d)); break;
        case 21: API("opn2_panic", opn2_panic(d)); break;
        case 22: { char t[64], a[64]; int rr = 0; API("opn2_describeChannels", rr = opn2_describeChannels(d, t, a, sizeof(t))); (void)rr; break; }
        case 23: { int n = light ? 256 : 2048; int got = 0; API("opn2_generate", got = opn2_generate(d, n, pcm)); if(got != n) c.violation("oracle:generate-return", vfmt("opn2_generate(%d) returned %d", n, got)); break; }
        case 24: { // play until the end or 30 calls
            for(int j = 0; j < 30; j++) { int got = 0; API("opn2_play", got = opn2_play(d, (light || loop_ever) ? 512 : 2048, pcm)); int e = 0; API("opn2_atEnd", e = opn2_atEnd(d)); if(e) { out.reached_end = true; break; } if(got == 0) break; }
            break; }
        default: { double ret = 0; double dt = len > 0 && len < 1e6 ? len / 7.0 : 0.5; if(loop_ever && dt > 0.1) dt = 0.1; API("opn2_tickEvents", ret = opn2_tickEvents(d, dt, 0.001)); (void)ret; break; }
        }
        if(g_w.optnum("trace", 0)) fprintf(stderr, "[trace]   after op %d: tell=%g atEnd=%d loop_ever=%d\n", op, opn2_positionTell(d), opn2_atEnd(d), (int)loop_ever);
        if(g_alloc.max_req > (256ull << 20)) c.violation(vfmt("alloc:single-request-over-256MiB:followup-%d", op), vfmt("allocation request of %llu bytes in follow-up op %d", (unsigned long long)g_alloc.max_req, op));
        if(getenv("VERIF_C01_PEAK") && g_alloc.peak > (64ll << 20)) { fprintf(stderr, "[peak] case %ld after op %d: peak live %lld MiB (input %zu bytes, %lld allocations, largest %llu)\n", c.k, op, (long long)g_alloc.peak >> 20, file.size(), (long long)g_alloc.n_allocs, (unsigned long long)g_alloc.max_req); g_alloc.peak = 0; }
        if(g_w.violations_in_case > 20) break;
    }
    API("opn2_close", opn2_close(d));
    for(std::set<int>::iterator i = kinds.begin(); i != kinds.end(); ++i) out.ops += vfmt("%d,", *i);
    count("events_delivered_to_hook", nevents);
    count("loop_callbacks", nloops);
    return out;
}

static std::string detect_format(const Bytes &f)
{
    if(f.size() < 14) return "short";
    if(!memcmp(f.data(), "MThd\0\0\0\6", 8)) return "smf";
    if(!memcmp(f.data(), "RIFF", 4)) return "rmi";
    if(!memcmp(f.data(), "GMF\x01", 4)) return "gmf";
    if(!memcmp(f.data(), "MUS\x1A", 4)) return "mus";
    if(!memcmp(f.data(), "FORM", 4) && !memcmp(f.data() + 8, "XDIR", 4)) return "xmi";
    if(!memcmp(f.data(), "CTMF", 4)) return "cmf";
    return "other";
}

// ---------------------------------------------------------------------------------------------
// sweep enumeration: files x (every prefix length; every offset x {00,7F,80,FF})
// ---------------------------------------------------------------------------------------------
static std::vector<Bytes> g_sweep_files;
static std::vector<std::string> g_sweep_names;
static void build_sweep_files()
{
    if(!g_sweep_files.empty()) return;
    int want = (int)g_w.optnum("files", 4);
    for(int i = 0; i < want; i++)
    {
        int fmt = i % 8;
        Bytes b; std::string nm;
        for(int attempt = 0; attempt < 200; attempt++)
        {
            Rng r(g_w.seed, 9000 + (uint64_t)i, (uint64_t)attempt);
            if(fmt == 0) { SongOpts o; o.max_tracks = 2; o.min_tracks = 2; o.max_events = 6; o.loops = true; Song s = gen_song(r, o); b = serialize_song(s); nm = "smf"; }
            else if(fmt == 3) { b = gen_mus(r, 10).bytes; nm = "mus"; }
            else if(fmt == 4) { b = gen_xmi(r, 2, 5).bytes; nm = "xmi"; }
            else { SongOpts o; o.max_tracks = 1; o.max_events = 6; (void)o; b = seed_file(r, fmt, nm); }
            if(b.size() <= 320) break;
        }
        if(b.size() > 400) b.resize(400);
        g_sweep_files.push_back(b); g_sweep_names.push_back(nm);
    }
}

static void run_case(Case &c)
{
    Rng &r = c.rng;
    Bytes file; std::string desc; int presel = 0; int nfollow; bool light = false;
    if(g_w.stage.compare(0, 5, "sweep") == 0)
    {
        build_sweep_files();
        size_t nf = g_sweep_files.size();
        size_t fi = (size_t)c.k % nf, idx = (size_t)c.k / nf;
        const Bytes &base = g_sweep_files[fi];
        size_t ntrunc = base.size() + 1;
        if(idx < ntrunc) { file.assign(base.begin(), base.begin() + (long)idx); desc = vfmt("%s truncated to %zu/%zu", g_sweep_names[fi].c_str(), idx, base.size()); }
        else
        {
            size_t j = idx - ntrunc; size_t off = j / 4; static const uint8_t vals[] = {0x00, 0x7F, 0x80, 0xFF};
            if(off >= base.size()) { c.skip = true; return; }
            file = base; if(file[off] == vals[j % 4]) file[off] ^= 0x55; else file[off] = vals[j % 4];
            desc = vfmt("%s byte %zu := %02x", g_sweep_names[fi].c_str(), off, file[off]);
        }
        nfollow = 8; light = true;
    }
    else
    {
        int cls = (int)r.below(100);
        if(cls < 38) { std::string nm; file = seed_file(r, (int)r.below(11), nm); int before = (int)file.size(); mutate(r, file); desc = vfmt("mutated-%s(%d->%zu)", nm.c_str(), before, file.size()); }
        else if(cls < 63) file = hostile_smf(r, desc);
        else if(cls < 85) file = hostile_other(r, desc);
        else { std::string nm; file = seed_file(r, r.chance(0.6) ? (int)r.pick((const int[]){8, 9, 10}) : (int)r.below(8), nm); desc = "wellformed-" + nm; }
        presel = r.chance(0.3) ? r.range(-2, 5) : 0;
        nfollow = r.range(0, 40);
        if(file.size() > 6000) nfollow = std::min(nfollow, 8);   // event storms: every seek replays thousands of events
        light = r.chance(0.8);
    }
    if(!c.replay_path.empty()) { FILE *f = fopen((c.replay_path + ".input").c_str(), "wb"); if(f) { fwrite(file.data(), 1, file.size(), f); fclose(f); } }
    RunOut o = exercise(c, r, file, presel, nfollow, light);
    std::string fmt = detect_format(file);
    c.nontrivial = (fmt != "short" && fmt != "other") || o.load_rc == 0;
    c.sig = fmt + "|" + vfmt("%d", o.load_rc) + "|" + o.errclass + "|" + o.ops + (o.reached_end ? "|end" : "");
    count(("format_" + fmt + (o.load_rc == 0 ? "_parsed" : "_rejected")).c_str());
    c.sample(std::string("{\"input\":") + jstr(desc) + ",\"size\":" + vfmt("%zu", file.size()) + ",\"head_hex\":" + jstr(hexs(file, 40)) +
             ",\"preselected_song\":" + vfmt("%d", presel) + ",\"followups\":" + vfmt("%d", nfollow) + ",\"load_rc\":" + vfmt("%d", o.load_rc) + "}");
}
