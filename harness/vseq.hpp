// Sequencer observation: capture of the raw event hook (public API) stamped with song time, driver time and
// the output-frame counter (hook H3); derivation of the expected per-track event lists from a generated Song;
// per-track matching with the same-tick permutations the property allows. Used by C07, C08, C09, C17.
#ifndef VSEQ_HPP
#define VSEQ_HPP

#include "vstate.hpp"
#include "vconv.hpp"

struct DEv
{
    uint8_t type, subtype, channel;
    std::vector<uint8_t> data;
    double song_t;      // opn2_positionTell inside the hook
    double acc_t;       // driver's accumulated real time when the delivering call was made (tick-driven)
    double prev_acc_t;  // accumulated time of the previous call
    uint64_t frames;    // frames rendered when the event was handed over (audio-driven)
    int call;
    bool same(const DEv &o) const { return type == o.type && subtype == o.subtype && channel == o.channel && data == o.data; }
    std::string str() const { return vfmt("%02x/%02x ch%d [%s]", type, subtype, channel, hexs(data, 12).c_str()); }
};

struct Capture
{
    OPN2_MIDIPlayer *dev;
    std::vector<DEv> ev;
    double acc_t, prev_acc_t;
    int call;
    long loop_start_cb, loop_end_cb;
    std::vector<size_t> loop_start_at, loop_end_at;   // index into ev at the time of the callback
    Capture(): dev(NULL), acc_t(0), prev_acc_t(0), call(0), loop_start_cb(0), loop_end_cb(0) {}
    static void hook(void *ud, OPN2_UInt8 type, OPN2_UInt8 subtype, OPN2_UInt8 channel, const OPN2_UInt8 *data, size_t len)
    {
        Capture *c = (Capture *)ud;
        DEv e; e.type = type; e.subtype = subtype; e.channel = channel;
        if(len && data) e.data.assign(data, data + len);
        e.song_t = opn2_positionTell(c->dev);
        e.acc_t = c->acc_t; e.prev_acc_t = c->prev_acc_t; e.call = c->call;
        e.frames = P(c->dev)->m_verifFramesOut;
        c->ev.push_back(e);
    }
    static void on_loop_start(void *ud) { Capture *c = (Capture *)ud; c->loop_start_cb++; c->loop_start_at.push_back(c->ev.size()); }
    static void on_loop_end(void *ud) { Capture *c = (Capture *)ud; c->loop_end_cb++; c->loop_end_at.push_back(c->ev.size()); }
    void attach(OPN2_MIDIPlayer *d) { dev = d; opn2_setRawEventHook(d, &Capture::hook, this); }
    void clear() { ev.clear(); acc_t = prev_acc_t = 0; call = 0; loop_start_cb = loop_end_cb = 0; loop_start_at.clear(); loop_end_at.clear(); }
};

// The synthetic song-begin marker the library puts at position 0 of track 0 (subtype 0x101 truncated to 8 bits, no data)
static inline bool is_song_begin_marker(const DEv &e) { return e.type == 0xFF && e.subtype == 0x01 && e.data.empty(); }

// Expected event in hook form
struct XE { uint64_t tick; int track; int serial; DEv e; int cls; };
enum { CL_NOTEON, CL_NOTEOFF, CL_CTRL, CL_NOTEAT, CL_SYSEX, CL_META, CL_EOT };

static inline XE expected_of(const SEv &s, int track)
{
    XE x; x.tick = s.tick; x.track = track; x.serial = s.serial;
    DEv &e = x.e; e.song_t = e.acc_t = e.prev_acc_t = 0; e.frames = 0; e.call = 0; e.subtype = 0; e.channel = 0;
    if(s.is_chan())
    {
        e.type = (uint8_t)(s.status >> 4); e.channel = (uint8_t)(s.status & 15); e.data = s.data;
        if(e.type == 9 && s.data.size() == 2 && s.data[1] == 0) e.type = 8;
        x.cls = e.type == 9 ? CL_NOTEON : e.type == 8 ? CL_NOTEOFF : e.type == 0xA ? CL_NOTEAT : CL_CTRL;
    }
    else if(s.status == 0xFF)
    {
        e.type = 0xFF; e.subtype = s.meta; e.data = s.data; x.cls = s.meta == 0x2F ? CL_EOT : CL_META;
        if(s.meta == 0x06)
        {
            std::string low(s.data.begin(), s.data.end());
            for(size_t i = 0; i < low.size(); i++) if(low[i] >= 'A' && low[i] <= 'Z') low[i] = (char)(low[i] - 'A' + 'a');
            if(low == "loopstart") { e.subtype = 0xE1; e.data.clear(); }
            else if(low == "loopend") { e.subtype = 0xE2; e.data.clear(); }
        }
    }
    else { e.type = 0xF0; e.data.clear(); e.data.push_back(s.status); e.data.insert(e.data.end(), s.data.begin(), s.data.end()); x.cls = CL_SYSEX; }
    return x;
}

// Which track does a delivered event belong to? Generated songs give each track its own channels (t, t+8) and tag
// every meta/SysEx payload with the track number.
static inline int track_of(const DEv &e, int ntracks)
{
    if(e.type >= 0x8 && e.type <= 0xE) return (e.channel % 8) < ntracks ? (e.channel % 8) : -1;
    if(e.type == 0xF0) return e.data.size() >= 3 ? e.data[2] : -1;   // F0 7D <track> <serial> ...
    if(e.type == 0xFF)
    {
        if(e.subtype == 0x51) return 0;
        if(e.subtype == 0x58) return e.data.size() == 4 ? e.data[3] : -1;
        if(e.subtype == 0x20 || e.subtype == 0x21 || e.subtype == 0x54) return e.data.size() >= 1 ? e.data[0] : -1;
        if(e.subtype == 0x2F) return -2;   // attributed by time
        // text-like: "t<track>#<serial>" or "trk<track>"
        std::string s(e.data.begin(), e.data.end());
        int t = -1;
        if(sscanf(s.c_str(), "t%d#", &t) == 1) return t;
        if(sscanf(s.c_str(), "trk%d", &t) == 1) return t;
        return -1;
    }
    return -1;
}

#endif
